"""Table of property checks, assembled from one fragment per property in checks_d/<ID>.py.

A fragment defines ID and CHECK = {title, level, technique, rule, assumptions, level_text, level_note,
runs: [{pkg, test, shards_quick, shards_thorough, [race], [env], [timeout_quick], [timeout_thorough], [gomaxprocs]}],
[needs_cli], [crash_is_violation]}.
"""
import glob
import importlib.util
import os

HOOK_COMMITS = ["1a5e1e8"]

# properties deliberately not claimed, with the reason (kept in MANIFEST.not_applicable)
NOT_APPLICABLE = {}

CHECKS = {}
_d = os.path.join(os.path.dirname(os.path.abspath(__file__)), "checks_d")
for _f in sorted(glob.glob(os.path.join(_d, "C*.py"))):
    _spec = importlib.util.spec_from_file_location("checks_d_" + os.path.basename(_f)[:-3], _f)
    _m = importlib.util.module_from_spec(_spec)
    _spec.loader.exec_module(_m)
    CHECKS[_m.ID] = _m.CHECK
