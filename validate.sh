#!/bin/sh
# validates MANIFEST.json and every evidence file against the schemas
python3-vt - <<'PY'
import json,jsonschema,glob
jsonschema.validate(json.load(open('/verif/MANIFEST.json')),json.load(open('/root/.vp/MANIFEST.schema.json')))
s=json.load(open('/root/.vp/EVIDENCE.schema.json'))
for f in sorted(glob.glob('/verif/evidence/*.json')):
    jsonschema.validate(json.load(open(f)),s)
    print('ok',f)
print('manifest ok')
PY
./check list > /dev/null || exit 1
