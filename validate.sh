#!/bin/sh
# validates the check fragments (they must import), MANIFEST.json and every evidence file against the schemas
cd /verif
./check list > /dev/null || { echo "FRAGMENTS BROKEN"; exit 1; }
python3 gen_manifest.py > /dev/null || { echo "MANIFEST GENERATION FAILED"; exit 1; }
python3-vt - <<'PY' || exit 1
import json,jsonschema,glob
jsonschema.validate(json.load(open('/verif/MANIFEST.json')),json.load(open('/root/.vp/MANIFEST.schema.json')))
s=json.load(open('/root/.vp/EVIDENCE.schema.json'))
for f in sorted(glob.glob('/verif/evidence/*.json')):
    jsonschema.validate(json.load(open(f)),s)
    print('ok',f)
print('manifest ok')
PY
