import sys, os
sys.path.insert(0, os.path.dirname(os.path.dirname(os.path.abspath(__file__))))
from checks_common import COMMON_ASSUME

ID = 'C03'

CHECK = {
 'title': 'Stopping regulation hands the fan back or leaves it at full speed',
 'level': 'fault_enumeration',
 'technique': 'choice-tape DFS with deviation bound over the real controller Run (and daemon) in virtual time: stop event before every file operation / idle instant x write faults',
 'rule': 'layer 2: real RunDaemon() (YAML -> loader -> validator -> InitializeObjects -> actor group incl. the signal actor), one OS process per execution, in a virtual-time bubble with the vsignal stand-in: '
         'up to 2 (quick) / 3 (thorough) extra SIGTERM/SIGINT deliveries before any file operation after regulation began (single-fan jobs) or at idle instants (all jobs), then a final SIGTERM; oracle on the mirrored '
         'device files after the process is gone + no panic + exit 0. '
         'layer 1: real DefaultFanController.Run(ctx) in a testing/synctest bubble with real bbolt persistence; per configuration (fan kind, pwm_enable present, original mode 0/1/2/3, '
         'original PWM 0/100/255, stored data / configured map / full initialisation, stop by cancellation or by stalled-at-max error, timer tie order) every execution with at most '
         '2 (quick) / 3 (thorough) deviations, a deviation being: cancellation before a given file operation or at an idle instant, or a refused / silently ignored write after the stop event. '
         'Oracle when Run has returned: (pwm_enable == original and original != 1) or pwm == 255; executions in which the final full-speed write itself was refused/ignored are excluded. '
         'distinct_nontrivial = distinct (configuration, observation) outcomes. Layer 1 offers, after every mode write of the restore phase, a failing (EIO) read-back of the control mode as a further environment answer (reads that establish the original mode are left alone). Layer 2 has a job with a fan driven through external commands.',
 'assumptions': COMMON_ASSUME + ['fan2go goroutines are not pre-empted in the middle of a handler (bubble scheduling); the environment acts before any file operation and at idle instants',
                                   'vsync.Mutex (Cond-based) replaces sync.Mutex in the controller package so that lock waits are durable blocks for the virtual clock'],
 'level_text': 'all signal-arrival points x write-fault combinations up to a deviation bound, each execution run to completion on the real code; final device state checked',
 'level_note': 'bounded by deviation count (reported) and the listed configurations; the long initialisation sequence is cancelled at every 97th operation in quick, at every operation in thorough',
 'runs': [{'pkg': 'internal/controller', 'test': 'TestVX_C03run', 'shards_quick': 16, 'shards_thorough': 16},
          {'pkg': 'internal', 'test': 'TestVX_C03daemon', 'shards_quick': 8, 'shards_thorough': 8, 'gomaxprocs': '4'}],
}
