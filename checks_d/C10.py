import sys, os
sys.path.insert(0, os.path.dirname(os.path.dirname(os.path.abspath(__file__))))
from checks_common import COMMON_ASSUME

ID = 'C10'

CHECK = {
 'title': 'A stalled never-stop fan is noticed and pushed within a bounded time',
 'level': 'model_checking',
 'technique': 'exhaustive parameter grid of deterministic closed-loop executions of the real measureRpm+UpdateFanSpeed against a threshold fan model (liveness as bounded response)',
 'rule': 'one execution per tuple (fan kind hwmon/file x limits x spin threshold theta (grid + boundaries + never) x prior RPM {0,1,500,5000} x rpmRollingWindowSize x '
         'control-cycle:poll ratio {5:1,1:1,1:5} x curve value {0,128,255} x PWM map {identity; README sparse, 3-level; thorough also compressing and quantising}); the fan first runs at the prior RPM, then follows "spins iff pwm >= theta". Oracle: first raise and every further raise '
         'within 50*window+50 polls while 0 RPM is reported, the request never drops at a raise, exceeds the stalled request and never exceeds the maximum, ends with rotation or ErrFanStalledAtMaxPwm at the maximum. '
         'distinct_nontrivial = tuples in which at least one raise happened. Also file fans configured with home-relative (~) paths. Second run: the real Run() in virtual time with a fan that never turns (hwmon with/without configured maxPwm, file; curve 0/255; window 1/3): after the maximum has been written only the hand-back writes may follow (regulation of that fan stops). cmd fans additionally print their RPM with a decimal point; after the fan turns again the run continues for 40 polls in which the minimum must not be raised further.',
 'assumptions': COMMON_ASSUME + ['bound 50*window+50 polls stands for "tens of polls proportional to the window, not thousands"'],
 'level_text': 'bounded-response (liveness) property decided on every tuple of a finite parameter grid by running the real closed loop to completion in a deterministic simulation',
 'level_note': 'direct algorithm only (request must stay unchanged while stalled); cmd fans share the integer-average code path of file fans',
 'runs': [{'pkg': 'internal/controller', 'test': 'TestVX_C10', 'shards_quick': 16, 'shards_thorough': 16},
          {'pkg': 'internal/controller', 'test': 'TestVX_C10stop', 'shards_quick': 12, 'shards_thorough': 12}],
}
