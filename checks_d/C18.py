import sys, os
sys.path.insert(0, os.path.dirname(os.path.dirname(os.path.abspath(__file__))))
from checks_common import COMMON_ASSUME

ID = 'C18'

CHECK = {'title': 'Only root-controlled executables are ever run',
 'level': 'exploration',
 'technique': 'exhaustive enumeration of owner x group x permission mode x path kind on real files, real SafeCmdExecution / Validate, '
              'side-effect marker as execution witness; process-per-case runs of the real daemon root command and `fan2go fan` sub-commands; concurrent callers in a race-instrumented build',
 'rule': 'run 1 (util): owner {0,1234} x group {0,1234} x all 512 permission modes x {direct path, symlink} = 4096 script files, each through the real '
         'SafeCmdExecution (script creates a marker file); all 1024 ordered pairs of 32 core states (8 modes x owner x group) x {direct, symlink} as '
         '"execute, chown/chmod, execute again"; the same 1024 pairs with a symlink re-pointed between the executions; per core state a path through '
         '<symlinked directory>/.. and a relative path with a directory part (decoy with the opposite verdict where a command started from the '
         'executable\'s own directory would look). Further runs: the daemon root command and the `fan2go fan` sub-commands on configuration files of every '
         'core state (one process per case), and 12 concurrent callers of SafeCmdExecution / CheckFilePermissionsForExecution (6 owner/mode states, '
         'race-instrumented build: per-call verdicts + happens-before reports inside internal/util). '
         'run 2 (configuration): a real YAML configuration loaded through viper in 4 variants (no cmd entry, cmd sensor, cmd fan, both) x the same 4096 '
         'file states through the real Validate(path), and the 2048 change-between-validations pairs per variant. '
         'Oracle (one-directional): file not (uid 0 and not(gid!=0 and g+w) and not o+w) => error returned and marker absent / Validate error when a cmd '
         'entry is declared. distinct_nontrivial = number of enumerated cases (no repetition); the counters give how many were allowed and did execute. Also: a bare command name that only PATH resolves (per core state), and a call that may have to wait behind a running command while its file changes owner (3 states; the script reports the owner/mode it has when it runs). Part 8: the file is open for writing when the checked call tries to start it (text file busy), changes owner/mode 60 ms later and is closed 350 ms later: whenever it runs it must be root-controlled at that moment. The configuration run has a fan-less variant (cmd sensor, curve, no fans).',
 'assumptions': ['the sandbox runs as root on tmpfs (/dev/shm): chown/chmod take effect immediately, root bypasses read permission but needs one x bit to execute',
                 'uid/gid 1234 stand for every non-root owner/group (the rule only distinguishes 0 from non-0)'],
 'level_text': 'complete enumeration of the finite space owner x group x all 512 modes x direct/symlink, plus all ordered change pairs over a 32-state core, '
               'on real files with the real functions',
 'level_note': 'parent directories are root-owned (the rule of the statement does not look at them); setuid/setgid/sticky bits are not part of the 512 modes; '
               'panics of the call (start failures) are counted and left to C19',
 'runs': [{'pkg': 'internal/util', 'test': 'TestVX_C18', 'shards_quick': 8, 'shards_thorough': 8},
          {'pkg': 'internal/configuration', 'test': 'TestVX_C18config', 'shards_quick': 4, 'shards_thorough': 4},
          {'pkg': 'cmd', 'test': 'TestVX_C18root', 'shards_quick': 8, 'shards_thorough': 8, 'gomaxprocs': '2'},
          {'pkg': 'cmd/fan', 'test': 'TestVX_C18cli', 'shards_quick': 6, 'shards_thorough': 6, 'gomaxprocs': '2'},
          {'pkg': 'internal/util', 'test': 'TestVX_C18race', 'race': True, 'shards_quick': 1, 'shards_thorough': 1, 'gomaxprocs': '8',
           'env': {'GORACE': 'log_path=race halt_on_error=0 exitcode=0 history_size=3'}}]}
