import sys, os
sys.path.insert(0, os.path.dirname(os.path.dirname(os.path.abspath(__file__))))
from checks_common import COMMON_ASSUME

ID = 'C08'

CHECK = {
 'title': 'Sensor smoothing stays within observed readings, converges, ignores failed reads',
 'level': 'fault_enumeration',
 'technique': 'exhaustive enumeration of reading/fault sequences through the real initializeSensors seeding and updateSensor monitor path on real hwmon/file/cmd sensors; plus choice-tape DFS (deviation bound) over the interleavings of overlapping polls of the real sensorMonitor.Run under a controlled scheduler (scheduling points at the sensor lock operations)',
 'rule': 'monitor loop: the real sensorMonitor.Run with slow reads (0..800 virtual ms at a 200 ms polling rate) under a controlled scheduler that parks goroutines at every sensor lock operation; all orders of concurrently runnable goroutines up to 2 (quick) / 4 (thorough) deviations; after k completed polls of a constant reading the remaining distance must be <= (1-1/n)^k of the initial one. for each sensor kind x tempRollingWindowSize {1,2,10,50} (cmd {1,10}): every sequence of one seeding read + 3 (quick) / 4 (thorough) polls (cmd: 3 / 4) over the alphabet '
         '{-40000, 0, 35000, 35001, 100000, 1e12} U faults {REAL file content parsed by fan2go itself: missing, empty, whitespace-only, non-numeric, digits followed by text, decimal number; cmd: exit 1, non-numeric, empty output, nan, inf, -inf}. Oracle after every poll: average within the hull of the '
         'initial value and all successful finite readings (relative eps 1e-12), |a\'-c| <= (1-1/n)|a-c| for a reading c, and after a failed or non-finite poll the average is bit-identical and finite. '
         'distinct_nontrivial = passing sequences that mix successful reads and faults. The cmd alphabet also has the finite readings 1.5e308 and -1.5e308 (a command prints a float). Option run (internal/configuration TestVX_C08option): every stated tempRollingWindowSize / rpmRollingWindowSize in {1,2,3,9,10,11,50,1000, not stated}, from the file or the environment, next to other polling options, loaded through the real start-up path; the stated value (default 10) must reach CurrentConfig.',
 'assumptions': COMMON_ASSUME + ['cmd sensor faults are produced by a root-owned /bin/sh script whose body is switched per poll'],
 'level_text': 'all placements of read faults within all reading sequences up to the depth bound, on the real monitor code',
 'level_note': 'bounded depth and value alphabet; the 2 s command timeout fault is covered by C19, not here',
 'runs': [{'pkg': 'internal', 'test': 'TestVX_C08', 'shards_quick': 16, 'shards_thorough': 16},
          {'pkg': 'internal', 'test': 'TestVX_C08monitor', 'shards_quick': 6, 'shards_thorough': 9},
          {'pkg': 'internal/configuration', 'test': 'TestVX_C08option', 'shards_quick': 1, 'shards_thorough': 1}],
}
