import sys, os
sys.path.insert(0, os.path.dirname(os.path.dirname(os.path.abspath(__file__))))
from checks_common import COMMON_ASSUME

ID = 'C14'

CHECK = {'title': 'Stored fan data round-trips and is isolated per fan and per kind',
 'level': 'model_checking',
 'technique': 'explicit-state BFS over operation histories on the real persistence (bbolt file on tmpfs, file-snapshot successors, every new state '
              're-reached by replaying its history on a fresh file) against a two-map reference model; plus SIGKILL of a worker process at every '
              'write-class syscall of a history (strace fault injection, database work pinned to one OS thread) followed by a read-back; plus enumeration of start orders of three concurrent savers in virtual time',
 'rule': '(a) per configuration (subset of 3 fan ids x subset of 5 values x subset of 3 corrupt-byte variants, both kinds) breadth-first search over '
         '(database content, symbol) with symbols save/load/delete x kind x fan x value, corrupt(kind,fan,variant) written with bbolt directly, and '
         'reopen; state = which buckets exist + exact stored bytes per (kind, fan) read through a read-only bbolt handle; one transition = one real '
         'Save*/Load*/Delete* call on the restored database file; oracle per transition: return value vs model (exact float bits, os.ErrNotExist for '
         'missing, delete never errors), every other (kind, fan) entry byte-identical, target entry as modelled (a loaded undecodable entry is gone); '
         'every new state: its shortest history replayed on a fresh file with one persistence object, then every (fan, kind) loaded twice. Reduced '
         'alphabets are searched until the frontier closes, the full 61-symbol alphabet to depth 3 (quick) / 4 (thorough). '
         'distinct_nontrivial = distinct reachable states summed over configurations + distinct (history, kill point) outcomes. '
         '(b) per history (3-5 worker operations on a fresh or a pre-populated database) the worker is killed before its N-th syscall of '
         '{pwrite64,write,fdatasync,fsync,ftruncate,fallocate} for every N = 1..count (count+1 must complete); afterwards the file must open, pass '
         "bbolt's structural check, equal the model before or after the interrupted operation (all acknowledged operations visible, every other entry "
         'unchanged), load back identically through the real persistence and accept further saves. (c) three concurrent savers on one Persistence (9 entry sets x 6 start orders x database locked by another holder or not x start gap 0/700 us, virtual time): every acknowledged save must load back as saved. Alphabet additionally: a load while the process has no free file descriptor (the database cannot be opened; the store must be unchanged afterwards) and a save under the empty fan id (refused by the store: if it is acknowledged it has to be loadable).',
 'assumptions': ['tmpfs (/dev/shm) stands in for the disk file system; only process death is modelled, not power loss or torn pages',
                 'strace signal injection at syscall entry kills the worker before the syscall executes (kernel aborts syscall entry on a fatal signal); '
                 'crash instants are therefore enumerated at syscall granularity of the one database thread',
                 'Go json.Marshal output for a map is deterministic (sorted keys), so stored bytes are a canonical state'],
 'level_text': '(a) every reachable database content for each reduced alphabet (search closes) and every history up to depth 3/4 over the full '
               'alphabet, oracle on every transition, real bbolt file; (b) every syscall-level kill point of each listed history',
 'level_note': 'bounded by the listed alphabets (3 fan ids, 5 values per kind, 3 corrupt variants) and, for the full alphabet, by depth; part (b) is '
               'fault enumeration over a fixed list of histories (70 quick / 518 thorough); the first load of an undecodable entry returning a nil error '
               'is recorded as an observation, not judged',
 'runs': [{'pkg': 'internal/persistence', 'test': 'TestVX_C14a', 'shards_quick': 16, 'shards_thorough': 16},
          {'pkg': 'internal/persistence', 'test': 'TestVX_C14b', 'shards_quick': 16, 'shards_thorough': 16},
          {'pkg': 'internal/persistence', 'test': 'TestVX_C14conc', 'shards_quick': 4, 'shards_thorough': 4}]}
