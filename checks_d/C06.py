import sys, os
sys.path.insert(0, os.path.dirname(os.path.dirname(os.path.abspath(__file__))))
from checks_common import COMMON_ASSUME

ID = 'C06'

CHECK = {'title': 'Curves evaluate to their documented function, always within 0..255',
 'level': 'exploration',
 'technique': 'exhaustive enumeration of curve configurations x boundary-derived sensor inputs on the real curve and sensor objects, '
              'compared with independent references (exact rational interpolation, integer aggregate definitions, textbook PID loop '
              'on the synctest virtual clock)',
 'rule': 'linear: every min<max pair from {-20,0,1,40,41,80,120} and every non-empty subset of step temperatures {-10,0,40,41,80} x speeds '
         '{0,1,128,254,255} (7775 step sets) x inputs {every breakpoint, breakpoint +-1 m-degree, mid and quarter points of every segment, 0, -1, '
         '+-1e300, +-5e-324, +-MaxFloat64}; function: six types x 1..8 stub members x every value tuple over {0,1,127,128,254,255} (quick: '
         '{0,1,128,255} for 7 and 8 members); nested: every tree with <=4 function nodes (depth <=4, arity <=2, arity 3 for single nodes) x every '
         'type assignment over stub and real linear leaves, oracle at every node; pid: 8 gain sets x set points {0,60} x sensor kind {virtual float '
         'sensor, hwmon sensor on an integer file} x every reading sequence of depth 3 (thorough 4) over 9 readings (from -1e300 / MinInt64 to '
         '+1e300 / MaxInt64, 0, -1, set point +-1 m-degree, 61 and 65 degrees) x dt in {0, 200 ms, 1 s} between evaluations. Oracles on every evaluation: no panic, no error, '
         'value in 0..255, value == CurrentValue(), value matches the reference (linear: floor(exact)..ceil(exact); function: exact; pid: '
         'int(clamp(out,0,1)*255) +-1, any in-range value when dt=0 because the derivative is undefined). distinct_nontrivial is defined in the '
         'notes of the evidence file. Second run: a controller evaluating a linear curve while the monitor stores a new smoothed value in the same sensor, scheduling points at every sensor lock operation, all interleavings x 10 value pairs x min/max and step curves: the value must be the curves value for one of the two sensor states. Linear curves additionally: the first evaluation of a new curve object at every input, every input twice in a row, and the inputs in reverse order (state carried between evaluations), with the stored value left alone.',
 'assumptions': ['Go 1.26 toolchain (testing/synctest virtual clock) is faithful to real timer semantics',
                 'harness environment model (in-memory integer files behind the util.VerifFileOp seam) is faithful to sysfs for integer reads',
                 'an evaluation that differs from the exact rational value by less than 1e-9 before rounding is float noise, not a defect '
                 '(counter linear-float-tolerance-used reports how often this was needed)',
                 'non-finite sensor values are out of scope here (C08)'],
 'level_text': 'complete enumeration of the stated finite configuration and input alphabets on the real curve code, compared with independent '
               'references; no sampling',
 'level_note': 'bounded: temperatures/speeds/member values/gains come from the listed boundary alphabets, nesting from trees with <=4 function '
               'nodes, PID histories from depth 3/4; behaviour between the listed inputs is covered by the dense sweeps of C07 (monotone) only',
 'runs': [{'pkg': 'internal/curves', 'test': 'TestVX_C06', 'shards_quick': 16, 'shards_thorough': 16},
          {'pkg': 'internal/curves', 'test': 'TestVX_C06conc', 'shards_quick': 4, 'shards_thorough': 4}]}
