import sys, os
sys.path.insert(0, os.path.dirname(os.path.dirname(os.path.abspath(__file__))))
from checks_common import COMMON_ASSUME

ID = 'C12'

CHECK = {'title': 'The fan receives the nearest value it supports',
 'level': 'exploration',
 'technique': 'exhaustive enumeration of all PWM maps over a key universe x all requests, real code vs reference',
 'rule': 'every non-empty sub-map of a fixed key universe (8 keys quick / 12 keys thorough) with outputs from a 3-value alphabet x every request '
         '-50..305 through the real ExtractKeysWithDistinctValues+FindClosest; plus every such map over a 6-key universe and '
         'identity/README/quantiser full-size maps through the real controller updateDistinctPwmValues+setPwm on a recording fan. '
         'distinct_nontrivial = (map,request) pairs where the request is not itself a supported input and the map has more than one supported input '
         '(pairs are enumerated without repetition). Third run: the real RunInitializationSequence with 7 configured PWM maps on hwmon and file fans (fan model 10 RPM per PWM unit): the stored RPM curve holds 10*map[k] under every supported input k and nothing else; then requests -50..305 through the same controller. The controller composition is also run on a never-stop fan with minimum 50 (setPwm serves every request, limits are the business of the control cycle).',
 'assumptions': ["reference definition of 'supported input' = first key of each run of equal outputs in key order"],
 'level_text': 'complete enumeration of a finite input space (all maps over a small key universe x all requests) on the real functions, compared '
               'with an independent reference; full-size maps only for three representative maps',
 'level_note': 'bounded: key universes of 8/12 keys and a 3-value output alphabet; binary-search behaviour depends only on the order structure of '
               'keys, which these universes cover (adjacent keys, even/odd gaps, range ends)',
 'runs': [{'pkg': 'internal/util', 'test': 'TestVX_C12a', 'shards_quick': 4, 'shards_thorough': 16},
          {'pkg': 'internal/controller', 'test': 'TestVX_C12b', 'shards_quick': 12, 'shards_thorough': 16},
          {'pkg': 'internal/controller', 'test': 'TestVX_C12init', 'shards_quick': 7, 'shards_thorough': 7}]}
