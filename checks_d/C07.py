import sys, os
sys.path.insert(0, os.path.dirname(os.path.dirname(os.path.abspath(__file__))))
from checks_common import COMMON_ASSUME

ID = 'C07'

CHECK = {'title': 'Hotter never means slower',
 'level': 'exploration',
 'technique': 'exhaustive enumeration of monotone configurations x dense ascending sweeps of the input on the real code; every value must be '
              '>= its predecessor; plus stateless exploration of all interleavings of two controllers inside one shared function curve (controlled scheduler, scheduling point at every member evaluation)',
 'rule': 'an ascending sweep checks every adjacent pair, hence every pair T1<=T2 of its grid. Curves: sensor sweep at 1 m-degree within +-50 '
         'm-degree of every breakpoint and 100 m-degree elsewhere, from 2 degrees below the lowest to 2 degrees above the highest breakpoint, over '
         'every linear min<max pair from {-20,0,1,40,41,80,120}, every non-decreasing step set over temperatures {-10,0,40,41,80} x speeds '
         '{0,1,128,254,255} (1001 sets), and every sum/maximum/minimum/average tree with <=3 function nodes (<=3 levels) over a catalogue of '
         'monotone linear members, all members on one shared sensor and every member on its own sensor (one sensor raised at a time, the others '
         'resting at every combination of {cold, in-range, hot}). Further runs listed in this fragment: the curve value swept through the controller (memoryless direct: ascending sweep, fresh controllers, rises after histories incl. stalls; rate-limited direct and PID: from ONE controller state reached after a history the next request must be non-decreasing in the curve value), over PWM maps incl. sparse maps with redundant keys inside plateaus; and two controllers evaluating one shared function curve object under the controlled scheduler (every member evaluation is a scheduling point, all interleavings; each controller must get the value its definition gives for the hotter inputs). The curves harness runs with the daemon default option values (tick rate 200 ms etc.). '
         ' distinct_nontrivial = adjacent sweep pairs across which the observed value moves.',
 'assumptions': ['Go 1.26 toolchain (testing/synctest virtual clock) is faithful to real timer semantics',
                 'harness environment model (in-memory integer files behind the util.VerifFileOp seam, fan device model) is faithful to sysfs'],
 'level_text': 'complete enumeration of the stated monotone configurations, each swept over a dense finite grid of inputs on the real code',
 'level_note': 'bounded: grid resolution 1 m-degree near breakpoints / 100 m-degree elsewhere; temperatures and speeds from the listed alphabets; '
               'function trees up to 3 function nodes over a 4-member catalogue (quick: 2-4 members depending on tree size)',
 'runs': [{'pkg': 'internal/curves', 'test': 'TestVX_C07a', 'shards_quick': 16, 'shards_thorough': 16},
          {'pkg': 'internal/controller', 'test': 'TestVX_C07b', 'shards_quick': 8, 'shards_thorough': 16},
          {'pkg': 'internal/curves', 'test': 'TestVX_C07conc', 'shards_quick': 8, 'shards_thorough': 12}]}
