import sys, os
sys.path.insert(0, os.path.dirname(os.path.dirname(os.path.abspath(__file__))))
from checks_common import COMMON_ASSUME

ID = 'C02'

CHECK = {'title': 'A never-stop fan is never driven below its minimum, and the minimum never drops',
 'level': 'model_checking',
 'technique': 'explicit-state BFS over real controller states with stall episodes; history oracle (floor = initial minimum + raises)',
 'rule': 'as C01 restricted to neverStop fans with RPM sensor, RPM readings {0,1000} so any number of stall episodes occurs; distinct_nontrivial = '
         'distinct reachable (state, floor history) keys summed over configurations',
 'assumptions': ['Go 1.26 toolchain (testing/synctest virtual clock) is faithful to real timer semantics',
                 'harness environment model (in-memory integer files behind the util.VerifFileOp seam, fan device model) is faithful to sysfs',
                 'rpmRollingWindowSize=1 so the RPM average equals the injected reading'],
 'level_text': 'every reachable controller state incl. raise history for direct algorithms (closure or state cap reported), depth-bounded for PID',
 'level_note': 'bounded by the listed configurations and alphabets',
 'runs': [{'pkg': 'internal/controller', 'test': 'TestVX_C02', 'shards_quick': 16, 'shards_thorough': 16}]}
