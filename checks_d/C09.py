import sys, os
sys.path.insert(0, os.path.dirname(os.path.dirname(os.path.abspath(__file__))))
from checks_common import COMMON_ASSUME

ID = 'C09'

CHECK = {
 'title': 'A failing sensor or fan read/write never crashes the daemon',
 'level': 'fault_enumeration',
 'technique': 'exhaustive single-fault and pair-fault enumeration (component x kind x cycle window) over all fan x sensor x curve back-end combinations on the real RunDaemon, one OS process per execution, virtual time',
 'rule': 'per combination of fan back-end {hwmon,file,cmd} x sensor back-end {hwmon,file,cmd} x curve {linear, pid, function(linear), function(pid+linear), each of the six function types over two PID members}: the fault-free run, every single fault '
         '(component in {sensor read, RPM read, PWM read, PWM write, mode write} x kind in {read error, non-numeric, whitespace-only, empty content (real file content, parsed by fan2go itself); write error, silently ignored write} x control-cycle window 0..4) , every single fault that persists from window 2 until shutdown, every read-side fault paired with a write-side fault in the same control period, and further pairs (quick: 4 combinations, windows 0..2; '
         'thorough: all combinations). A fault makes every operation of that component fail during one control period. Oracle: the process exits 0 and only after the final SIGTERM, no Go panic / fatal error in its '
         'output, and after exit every fan is in its original mode (if that was not manual) or at PWM 255. "Keeps regulating" family (per fan back-end, linear curve): the sensor jumps from 60 to 75 degrees during window 1 so that the target keeps moving, PWM-read faults only (error / non-numeric; windows 1, 2, 4 and persistent from window 2): just before the final SIGTERM the fan must be at the PWM value the fault-free run of the same job shows. distinct_nontrivial = distinct (job, outcome) pairs. Component moderead: the read-back of pwm_enable fails or is garbage. Windows -18 (fault present when the daemon starts), -2 and -1 (first RPM-monitor tick before the first control cycle) for the read components. The daemon child runs in a desktop session (DISPLAY set, who without a matching entry) so that control errors go through the notification look-up. Read faults additionally include well-formed integers far outside the register range (65535, -32768) from the PWM and RPM files at start-up, before the first cycle and in cycles 0, 1, 3.',
 'assumptions': COMMON_ASSUME + ['gosensors stand-in and vsignal stand-in (DESIGN 2.1)', 'cmd back-ends are root-owned /bin/sh scripts whose behaviour is switched through a mode file'],
 'level_text': 'all single faults and fault pairs within the stated windows, each execution being a whole daemon life cycle in its own process',
 'level_note': 'faults are window-granular (one control period), not per individual operation; at most two faults per execution',
 'runs': [{'pkg': 'internal', 'test': 'TestVX_C09', 'shards_quick': 6, 'shards_thorough': 6, 'gomaxprocs': '4'}],
}
