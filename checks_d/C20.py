import sys, os
sys.path.insert(0, os.path.dirname(os.path.dirname(os.path.abspath(__file__))))
from checks_common import COMMON_ASSUME

ID = 'C20'

CHECK = {
 'title': 'Concurrent activities are free of data races',
 'level': 'exploration',
 'technique': 'systematic phase-offset schedules of all daemon activities (real RunDaemon + REST handlers + metrics gather) in a virtual-time bubble, each execution checked by the happens-before race detector; reports attributed to top fan2go frames',
 'rule': 'one race-instrumented process per schedule: scenario {regulation, stall raises, initialisation in progress, fans without PWM read-back and nothing stored (serial and parallel start)} x (API period, metrics period) x API phase offset x metrics phase offset (grid of 4 offsets quick / 9 thorough); '
         'three fans (two hwmon, one file) share function/pid/linear curves and one sensor; the API goroutine requests every list and item endpoint, the metrics goroutine gathers all collectors; each run covers start-up, '
         'regulation cycles, RPM polls, stall raises and shutdown restoration. A report is attributed to the racy SITE of each access: top non-harness fan2go function plus the text of the source statement (independent of line numbers and closure numbering); every site so named is a violation unless listed. '
         'distinct_nontrivial = distinct unordered frame pairs observed.',
 'assumptions': ['Go race detector (happens-before; reports a race whenever two conflicting accesses are not ordered by the program\'s own synchronisation, whether or not they overlapped in this run)',
                 'device files are real tmpfs files; the harness adds no locks around them (no harness-made happens-before edges)',
                 'gosensors stand-in, vsignal stand-in'],
 'level_text': 'finite grid of schedules, each one decided by a happens-before oracle (not by observing an actual collision); known racy access sites are listed individually, any new site fails the check',
 'level_note': 'the race detector keeps a bounded access history, so an individual report may be missed in one run; the set of racy FUNCTIONS is what is compared, which is stable across runs; goroutine pre-emption inside a handler is decided by the happens-before relation, not enumerated',
 'runs': [{'pkg': 'internal', 'test': 'TestVX_C20', 'race': True, 'shards_quick': 4, 'shards_thorough': 4, 'gomaxprocs': '4'}],
}
