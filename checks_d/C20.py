import sys, os
sys.path.insert(0, os.path.dirname(os.path.dirname(os.path.abspath(__file__))))
from checks_common import COMMON_ASSUME

ID = 'C20'

CHECK = {
 'title': 'Concurrent activities are free of data races',
 'level': 'exploration',
 'technique': 'systematic phase-offset schedules of all daemon activities (real RunDaemon + REST handlers + metrics gather) in a virtual-time bubble, each execution checked by the happens-before race detector; reports attributed to top fan2go frames',
 'rule': 'one race-instrumented process per schedule: scenario {regulation, stall raises, initialisation in progress, fans without PWM read-back and nothing stored (serial and parallel start)} x (API period, metrics period) x API phase offset x metrics phase offset (grid of 4 offsets quick / 9 thorough); '
         'four fans (two hwmon, two file; two of them with the built-in default control algorithm, two with direct) share function/pid/linear curves and one sensor; the API goroutine requests every list and item endpoint, the metrics goroutine gathers all collectors; each run covers start-up, '
         'regulation cycles, RPM polls, stall raises and shutdown restoration. A report is attributed to the racy SITE of each access: top non-harness fan2go function plus the text of the source statement (independent of line numbers and closure numbering), and for helpers in internal/util the first caller outside that package for the current access; every site so named is a violation unless listed. '
         'distinct_nontrivial = distinct unordered frame pairs observed. Scenario window0: tempRollingWindowSize 0 and three sensors (two file sensors). Second run (observers are read-only): per fan kind {hwmon,file} x curve {linear, pid, function(pid+linear), maximum of two pid, function(linear)} the real daemon runs twice in virtual time, alone and with every REST list/item endpoint plus the metrics gatherer polled every 50 ms; the sequence of PWM values written to the fan must be identical. One file fan has home-relative paths (a documented form; every access resolves ~ first). Scenario sensorflap: the temperature input disappears for 250 ms out of every 900 ms while two metric scrapers are active.',
 'assumptions': ['Go race detector (happens-before; reports a race whenever two conflicting accesses are not ordered by the program\'s own synchronisation, whether or not they overlapped in this run)',
                 'device files are real tmpfs files; the harness adds no locks around them (no harness-made happens-before edges)',
                 'gosensors stand-in, vsignal stand-in',
                 'log output is discarded and the global logging mutex is a no-op in the race build: log lines are not synchronisation fan2go may rely on, and both would order almost any two accesses for the detector'],
 'level_text': 'finite grid of schedules, each one decided by a happens-before oracle (not by observing an actual collision); known racy access sites are listed individually, any new site fails the check',
 'level_note': 'the race detector keeps a bounded access history, so an individual report may be missed in one run; the set of racy SITES is what is compared, which is stable across runs; accesses that are separated by bolt database sessions of both goroutines are ordered in that execution through the process-global mutex inside syscall.Mmap/Munmap and are then not reported (the verdict is about the enumerated executions); goroutine pre-emption inside a handler is decided by the happens-before relation, not enumerated',
 'runs': [{'pkg': 'internal', 'test': 'TestVX_C20', 'race': True, 'shards_quick': 4, 'shards_thorough': 4, 'gomaxprocs': '4'},
          {'pkg': 'internal', 'test': 'TestVX_C20observers', 'shards_quick': 5, 'shards_thorough': 5, 'gomaxprocs': '2'}],
}
