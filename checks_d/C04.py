import sys, os
sys.path.insert(0, os.path.dirname(os.path.dirname(os.path.abspath(__file__))))
from checks_common import COMMON_ASSUME

ID = 'C04'

CHECK = {
 'title': 'Constant curve value: request settles at one target, same for every algorithm',
 'level': 'model_checking',
 'technique': 'complete transition relation of the real control cycle (closed reachable state graph under all 256 curve values from every fresh-start device value) per configuration, settle analysis on that relation; PID: exhaustive catalogue of histories in virtual time with a differential settle bound',
 'rule': 'direct family: per (limits, maxPwmChangePerCycle, map) the real UpdateFanSpeed is executed for every (curve value 0..255, previous request in [min,max]) and every '
         '(curve value, fresh controller with device pwm 0..255); steady value S(v) is what plain direct produces; every start must reach S(v) within ceil(255/m)+2 cycles, '
         'moving monotonically by at most m per cycle. PID (default gains): every history of up to 2 (quick) / 3 (thorough) phases from a catalogue (idle at 0/255 for 1 s, 1 min, 1 h, '
         'step, saw-tooth, 10-minute start-up gap) x curve values x tick periods (quick: 200 ms, and 2 s with one-phase histories; thorough: 50 ms, 200 ms, 2 s) x limits, in virtual time; must settle within 3*K_fresh+10 cycles (K_fresh = worst settle index of fresh controllers in the same run) '
         'within 1 step of S(v). distinct_nontrivial = (curve value, start state) pairs / (history, curve value) runs that satisfied the oracle. Controller factory run: fans built by the real initializeFanControllers (default, pid, deprecated controlLoop, rate-limited direct, plain direct, direct: {}) with real Run loops; plain direct must be at its steady value from the first regulation cycle, every algorithm must settle at the plain-direct value while another fans curve toggles. For fans that are not never-stop, closed loops at constant curve value with the fan reporting 0 RPM must settle at the same steady value and stay there.',
 'assumptions': COMMON_ASSUME + ['settled := request constant for ceil(0.5/(I*dt))+30 cycles (worst-case integral creep for a remaining error of 1)'],
 'level_text': 'direct algorithms: every state and every input of the (memoryless) controller step, i.e. the complete transition relation, decided exhaustively per configuration; PID: bounded exhaustive catalogue',
 'level_note': 'limits on a grid (step 51 quick / 17 thorough) plus edge ranges; maxPwmChangePerCycle from a list; PID only for the default gains; table validated against untouched closed-loop runs',
 'runs': [{'pkg': 'internal/controller', 'test': 'TestVX_C04', 'shards_quick': 16, 'shards_thorough': 16},
          {'pkg': 'internal/controller', 'test': 'TestVX_C04pid', 'shards_quick': 2, 'shards_thorough': 15},
          {'pkg': 'internal', 'test': 'TestVX_C04shared', 'shards_quick': 6, 'shards_thorough': 6}],
}
