import sys, os
sys.path.insert(0, os.path.dirname(os.path.dirname(os.path.abspath(__file__))))
from checks_common import COMMON_ASSUME

ID = 'C16'

CHECK = {
 'title': 'With parallel initialisation disabled, fans are analysed one at a time',
 'level': 'exploration',
 'technique': 'exhaustive enumeration of start schedules (delay vectors x settle models, 2-4 real controllers) of the real Run in one virtual-time bubble; interval-overlap oracle',
 'rule': '2 fans: all 7 start delays {0,1ms,3ms,0.7s,1.4s,20s, after the previous fan finished} x 3x3 settle models; 3 fans (quick: 4 delays^2 x 2^3 models; thorough: 7^2 x 3^3) and 4 fans '
         '(thorough: 4^3 x 2^4); every fan needs analysis: nothing stored (sweep + RPM-curve measurement, about 9 virtual minutes), nothing stored with a configured pwmMap (measurement only) or only the RPM curve stored (sweep only); mixed kinds on steady-settle schedules. Additionally a shutdown request (context cancelled after 4/8/12/20 s) while one fan is analysed and others are queued (short analyses, 6 kind assignments x 3 start delays): a queued fan still waits for its turn. With the option false the analysis intervals must be pairwise '
         'disjoint and every fan must finish; with the option true a sample of the same schedules is run to show overlap is observable (non-vacuity). '
         'distinct_nontrivial = distinct (schedule, interval vector) outcomes. An already analysed bystander fan (everything stored) started 0/1 ms/3 s/8 s after the others must not disturb the queue (6 kind assignments). hwmon fans whose PWM value cannot be read back (no sweep, measurement only) are a fifth fan kind in the mixed-kind schedules. '
         'Second run (internal/configuration TestVX_C16option): every way of stating the option - file value {absent,true,false} x 3 spellings of the key x first/last entry x environment variable {unset,false,true,0,1,FALSE,True} x '
         '{no earlier load, earlier load of true/false in the same process} - loaded through the real start-up path (InitConfig, readInConfig, LoadConfig); oracle: environment > file > default true reaches CurrentConfig.',
 'assumptions': COMMON_ASSUME + ['vsync.Mutex (Cond-based) replaces sync.Mutex in the controller package so that lock waits are durable blocks for the virtual clock',
                                   'goroutines are interleaved at blocking points only (sleeps, lock waits); the initialisation code sleeps between all its steps'],
 'level_text': 'complete enumeration of a finite schedule space on the real code in virtual time; mutual exclusion checked on every schedule',
 'level_note': 'bounded: listed delays and settle models, up to 4 fans; pre-emption inside a non-blocking code section is not enumerated',
 'runs': [{'pkg': 'internal/controller', 'test': 'TestVX_C16', 'shards_quick': 16, 'shards_thorough': 16},
          {'pkg': 'internal/configuration', 'test': 'TestVX_C16option', 'shards_quick': 1, 'shards_thorough': 1}],
}
