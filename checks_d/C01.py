import sys, os
sys.path.insert(0, os.path.dirname(os.path.dirname(os.path.abspath(__file__))))
from checks_common import COMMON_ASSUME

ID = 'C01'

CHECK = {'title': "Every PWM value written while regulating stays inside the fan's limits",
 'level': 'model_checking',
 'technique': 'explicit-state BFS over real controller states x environment symbols (snapshot successors, every new state re-reached by replaying its shortest path from scratch), closure for direct algorithms, '
              'depth-bounded for PID',
 'rule': 'per configuration (fan kind x neverStop x limits x PWM map x algorithm) breadth-first search over (controller state, symbol) where a '
         'symbol is (curve value in/outside 0..255, RPM reading, elapsed virtual time) and one transition runs the real measureRpm+UpdateFanSpeed; '
         'states are canonical keys of the real objects; distinct_nontrivial = distinct reachable states summed over configurations Further runs: the PWM-map learning sweep with a failing read-back (C01sweep), and two real controllers with different maps/limits in one process with interleaved cycles in three orders (C01pair). The cycle alphabet includes a failing curve evaluation, pwm_enable refused / stuck, and a refused first PWM write; configured limits are taken from the configuration, not from the fan object. Cycle alphabet additionally has cycles in which the PWM file cannot be read back (the fan then has no PWM sensor feature; writes work): the written value must still be the map output of the request.',
 'assumptions': ['Go 1.26 toolchain (testing/synctest virtual clock) is faithful to real timer semantics',
                 'harness environment model (in-memory integer files behind the util.VerifFileOp seam, fan device model) is faithful to sysfs',
                 'rpmRollingWindowSize=1 so the RPM average equals the injected reading'],
 'level_text': 'every reachable controller state for the direct algorithms (search closes) and every input sequence up to depth 3/4 for PID '
               'algorithms, for each listed configuration; the oracle is evaluated on every transition',
 'level_note': 'bounded by the listed configurations and alphabets; PID memory is real-valued so only depth-bounded; cmd fans are covered by C09/C19 '
               'harnesses, not here',
 'runs': [{'pkg': 'internal/controller', 'test': 'TestVX_C01', 'shards_quick': 16, 'shards_thorough': 16},
          {'pkg': 'internal/controller', 'test': 'TestVX_C01sweep', 'shards_quick': 8, 'shards_thorough': 16},
          {'pkg': 'internal/controller', 'test': 'TestVX_C01pair', 'shards_quick': 8, 'shards_thorough': 8}]}
