import sys, os
sys.path.insert(0, os.path.dirname(os.path.dirname(os.path.abspath(__file__))))
from checks_common import COMMON_ASSUME

ID = 'C11'

CHECK = {'title': 'A configuration that validates can be run',
 'level': 'exploration',
 'technique': 'exhaustive enumeration of generated YAML documents through the real loader + validator (the calls of `fan2go config validate`), '
              'real InitializeObjects + Evaluate on every accepted one, against an independent reference validity predicate; real CLI on a sample',
 'rule': 'one case = one generated YAML file taken through viper.Reset, InitConfig, DetectAndReadConfigFile, LoadConfig, Validate in-process. '
         'Space: ALL curve digraphs (adjacency matrices incl. self-loops; sinks are linear curves, other nodes function curves over their successors) '
         'on 1..3 nodes (quick) / 1..4 nodes (thorough, 65 536 matrices on 4 nodes, plus all 1 048 576 digraphs without self-loops on 5 nodes); chains, rings, diamonds and chain-plus-every-back-edge '
         '(ring with tail, every cycle length 1..n at every position) on 5..8 nodes; 8 function types (6 real, unknown, missing) x 9 member lists '
         '(0 members as `[]`, missing key, null; 1,2,3 members in block and flow form) x nested or not; 10 step forms (min/max, list of maps, map, '
         'singleton, `{}`, `[]`, null, none) x 3 sensor kinds; duplicate and missing ids for fans, sensors, curves; every subset of back-ends per '
         'sensor, fan and curve entry; 10 spellings of controlAlgorithm/controlLoop x 7 fan kinds x 3 sensor kinds x 4 curve kinds x optional fan '
         'settings; unresolvable sensor/curve references; the shipped fan2go.yaml verbatim. Oracle: (i) accepted => reference-valid (unique ids, one '
         'back-end per entry, resolvable references, acyclic curve graph) and internal.InitializeObjects() succeeds and every curve evaluates for 3 '
         'sensor value assignments without panic (accepted but reference-invalid configurations are run in a child process; its death is reported); '
         '(ii) built only from documented forms and reference-valid => accepted. Every 200th case and every disagreement is also run through the real '
         'binary `fan2go -c <file> config validate` and the exit status compared. distinct_nontrivial = number of cases (all abstract '
         'configurations are different by construction).',
 'assumptions': ['gosensors stand-in (pure Go) serves the chips named in README.md / fan2go.yaml (nct6798, it8620, coretemp, acpitz) from a spec; hwmon entries of the generated '
                 'configurations only name devices that exist there (binding of non-existing devices is C17)',
                 'the sandbox runs as root: cmd back-end scripts and the configuration file are root-owned 0755 / 0644',
                 'stale entries of the global sensor/curve/fan registries cannot be removed from outside their packages; every case uses ids with a '
                 'case-unique prefix instead; prometheus.DefaultRegisterer is replaced by a fresh registry per case'],
 'level_text': 'complete enumeration of the stated finite spaces of configurations (all digraphs up to 3/4 curve nodes, graph families to 8 nodes, every '
               'documented form and the listed defects) through the real YAML loader, validator, object initialisation and curve evaluation',
 'level_note': 'bounded: graph size (all digraphs only up to 4 nodes, loop-free ones to 5), one defect class per non-graph case, fixed numeric values inside the forms; '
               'hwmon instantiation uses a stand-in machine',
 'needs_cli': True,
 'runs': [{'pkg': 'cmd/config', 'test': 'TestVX_C11', 'shards_quick': 8, 'shards_thorough': 16}]}
