import sys, os
sys.path.insert(0, os.path.dirname(os.path.dirname(os.path.abspath(__file__))))
from checks_common import COMMON_ASSUME

ID = 'C13'

CHECK = {'title': 'Measured fan limits follow the RPM curve; configured limits always win',
 'level': 'exploration',
 'technique': 'exhaustive enumeration of curve-data maps x limit configurations x fan kinds through the real NewFan + AttachFanRpmCurveData '
              '(once and twice), compared with an independent reference scan',
 'rule': 'part 1: every map over PWM keys {0,1,50,128,254,255} x RPM values {0,1,500,500.7,1000} (6^6 = 46656 maps incl. empty, all-zero, plateaus, '
         'non-monotonic, single point) plus nil, x the 8 configured/unconfigured combinations of minPwm/startPwm/maxPwm x neverStop on/off x fan kind '
         '{hwmon,file,cmd} (thorough: 4 value sets for the configured limits incl. 0 and 255); part 2: every ordered pair of maps from a ~60-map core '
         '(thorough: + all 255 maps over 4 keys x 3 RPMs) attached one after the other, x the same configurations. '
         'distinct_nontrivial = hwmon cases whose last attached data has at least one PWM with RPM > 0 (and differs from the first data in part 2); '
         'cases are enumerated without repetition.',
 'assumptions': ['reference: start = lowest measured PWM with whole-number RPM > 0, max = lowest measured PWM at which the highest whole-number RPM is reached',
                 'the measured never-stop minimum is not defined by the statement: the measured start PWM or the effective (configured) start PWM is accepted',
                 'all-zero data (no PWM with RPM > 0) has no start PWM by the statement: any non-crashing result accepted, recorded in notes'],
 'level_text': 'complete enumeration of a finite input space (all curve-data maps over a 6-key x 5-RPM alphabet x all limit configurations x fan kinds; '
               'all ordered pairs over a core for repeated attachment) on the real functions against an independent reference',
 'level_note': 'bounded by the key/RPM alphabets (boundaries 0,1,254,255; fractional RPM 500.7 vs 500; equal-whole-RPM plateaus); the scan depends only on '
               'key order and whole-RPM order, which the alphabets cover; pairs only over the core',
 'runs': [{'pkg': 'internal/fans', 'test': 'TestVX_C13', 'shards_quick': 8, 'shards_thorough': 16}]}
