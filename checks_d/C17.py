import sys, os
sys.path.insert(0, os.path.dirname(os.path.dirname(os.path.abspath(__file__))))
from checks_common import COMMON_ASSUME

ID = 'C17'

CHECK = {'title': 'hwmon entries bind to the device the user named, or fail cleanly',
 'level': 'exploration',
 'technique': 'exhaustive enumeration of fake hwmon trees x chip enumeration orders x configuration entries through the real hwmon.GetChips + '
              'internal.InitializeObjects, compared with an independent reference binder (paths and values read through the bound objects)',
 'rule': 'bus families (second run): four chips of one driver that differ only in bus number/address, for scsi, hid, isa, pci and acpi+virtual buses; each chip in turn named by its full lm-sensors name (plain and ^anchored$) x sensor index 1..3 / fan by index or rpmChannel x all 24 enumeration orders, same oracle. Main run, per tree additionally: the one-entry-per-chip configuration plus ONE entry naming a non-existing device (unknown platform / missing index) placed first or last: start-up must fail naming it. tree = 1..3 chips (4 in thorough); a chip exposes fan channels = any subset of {1,2,3} (fanN_input, pwmN, pwmN_enable) and temperatures '
         '1..3 each absent / with input / feature without input file. Trees: 1 chip: all 216 shapes; 2 chips: all 64 x all 64 fan/temp-input subsets '
         '(thorough: also the 152 no-input shapes of the named chip x 64); 3 chips: named chip all 64 shapes x the two others from a catalogue of 4 '
         '(thorough 8) shapes; 4 chips (thorough): named chip all 64 x others from the catalogue of 4. For every tree ALL permutations of the chip '
         'enumeration order x 111 entries: platform spelled as full id / chip name / upper-case chip name x (fan by index or rpmChannel 1..4(missing) x '
         'pwmChannel default,1,2,3; sensor index 1..4(missing)); unknown platform (fan by index, by channel, sensor); plus one configuration with one '
         'fan and one sensor entry per chip; for 1- and 2-chip trees every sensor entry is also taken through a YAML file and the real getSensor of '
         '`fan2go sensor -i <id>` (its own copy of the matching loop; weaker oracle: no panic, existing device bound exactly, never another existing file). Oracle: reference binder (chip = the one whose platform contains the pattern case-insensitively; index = '
         '1-based position among the chip\'s fans / temperature inputs with an input file; RPM from the rpm channel, PWM and enable from the pwm channel, '
         'default = rpm channel): the registered HwMonFan/HwmonSensor carries exactly these paths and GetRpm/GetPwm/GetValue return the values stored in '
         'those files; identical outcome for every enumeration order; a non-existing device gives an error naming the entry id - no panic, no binding. '
         'distinct_nontrivial = (tree, order, entry) triples with more than one chip or an existing device. The one-entry-per-chip configuration additionally has, for chips with two fans, an earlier entry for the same fan with an explicit different pwmChannel; platform strings that do not compile as regular expressions must fail cleanly; wide chips with two-digit fan channels ({1,2,10,11,12}, {2,10,11}). Platform patterns additionally use upper-case escape classes (the first dash of the chip name written as \\D, anchored form with \\W). The bus-family run binds every entry twice in one process without reloading the configuration (both bindings must agree) and has a family of chips whose names are prefixes of each other (hid-3-1, hid-3-10, ...), named by anchored patterns.',
 'assumptions': ['gosensors stand-in reproduces libsensors feature order (fans by channel, temps by number) and serves chips in the order of the spec; '
                 'platform strings are those hwmon.computeIdentifier derives (nct6798-isa-0290, it8620-isa-0a30, coretemp-isa-0000, amdgpu-pci-0300)',
                 'the platform pattern of an entry matches exactly one chip (or none): the property does not define the result for ambiguous patterns',
                 'prometheus.DefaultRegisterer is replaced by a fresh registry per case; fan/sensor registries are keyed by id and overwritten per case'],
 'level_text': 'complete enumeration of the stated finite space of (hwmon tree, enumeration order, entry) on the real discovery and binding code',
 'level_note': 'bounded: channels/indices 1..3 (+4 as the missing one), at most 4 chips, shapes of the not-named chips from a catalogue for 3 and 4 chips; '
               'the `fan2go fan` CLI lookup (cmd/fan getFan, which ignores the error of the matching function) is not exercised',
 'runs': [{'pkg': 'cmd/sensor', 'test': 'TestVX_C17', 'shards_quick': 16, 'shards_thorough': 16},
          {'pkg': 'cmd/sensor', 'test': 'TestVX_C17bus', 'shards_quick': 4, 'shards_thorough': 4}]}
