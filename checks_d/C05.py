import sys, os
sys.path.insert(0, os.path.dirname(os.path.dirname(os.path.abspath(__file__))))
from checks_common import COMMON_ASSUME

ID = 'C05'

CHECK = {
 'title': 'External interference with a fan is undone within one control cycle',
 'level': 'model_checking',
 'technique': 'explicit-state BFS over the real control cycle with third-party interference symbols between cycles and before every file operation inside a cycle',
 'rule': 'per configuration (PWM map identity / README sparse / quantiser x direct / rate-limited / PID x limits, hwmon with and without pwm_enable, file fan) BFS over '
         '(controller+fan+device state, symbol); symbols = control cycle at curve 0/100/255, third-party mode write 0/2/3, third-party PWM write (6 values quick, all 256 thorough '
         'for direct algorithms; expected+-1), a cycle with one such write injected before its k-th file operation (k=0..8), and a cycle during which every read of the PWM file fails (the interference must still be undone by the write; nothing is demanded of the counter in such a cycle). Oracle after every complete interference-free cycle: '
         'pwm_enable==1, device PWM == map[nearest supported(request)], counter +1 iff the device value at cycle start differed from what fan2go had set, +0 if nothing touched the PWM. '
         'distinct_nontrivial = distinct reachable states summed over configurations. Also: a cycle with the fan reporting 0 RPM (never-stop fans; the counter must never decrease) and a PWM-only hwmon fan without tach input. First control cycle: fan2go has not set any value yet, so a counted third-party change in it (with nothing touching the PWM value) is a violation.',
 'assumptions': COMMON_ASSUME + ['the fan device reads back what was written (identity / idempotent maps)'],
 'level_text': 'every reachable state under the interference alphabet for direct algorithms (closure reported per configuration), depth-bounded sequences for PID',
 'level_note': 'interference is atomic with respect to single file operations (injected before an operation, never inside one); one interference per cycle mid-cycle, any number between cycles',
 'runs': [{'pkg': 'internal/controller', 'test': 'TestVX_C05', 'shards_quick': 16, 'shards_thorough': 16}],
}
