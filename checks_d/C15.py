import sys, os
sys.path.insert(0, os.path.dirname(os.path.dirname(os.path.abspath(__file__))))
from checks_common import COMMON_ASSUME

ID = 'C15'

CHECK = {
 'title': 'Stored characterisation is reused; fans are analysed once',
 'level': 'model_checking',
 'technique': 'explicit-state BFS over sequences of real daemon starts and real `fan reset` / `fan init` commands, state = logical bbolt content, replay-based successors; reference model of stored entries',
 'rule': 'per configuration (fan kind hwmon/file/cmd x pwmMap configured or not x minPwm+maxPwm configured or not; file/cmd fans also without any RPM source, whose complete stored state is the PWM map) BFS over operation sequences {start, fan reset, fan init, user adds/removes the pwmMap in the configuration file, fan reset of a second (never started) fan} to depth 3 (quick) / 5 (thorough); '
         'a start is the real path YAML -> loader -> validator -> InitializeObjects -> NewFanController -> Run in a virtual-time bubble up to the third regulation cycle. Observed: every PWM write between '
         'start and the first curve evaluation (descending run > 8 = sweep, ascending run > 8 = RPM-curve measurement). Oracle from a 3-line model of stored entries: stored (or configured) => no PWM write '
         'before regulation; configured pwmMap => never swept and the regulated device value is the output of the configured map; minPwm+maxPwm configured => no measurement; reset clears, start/init store. distinct_nontrivial = distinct database states reached. The configuration also holds a never-started fan whose id differs from the fan under test only in letter case (listed before it). hwmon and file fans additionally: starts during which the k-th read (k=1..4) of the PWM file after the controller started fails once; a start that fan2go gives up on because of the failing read is not judged.',
 'assumptions': COMMON_ASSUME + ['gosensors stand-in serves the fake hwmon chip', 'each operation runs in one process here although it is a separate process in reality; all cross-operation state is in the database file'],
 'level_text': 'all operation sequences up to the depth bound with state deduplication on the real database content; every transition executes the real command / start-up code',
 'level_note': 'bounded depth; one fan per configuration; cmd fans limited to depth 2 in quick (each sweep spawns 512 processes)',
 'runs': [{'pkg': 'cmd/fan', 'test': 'TestVX_C15', 'shards_quick': 12, 'shards_thorough': 14, 'gomaxprocs': '2'}],
}
