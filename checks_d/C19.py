import sys, os
sys.path.insert(0, os.path.dirname(os.path.dirname(os.path.abspath(__file__))))
from checks_common import COMMON_ASSUME

ID = 'C19'

CHECK = {'title': 'External commands cannot hang or crash fan2go',
 'level': 'fault_enumeration',
 'technique': 'finite catalogue of external-command failure modes x timeouts x call sites, real processes on the real wall clock, '
              'guarded call with a real timer',
 'rule': 'every failure mode of the catalogue (exit!=0 with/without output, killed by SIGKILL/SIGTERM/SIGSEGV, no x bit, bad executable format, '
         'script whose #! interpreter does not exist, path is a directory, sleeping beyond the deadline as the process itself / as a child of the '
         'shell, background grandchild keeping stdout / only stderr open for 60 s with the parent exiting 0 / exiting 1 / sleeping, detached '
         'grandchild, output empty / non-numeric / 1 MiB on stdout / 1 MiB on stderr, plus the benign command) through the real '
         'util.SafeCmdExecution with timeouts 0.2, 0.5 and 2 s, and through the real CmdFan.GetPwm, CmdFan.GetRpm, CmdFan.SetPwm and '
         'CmdSensor.GetValue (2 s fixed by fan2go); additionally, for 7 getRpm failure modes, three goroutines inside CmdFan.GetRpm while a fourth '
         'calls GetRpm / GetPwm / SetPwm / GetRpmAvg / SetRpmAvg on the same CmdFan, every call judged on its own clock. Each (failure mode, timeout or call site) pair is one evaluation; '
         'distinct_nontrivial counts these pairs (enumerated once each). Catalogue also has commands that exit 0 while a child holds stdout until shortly after the deadline (within the pipe grace period). The util run executes in a desktop-session environment (DISPLAY set, who/id/sudo/notify-send stand-ins, sudo hanging). Fifth run: eight concurrent callers of SafeCmdExecution in a race-instrumented build (per-call verdicts, happens-before reports inside internal/util, a fatal runtime error kills the worker). Catalogue additionally: 4 MiB of multi-line non-numeric output, executable text files without a #! line (alone and with a grandchild holding stdout).',
 'assumptions': ['real wall clock of the sandbox: a call counts as late only beyond timeout + 3 s; the defects this separates block for 60 s or crash',
                 '/bin/sh, sleep, head, tr of the sandbox behave as on a normal Linux system'],
 'level_text': 'complete enumeration of the stated finite catalogue of command failure modes, for each timeout and each call site, executed as '
               'real processes; oracle = call returns without panic within timeout + 3 s, and success carries the command\'s output',
 'level_note': 'fault catalogue, not a state space; a file vanishing between permission check and start is represented by the missing-interpreter '
               'script (same fork/exec ENOENT start error, no hook needed); real time, 3 s margin; hang guard 30 s (12 s for the fan/sensor runs in '
               'the quick tier)',
 'runs': [{'pkg': 'internal/util', 'test': 'TestVX_C19', 'shards_quick': 1, 'shards_thorough': 1, 'gomaxprocs': '8',
           'timeout_quick': 240, 'timeout_thorough': 600},
          {'pkg': 'internal/fans', 'test': 'TestVX_C19fans', 'shards_quick': 1, 'shards_thorough': 1, 'gomaxprocs': '8',
           'timeout_quick': 240, 'timeout_thorough': 600},
          {'pkg': 'internal/sensors', 'test': 'TestVX_C19sensors', 'shards_quick': 1, 'shards_thorough': 1, 'gomaxprocs': '8',
           'timeout_quick': 240, 'timeout_thorough': 600},
          {'pkg': 'internal/util', 'test': 'TestVX_C19race', 'race': True, 'shards_quick': 1, 'shards_thorough': 1, 'gomaxprocs': '8',
           'env': {'GORACE': 'log_path=race halt_on_error=0 exitcode=0 history_size=3'}, 'timeout_quick': 240, 'timeout_thorough': 900}]}
