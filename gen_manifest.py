#!/usr/bin/env python3
"""Regenerates MANIFEST.json from checks.py (single source of truth)."""
import json, os, subprocess, sys
sys.path.insert(0, os.path.dirname(os.path.abspath(__file__)))
from checks import CHECKS, NOT_APPLICABLE, HOOK_COMMITS

props = [json.loads(l)["id"] for l in open(os.path.join(os.path.dirname(os.path.abspath(__file__)), "properties.jsonl"))]
checks = []
for cid in sorted(CHECKS):
    c = CHECKS[cid]
    checks.append({
        "property_id": cid,
        "quick_cmd": "./check %s quick" % cid,
        "thorough_cmd": "./check %s thorough" % cid,
        "evidence_file": "/verif/evidence/%s.json" % cid,
        "replay_cmd_template": "./check %s --replay {path}" % cid,
        "engine": "mc",
        "level_claimed": {"category": c["level"], "text": c["level_text"], "design_ref": "DESIGN.md §3 " + cid},
        "level_note": c["level_note"],
        "technique": c["technique"],
    })
na = []
for p in props:
    if p not in CHECKS:
        na.append({"property_id": p, "reason": NOT_APPLICABLE.get(p, "check not built yet in this session (planned in DESIGN.md §3); not claimed")})
m = {
    "version": 1,
    "setup_cmd": "./check setup",
    "hooks": {
        "guard": "verif",
        "enable": "go1.26 test -c -tags verif -modfile=/verif/.build/gen/go.mod -overlay=/verif/.build/gen/overlay.json (see vlib.py)",
        "baseline_off_cmd": "cd /repo && GOFLAGS=-mod=mod go test -json -vet=off -count=1 -timeout 25m ./...",
        "source_commits": HOOK_COMMITS,
        "add_only": True,
    },
    "engines": [{
        "name": "mc", "path": "/verif/harness/mc/mc.go",
        "serves_properties": sorted(CHECKS),
        "kind_free_text": "hand-written bounded explorer over the real fan2go code: choice-tape DFS with deviation bound, explicit-state BFS with replay-based successors, exhaustive finite-space enumeration; virtual time via testing/synctest; environment via the util.VerifFileOp seam",
    }],
    "checks": checks,
    "not_applicable": na,
    "notes": "All checks rebuild harness binaries from /repo's working tree with -tags verif. See DESIGN.md.",
}
json.dump(m, open(os.path.join(os.path.dirname(os.path.abspath(__file__)), "MANIFEST.json"), "w"), indent=1)
print("MANIFEST.json: %d checks, %d not_applicable" % (len(checks), len(na)))
