#!/usr/bin/env python3
"""Build / run / aggregate layer of the fan2go model-checking harness (stdlib only).

Nothing under /repo is edited: harness sources, the explorer, shims and import rewrites are
injected with `go test -c -overlay`, the cgo libsensors binding is replaced with a pure-Go
stand-in via `-modfile`, and the `verif` build tag enables the file-I/O seam committed in /repo.
"""
import hashlib
import json
import os
import re
import shutil
import subprocess
import sys
import time

VERIF = os.path.dirname(os.path.abspath(__file__))
REPO = os.environ.get("VERIF_REPO", "/repo")
BUILD = os.path.join(VERIF, ".build")
if REPO != "/repo":  # scratch worktree (seeded-change experiments): separate generated files and binaries
    BUILD = os.path.join(VERIF, ".build", "alt-" + hashlib.sha1(REPO.encode()).hexdigest()[:8])
GEN = os.path.join(BUILD, "gen")
BIN = os.path.join(BUILD, "bin")
WORK = os.path.join(VERIF, ".work") if REPO == "/repo" else os.path.join(VERIF, ".work", "alt-" + hashlib.sha1(REPO.encode()).hexdigest()[:8])
MODULE = "github.com/markusressel/fan2go"
SHIM = "internal/verifshim"
GO = os.environ.get("VERIF_GO", "go1.26")
NCPU = os.cpu_count() or 4


def goenv():
    e = dict(os.environ)
    e.update({
        "GOFLAGS": "-mod=mod", "GOPROXY": "off", "GOSUMDB": "off", "GOTOOLCHAIN": "local",
        "CGO_ENABLED": e.get("VERIF_CGO", "0"),
    })
    return e


def log(*a):
    print(*a, file=sys.stderr, flush=True)


# --------------------------------------------------------------------------- generation

def _rewrite_import(src, old, new_path, alias):
    """Rewrite exactly one import spec `"old"` into `alias "new_path"`; no other byte changes."""
    pat = re.compile(r'^(\s*)(?:[A-Za-z_][A-Za-z0-9_]*\s+)?"' + re.escape(old) + r'"\s*$', re.M)
    m = pat.search(src)
    if not m:
        return None
    return src[:m.start()] + m.group(1) + alias + ' "' + new_path + '"' + src[m.end():]


def gen_build_files():
    os.makedirs(GEN, exist_ok=True)
    os.makedirs(BIN, exist_ok=True)
    # go.mod / go.sum with the gosensors stand-in
    gomod = open(os.path.join(REPO, "go.mod")).read()
    gomod += "\nreplace github.com/md14454/gosensors => %s\n" % os.path.join(VERIF, "stubs", "gosensors")
    _write_if_changed(os.path.join(GEN, "go.mod"), gomod)
    sums = open(os.path.join(REPO, "go.sum")).read()
    p = os.path.join(GEN, "go.sum")
    if not os.path.exists(p):
        _write_if_changed(p, sums)
    overlay = {}
    # shared virtual packages
    for name in sorted(os.listdir(os.path.join(VERIF, "harness"))):
        d = os.path.join(VERIF, "harness", name)
        if name == "pkgs" or not os.path.isdir(d):
            continue
        for f in sorted(os.listdir(d)):
            if f.endswith(".go"):
                overlay[os.path.join(REPO, SHIM, name, f)] = os.path.join(d, f)
    # in-package harness files: harness/pkgs/<repo-relative package dir>/*.go
    root = os.path.join(VERIF, "harness", "pkgs")
    for dp, dn, fn in os.walk(root):
        for f in sorted(fn):
            if f.endswith(".go"):
                rel = os.path.relpath(dp, root)
                overlay[os.path.join(REPO, rel, "zz_verif_" + f)] = os.path.join(dp, f)
    # generated import rewrites (from the CURRENT repo files)
    rw = os.path.join(GEN, "rewrite")
    os.makedirs(rw, exist_ok=True)
    cdir = os.path.join(REPO, "internal", "controller")
    for f in sorted(os.listdir(cdir)):
        if f.endswith(".go") and not f.endswith("_test.go"):
            src = open(os.path.join(cdir, f)).read()
            new = _rewrite_import(src, "sync", MODULE + "/" + SHIM + "/vsync", "sync")
            if new is not None:
                out = os.path.join(rw, "controller_" + f)
                _write_if_changed(out, new)
                overlay[os.path.join(cdir, f)] = out
    # internal/sensors: "sync" -> vsched (Mutex.Lock is a scheduling point; no-op unless a harness starts a scheduler)
    sdir = os.path.join(REPO, "internal", "sensors")
    for f in sorted(os.listdir(sdir)):
        if f.endswith(".go") and not f.endswith("_test.go"):
            src = open(os.path.join(sdir, f)).read()
            new = _rewrite_import(src, "sync", MODULE + "/" + SHIM + "/vsched", "sync")
            if new is not None:
                out = os.path.join(rw, "sensors_" + f)
                _write_if_changed(out, new)
                overlay[os.path.join(sdir, f)] = out
    bfile = os.path.join(REPO, "internal", "backend.go")
    if os.path.exists(bfile):
        src = open(bfile).read()
        new = _rewrite_import(src, "os/signal", MODULE + "/" + SHIM + "/vsignal", "signal")
        if new is not None:
            out = os.path.join(rw, "internal_backend.go")
            _write_if_changed(out, new)
            overlay[bfile] = out
    _write_if_changed(os.path.join(GEN, "overlay.json"), json.dumps({"Replace": overlay}, indent=1, sort_keys=True))
    # race build (C20): additionally make the global logging mutex a no-op (see harness/nosync)
    race_overlay = dict(overlay)
    lfile = os.path.join(REPO, "internal", "ui", "logging.go")
    if os.path.exists(lfile):
        new = _rewrite_import(open(lfile).read(), "sync", MODULE + "/" + SHIM + "/nosync", "sync")
        if new is not None:
            out = os.path.join(rw, "ui_logging.go")
            _write_if_changed(out, new)
            race_overlay[lfile] = out
    _write_if_changed(os.path.join(GEN, "overlay_race.json"), json.dumps({"Replace": race_overlay}, indent=1, sort_keys=True))
    return overlay


def _write_if_changed(path, content):
    try:
        if open(path).read() == content:
            return
    except OSError:
        pass
    tmp = path + ".tmp%d" % os.getpid()
    with open(tmp, "w") as f:
        f.write(content)
    os.replace(tmp, path)


def build_test(pkg, out_name, race=False, timeout=900):
    """go test -c of /repo/<pkg> with hooks enabled -> BIN/<out_name>.test"""
    gen_build_files()
    out = os.path.join(BIN, out_name + ".test")
    cmd = [GO, "test", "-c", "-tags", "verif", "-vet=off",
           "-modfile=" + os.path.join(GEN, "go.mod"),
           "-overlay=" + os.path.join(GEN, "overlay.json"),
           "-o", out]
    env = goenv()
    if race:
        cmd.insert(2, "-race")
        env["CGO_ENABLED"] = "1"
        cmd = [c.replace("overlay.json", "overlay_race.json") if c.startswith("-overlay=") else c for c in cmd]
    cmd.append("./" + pkg + "/")
    t0 = time.time()
    r = subprocess.run(cmd, cwd=REPO, env=env, stdout=subprocess.PIPE, stderr=subprocess.STDOUT, text=True, timeout=timeout)
    if r.returncode != 0:
        log("BUILD FAILED (%s):\n%s" % (" ".join(cmd), r.stdout[-6000:]))
        return None
    log("built %s in %.1fs" % (out_name, time.time() - t0))
    return out


def build_main(out_name="fan2go", timeout=900):
    """go build of the real fan2go CLI (hooks on, gosensors stand-in)."""
    gen_build_files()
    out = os.path.join(BIN, out_name)
    cmd = [GO, "build", "-tags", "verif", "-modfile=" + os.path.join(GEN, "go.mod"),
           "-overlay=" + os.path.join(GEN, "overlay.json"), "-o", out, "."]
    r = subprocess.run(cmd, cwd=REPO, env=goenv(), stdout=subprocess.PIPE, stderr=subprocess.STDOUT, text=True, timeout=timeout)
    if r.returncode != 0:
        log("BUILD FAILED (%s):\n%s" % (" ".join(cmd), r.stdout[-6000:]))
        return None
    return out


# --------------------------------------------------------------------------- running

def run_shards(binary, test, prop, tier, seed, nshards, workdir, extra_env=None, timeout=3600, gomaxprocs="1"):
    """Run `binary -test.run ^test$` in nshards parallel processes; return list of (report|None, rc, output)."""
    if os.path.isdir(workdir):
        shutil.rmtree(workdir, ignore_errors=True)
    os.makedirs(workdir)
    procs = []
    for i in range(nshards):
        sd = os.path.join(workdir, "shard%d" % i)
        os.makedirs(os.path.join(sd, "cwd"))
        env = goenv()
        env.update({
            "VERIF_OUT": os.path.join(sd, "report.json"),
            "VERIF_SHARD": "%d/%d" % (i, nshards),
            "VERIF_TIER": tier, "VERIF_SEED": str(seed), "VERIF_PROP": prop,
            "VERIF_WORK": sd, "VERIF_DIR": VERIF, "VERIF_BIN": BIN,
        })
        if gomaxprocs:
            env["GOMAXPROCS"] = gomaxprocs
        env.pop("VERIF_REPLAY", None)
        if extra_env:
            env.update(extra_env)
        lf = open(os.path.join(sd, "log.txt"), "w")
        p = subprocess.Popen([binary, "-test.run", "^" + test + "$", "-test.timeout", "%ds" % (timeout + 60), "-test.v"],
                             cwd=os.path.join(sd, "cwd"), env=env, stdout=lf, stderr=subprocess.STDOUT)
        procs.append((p, sd, lf))
    results = []
    deadline = time.time() + timeout
    for p, sd, lf in procs:
        try:
            rc = p.wait(timeout=max(1, deadline - time.time()))
        except subprocess.TimeoutExpired:
            p.kill()
            rc = -9
        lf.close()
        out = open(os.path.join(sd, "log.txt"), errors="replace").read()
        rep = None
        try:
            rep = json.load(open(os.path.join(sd, "report.json")))
        except (OSError, ValueError):
            pass
        results.append((rep, rc, out))
    return results


def merge_reports(results):
    m = {"evaluations": 0, "states": 0, "transitions": 0, "configs": 0, "distinct": 0, "exhaustive": True,
         "caps": [], "samples": [], "violations": [], "counters": {}, "notes": [], "harness_errors": [],
         "bound_done": {}, "crashes": []}
    for i, (rep, rc, out) in enumerate(results):
        if rep is None:
            m["crashes"].append({"shard": i, "rc": rc, "tail": out[-4000:]})
            m["exhaustive"] = False
            continue
        for k in ("evaluations", "states", "transitions", "configs", "distinct"):
            m[k] += rep.get(k) or 0
        m["exhaustive"] = m["exhaustive"] and bool(rep.get("exhaustive"))
        for c in rep.get("caps") or []:
            if c not in m["caps"]:
                m["caps"].append(c)
        for s in (rep.get("samples") or []):
            if len(m["samples"]) < 6:
                m["samples"].append(s)
        m["violations"] += rep.get("violations") or []
        for k, v in (rep.get("counters") or {}).items():
            m["counters"][k] = m["counters"].get(k, 0) + v
        for n in rep.get("notes") or []:
            if n not in m["notes"]:
                m["notes"].append(n)
        m["harness_errors"] += rep.get("harness_errors") or []
        for k, v in (rep.get("bound_done") or {}).items():
            m["bound_done"][k] = min(m["bound_done"].get(k, v), v)
        if rc != 0:
            m["crashes"].append({"shard": i, "rc": rc, "tail": out[-4000:]})
    return m


# --------------------------------------------------------------------------- findings / evidence

def load_known():
    p = os.path.join(VERIF, "known_findings.json")
    try:
        return json.load(open(p))["findings"]
    except (OSError, ValueError, KeyError):
        return []


def classify(prop, violations):
    """-> (new, known) ; a violation is known iff a 'known' entry of the same property lists its signature."""
    known_sigs = {}
    for f in load_known():
        if f.get("property") == prop and f.get("status") == "known":
            known_sigs[f["signature"]] = f
    new, known = [], {}
    for v in violations:
        s = v.get("signature", "")
        if s in known_sigs:
            known.setdefault(s, []).append(v)
        else:
            new.append(v)
    return new, known, known_sigs


def write_replay(prop, v):
    d = os.path.join(VERIF, "replays")
    os.makedirs(d, exist_ok=True)
    h = hashlib.sha1(json.dumps(v, sort_keys=True).encode()).hexdigest()[:12]
    p = os.path.join(d, "%s-%s.json" % (prop, h))
    with open(p, "w") as f:
        json.dump(v, f, indent=1)
    return p


def write_evidence(prop, tier, seed, level, merged, rule, assumptions, wall, nviol, extra=None):
    cov = {
        "evaluations": int(merged["evaluations"]),
        "distinct_nontrivial": int(merged["distinct"]),
        "rule": rule,
        "samples": merged["samples"] or ["<none>"],
        "exhaustive": bool(merged["exhaustive"]) and not merged["crashes"],
        "caps_hit": merged["caps"],
        "bound_done": merged["bound_done"],
        "configs": int(merged["configs"]),
        "counters": merged["counters"],
        "notes": merged["notes"],
    }
    if merged["states"] and merged["transitions"]:
        cov["states"] = int(merged["states"])
        cov["transitions"] = int(merged["transitions"])
        # every explored transition executes the real code; where the search branches from snapshots, each newly found
        # state is additionally re-reached by a from-scratch replay of its shortest path (counter replay_validations)
        cov["traces_validated_against_impl"] = int(merged["counters"].get("replay_validations") or merged["evaluations"])
    elif merged["transitions"]:
        cov["transitions"] = int(merged["transitions"])
    if extra:
        cov.update(extra)
    ev = {"property_id": prop, "tier": tier, "seed": int(seed), "level": level, "coverage": cov,
          "assumptions": assumptions, "wall_s": round(wall, 2), "violations": int(nviol)}
    # evidence describes runs against /repo; a run against a scratch tree (VERIF_REPO) keeps its file with its work files
    evdir = os.path.join(VERIF, "evidence") if REPO == "/repo" else os.path.join(WORK, "evidence")
    os.makedirs(evdir, exist_ok=True)
    with open(os.path.join(evdir, prop + ".json"), "w") as f:
        json.dump(ev, f, indent=1)
    return ev
