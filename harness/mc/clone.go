package mc

import (
	"reflect"
	"time"
	"unsafe"
)

// Clone deep-copies an arbitrary object graph, including unexported fields, preserving
// aliasing (two pointers to the same object stay aliased in the copy). Values listed in share
// (pointers, maps, slices) are treated as immutable and are NOT copied. Functions and channels
// are shared. time.Time is copied by value. Used to snapshot REAL fan2go objects so that
// explicit-state search can branch from a state without replaying its whole history; every
// state found this way is additionally validated by a from-scratch replay (see BFS2).
func Clone[T any](v T, share ...any) T {
	c := &cloner{seen: map[visit]reflect.Value{}, shared: map[uintptr]bool{}}
	for _, s := range share {
		rv := reflect.ValueOf(s)
		switch rv.Kind() {
		case reflect.Ptr, reflect.Map, reflect.Slice, reflect.UnsafePointer:
			c.shared[rv.Pointer()] = true
		}
	}
	src := reflect.ValueOf(&v).Elem()
	dst := reflect.New(src.Type()).Elem()
	c.copy(dst, src)
	return dst.Interface().(T)
}

type visit struct {
	p uintptr
	t reflect.Type
}

type cloner struct {
	seen   map[visit]reflect.Value
	shared map[uintptr]bool
}

var timeType = reflect.TypeOf(time.Time{})

func writable(v reflect.Value) reflect.Value {
	if v.CanSet() {
		return v
	}
	return reflect.NewAt(v.Type(), unsafe.Pointer(v.UnsafeAddr())).Elem()
}

func readable(v reflect.Value) reflect.Value {
	if v.CanInterface() {
		return v
	}
	if v.CanAddr() {
		return reflect.NewAt(v.Type(), unsafe.Pointer(v.UnsafeAddr())).Elem()
	}
	// not addressable unexported value: copy into addressable temp
	tmp := reflect.New(v.Type()).Elem()
	// reflect allows Set from unexported only via unsafe; use typed memmove through NewAt is impossible here,
	// so fall back to kind-wise copy
	switch v.Kind() {
	case reflect.Bool:
		tmp.SetBool(v.Bool())
	case reflect.Int, reflect.Int8, reflect.Int16, reflect.Int32, reflect.Int64:
		tmp.SetInt(v.Int())
	case reflect.Uint, reflect.Uint8, reflect.Uint16, reflect.Uint32, reflect.Uint64, reflect.Uintptr:
		tmp.SetUint(v.Uint())
	case reflect.Float32, reflect.Float64:
		tmp.SetFloat(v.Float())
	case reflect.String:
		tmp.SetString(v.String())
	default:
		panic("mc.Clone: unaddressable unexported value of kind " + v.Kind().String())
	}
	return tmp
}

// dst must be settable (or addressable), src any value.
func (c *cloner) copy(dst, src reflect.Value) {
	dst = writable(dst)
	src = readable(src)
	switch src.Kind() {
	case reflect.Ptr:
		if src.IsNil() {
			return
		}
		if c.shared[src.Pointer()] {
			dst.Set(src)
			return
		}
		k := visit{src.Pointer(), src.Type()}
		if p, ok := c.seen[k]; ok {
			dst.Set(p)
			return
		}
		np := reflect.New(src.Type().Elem())
		c.seen[k] = np
		c.copy(np.Elem(), src.Elem())
		dst.Set(np)
	case reflect.Interface:
		if src.IsNil() {
			return
		}
		e := src.Elem()
		ne := reflect.New(e.Type()).Elem()
		c.copy(ne, e)
		dst.Set(ne)
	case reflect.Struct:
		if src.Type() == timeType {
			dst.Set(src)
			return
		}
		for i := 0; i < src.NumField(); i++ {
			c.copy(dst.Field(i), src.Field(i))
		}
	case reflect.Slice:
		if src.IsNil() {
			return
		}
		if c.shared[src.Pointer()] {
			dst.Set(src)
			return
		}
		ns := reflect.MakeSlice(src.Type(), src.Len(), src.Cap())
		for i := 0; i < src.Len(); i++ {
			c.copy(ns.Index(i), src.Index(i))
		}
		dst.Set(ns)
	case reflect.Array:
		for i := 0; i < src.Len(); i++ {
			c.copy(dst.Index(i), src.Index(i))
		}
	case reflect.Map:
		if src.IsNil() {
			return
		}
		if c.shared[src.Pointer()] {
			dst.Set(src)
			return
		}
		k := visit{src.Pointer(), src.Type()}
		if p, ok := c.seen[k]; ok {
			dst.Set(p)
			return
		}
		nm := reflect.MakeMapWithSize(src.Type(), src.Len())
		c.seen[k] = nm
		it := src.MapRange()
		for it.Next() {
			nk := reflect.New(src.Type().Key()).Elem()
			c.copy(nk, it.Key())
			nv := reflect.New(src.Type().Elem()).Elem()
			c.copy(nv, it.Value())
			nm.SetMapIndex(nk, nv)
		}
		dst.Set(nm)
	default: // basic kinds, func, chan, unsafe pointer: value copy
		dst.Set(src)
	}
}
