// Package mc is the hand-written bounded explorer used by all fan2go verification harnesses.
//
// Two search modes, both exhaustive within their stated bounds:
//
//   - Explore: stateless choice-tape DFS with a deviation bound (iterative context bounding
//     generalised to "non-default environment answers"). The harness body asks x.Choose(n,label)
//     whenever the environment has n alternatives; choice 0 is the default answer.
//   - BFS: explicit-state breadth-first search with replay-based successors: a state is
//     identified by a canonical key computed by the harness from the REAL objects after
//     replaying a symbol path on fresh objects; successors = path + one symbol.
//
// Every execution is an execution of the real fan2go code, so every explored trace is an
// implementation trace (reported as traces_validated_against_impl).
package mc

import (
	"encoding/json"
	"fmt"
	"hash/fnv"
	"os"
	"sort"
	"strconv"
	"strings"
	"sync"
	"syscall"
	"time"
)

// RealNow is the wall clock even inside a testing/synctest bubble (where time.Now is virtual).
func RealNow() time.Time {
	var tv syscall.Timeval
	_ = syscall.Gettimeofday(&tv)
	return time.Unix(tv.Sec, tv.Usec*1000)
}

// ---------------------------------------------------------------- choice tape

type Point struct {
	N      int    `json:"n"`
	Label  string `json:"l"`
	Chosen int    `json:"c"`
}

// X is one execution's view of the choice tape.
type X struct {
	prefix []int
	Points []Point
	// Obs accumulates the canonical observation log of this execution (used for the
	// determinism check and for counting distinct outcomes).
	obs strings.Builder
}

func NewX(prefix []int) *X { return &X{prefix: prefix} }

// Choose returns the alternative to take at this choice point (0 = default).
func (x *X) Choose(n int, label string) int {
	if n <= 0 {
		panic("mc: Choose with n<=0 at " + label)
	}
	i := len(x.Points)
	c := 0
	if i < len(x.prefix) {
		c = x.prefix[i]
		if c >= n {
			panic(fmt.Sprintf("mc: replay divergence at point %d (%s): tape says %d but only %d alternatives", i, label, c, n))
		}
	}
	x.Points = append(x.Points, Point{n, label, c})
	return c
}

func (x *X) Logf(format string, a ...any) {
	fmt.Fprintf(&x.obs, format, a...)
	x.obs.WriteByte('\n')
}
func (x *X) Obs() string { return x.obs.String() }
func (x *X) Tape() []int {
	t := make([]int, len(x.Points))
	for i, p := range x.Points {
		t[i] = p.Chosen
	}
	return t
}

// ---------------------------------------------------------------- violations & report

type Violation struct {
	Property  string `json:"property"`
	Signature string `json:"signature"` // stable id of the failing site/class (matched against known_findings.json)
	Detail    string `json:"detail"`
	Replay    any    `json:"replay"` // harness-specific replayable case (config + tape)
}

type Report struct {
	mu          sync.Mutex
	Property    string           `json:"property"`
	Harness     string           `json:"harness"`
	Evaluations int64            `json:"evaluations"`
	States      int64            `json:"states"`
	Transitions int64            `json:"transitions"`
	Configs     int64            `json:"configs"`
	Distinct    int64            `json:"distinct"`
	Exhaustive  bool             `json:"exhaustive"`
	BoundDone   map[string]int   `json:"bound_done"`
	Caps        []string         `json:"caps"`
	Samples     []any            `json:"samples"`
	Violations  []Violation      `json:"violations"`
	Counters    map[string]int64 `json:"counters"`
	Notes       []string         `json:"notes"`
	HarnessErr  []string         `json:"harness_errors"`
	WallS       float64          `json:"wall_s"`
	distinct    map[uint64]struct{}
	distinctAdd int64
	vioSeen     map[string]int
	start       time.Time
}

func NewReport(property, harness string) *Report {
	return &Report{Property: property, Harness: harness, Exhaustive: true, BoundDone: map[string]int{},
		Counters: map[string]int64{}, distinct: map[uint64]struct{}{}, vioSeen: map[string]int{}, start: RealNow()}
}

func Hash(s string) uint64 { h := fnv.New64a(); h.Write([]byte(s)); return h.Sum64() }

// Outcome records one execution's canonical outcome for the distinct-outcome count.
func (r *Report) Outcome(s string) {
	r.mu.Lock()
	r.distinct[Hash(s)] = struct{}{}
	r.mu.Unlock()
}

// AddDistinct adds n cases that are distinct by construction (enumerated without repetition).
func (r *Report) AddDistinct(n int64)        { r.mu.Lock(); r.distinctAdd += n; r.mu.Unlock() }
func (r *Report) Count(name string, d int64) { r.mu.Lock(); r.Counters[name] += d; r.mu.Unlock() }
func (r *Report) Cap(s string) {
	r.mu.Lock()
	r.Exhaustive = false
	for _, c := range r.Caps {
		if c == s {
			r.mu.Unlock()
			return
		}
	}
	r.Caps = append(r.Caps, s)
	r.mu.Unlock()
}
func (r *Report) Note(s string) { r.mu.Lock(); r.Notes = append(r.Notes, s); r.mu.Unlock() }
func (r *Report) Sample(s any) {
	r.mu.Lock()
	if len(r.Samples) < 6 {
		r.Samples = append(r.Samples, s)
	}
	r.mu.Unlock()
}
func (r *Report) HarnessError(s string) {
	r.mu.Lock()
	r.HarnessErr = append(r.HarnessErr, s)
	r.mu.Unlock()
}

// Violate records a violation; at most 3 instances per signature are kept (the count is kept in Counters).
func (r *Report) Violate(v Violation) {
	r.mu.Lock()
	defer r.mu.Unlock()
	if v.Property == "" {
		v.Property = r.Property
	}
	r.vioSeen[v.Signature]++
	r.Counters["violations:"+v.Signature]++
	if r.vioSeen[v.Signature] <= 3 {
		r.Violations = append(r.Violations, v)
	}
}
func (r *Report) NViolations() int { r.mu.Lock(); defer r.mu.Unlock(); return len(r.Violations) }

// Write stores the report as JSON in $VERIF_OUT (or prints it).
func (r *Report) Write() {
	r.mu.Lock()
	defer r.mu.Unlock()
	r.Distinct = int64(len(r.distinct)) + r.distinctAdd
	r.WallS = RealNow().Sub(r.start).Seconds()
	b, err := json.MarshalIndent(r, "", " ")
	if err != nil {
		panic(err)
	}
	if p := os.Getenv("VERIF_OUT"); p != "" {
		if err := os.WriteFile(p, b, 0644); err != nil {
			panic(err)
		}
	} else {
		os.Stdout.Write(b)
		os.Stdout.WriteString("\n")
	}
}

// ---------------------------------------------------------------- environment of a run

func Tier() string {
	if t := os.Getenv("VERIF_TIER"); t != "" {
		return t
	}
	return "quick"
}
func Thorough() bool { return Tier() == "thorough" }
func Seed() int64 {
	n, _ := strconv.ParseInt(os.Getenv("VERIF_SEED"), 10, 64)
	return n
}
func Prop() string { return os.Getenv("VERIF_PROP") }

// Shard returns (index, count) from VERIF_SHARD="i/n".
func Shard() (int, int) {
	s := os.Getenv("VERIF_SHARD")
	if s == "" {
		return 0, 1
	}
	p := strings.SplitN(s, "/", 2)
	i, _ := strconv.Atoi(p[0])
	n, _ := strconv.Atoi(p[1])
	if n <= 0 {
		return 0, 1
	}
	return i, n
}
func Mine(idx int) bool { i, n := Shard(); return idx%n == i }

// ReplayCase loads the case of $VERIF_REPLAY into v; returns false when not replaying.
func ReplayCase(v any) bool {
	p := os.Getenv("VERIF_REPLAY")
	if p == "" {
		return false
	}
	b, err := os.ReadFile(p)
	if err != nil {
		panic(err)
	}
	var w struct {
		Replay json.RawMessage `json:"replay"`
	}
	if err := json.Unmarshal(b, &w); err != nil {
		panic(err)
	}
	if err := json.Unmarshal(w.Replay, v); err != nil {
		panic(err)
	}
	return true
}

// Deadline returns the internal soft deadline of a run (exploration stops expanding and reports a cap).
func Deadline(quick, thorough time.Duration) time.Time {
	if s := os.Getenv("VERIF_BUDGET_S"); s != "" {
		if n, err := strconv.Atoi(s); err == nil {
			return RealNow().Add(time.Duration(n) * time.Second)
		}
	}
	if Thorough() {
		return RealNow().Add(thorough)
	}
	return RealNow().Add(quick)
}

// ---------------------------------------------------------------- DFS with deviation bound

type Exec struct {
	Points  []Point
	Outcome string // canonical observation; must be identical when the same tape is re-run
	Viol    []Violation
}

type ExploreOpts struct {
	Bound    int       // max number of non-default choices
	MaxExec  int64     // cap (0 = none)
	Deadline time.Time // soft deadline (zero = none)
	RecheckN int64     // replay every N-th execution for determinism (0 = 1000)
	Workers  int       // >1: parallel (run must be goroutine-safe, e.g. process-per-execution)
	OnExec   func(tape []int, e Exec)
	CostOf   func(p Point, alt int) int // deviation cost of taking alt at p (default 1)
}

type ExploreStats struct {
	Executions int64
	BoundDone  int // highest bound fully completed (-1 if none)
	Capped     bool
	MaxPoints  int
}

func devCost(o *ExploreOpts, p Point, alt int) int {
	if alt == 0 {
		return 0
	}
	if o.CostOf != nil {
		return o.CostOf(p, alt)
	}
	return 1
}

// Explore enumerates every tape with total deviation cost <= Bound, completing bounds 0,1,2.. in order.
// run(prefix) executes the harness body with the given tape prefix and default (0) answers afterwards.
func Explore(rep *Report, o ExploreOpts, run func(prefix []int) Exec) ExploreStats {
	st := ExploreStats{BoundDone: -1}
	if o.RecheckN == 0 {
		o.RecheckN = 1000
	}
	type item struct {
		prefix []int
		cost   int
	}
	// level b holds prefixes whose cost is exactly b
	levels := make([][]item, o.Bound+1)
	levels[0] = []item{{nil, 0}}
	var mu sync.Mutex
	for b := 0; b <= o.Bound; b++ {
		work := levels[b]
		// items at the same cost level may spawn further items at the same level only if cost 0 alts exist (not supported)
		for len(work) > 0 {
			if st.Capped {
				break
			}
			batch := work
			work = nil
			var next []item
			process := func(it item) {
				e := run(it.prefix)
				mu.Lock()
				st.Executions++
				n := st.Executions
				if len(e.Points) > st.MaxPoints {
					st.MaxPoints = len(e.Points)
				}
				mu.Unlock()
				if len(e.Points) < len(it.prefix) {
					rep.HarnessError(fmt.Sprintf("replay divergence: tape %v longer than execution (%d points)", it.prefix, len(e.Points)))
					return
				}
				needRecheck := len(e.Viol) > 0 || n%o.RecheckN == 0
				if needRecheck {
					k := 1
					if len(e.Viol) > 0 {
						k = 4
					}
					for j := 0; j < k; j++ {
						e2 := run(it.prefix)
						if e2.Outcome != e.Outcome || len(e2.Viol) != len(e.Viol) {
							rep.HarnessError(fmt.Sprintf("nondeterminism: tape %v gave different outcomes on replay:\n--- first\n%s\n--- again\n%s", it.prefix, clip(e.Outcome), clip(e2.Outcome)))
							return
						}
					}
				}
				tape := make([]int, len(e.Points))
				for i, p := range e.Points {
					tape[i] = p.Chosen
				}
				rep.mu.Lock()
				rep.Evaluations++
				rep.Transitions += int64(len(e.Points))
				rep.mu.Unlock()
				rep.Outcome(e.Outcome)
				for _, v := range e.Viol {
					rep.Violate(v)
				}
				if o.OnExec != nil {
					o.OnExec(tape, e)
				}
				// children
				for i := len(it.prefix); i < len(e.Points); i++ {
					p := e.Points[i]
					for alt := 1; alt < p.N; alt++ {
						c := it.cost + devCost(&o, p, alt)
						if c > o.Bound {
							continue
						}
						np := append(append(make([]int, 0, i+1), tape[:i]...), alt)
						mu.Lock()
						if c == b {
							next = append(next, item{np, c})
						} else {
							levels[c] = append(levels[c], item{np, c})
						}
						mu.Unlock()
					}
				}
			}
			if o.Workers > 1 {
				var wg sync.WaitGroup
				ch := make(chan item)
				for w := 0; w < o.Workers; w++ {
					wg.Add(1)
					go func() {
						defer wg.Done()
						for it := range ch {
							process(it)
						}
					}()
				}
				for _, it := range batch {
					if (o.MaxExec > 0 && st.Executions >= o.MaxExec) || (!o.Deadline.IsZero() && RealNow().After(o.Deadline)) {
						st.Capped = true
						break
					}
					ch <- it
				}
				close(ch)
				wg.Wait()
			} else {
				for _, it := range batch {
					if (o.MaxExec > 0 && st.Executions >= o.MaxExec) || (!o.Deadline.IsZero() && RealNow().After(o.Deadline)) {
						st.Capped = true
						break
					}
					process(it)
				}
			}
			work = next
		}
		if st.Capped {
			break
		}
		st.BoundDone = b
	}
	return st
}

func clip(s string) string {
	if len(s) > 1500 {
		return s[:1500] + "...(clipped)"
	}
	return s
}

// InProc adapts a harness body to Explore's run function.
func InProc(body func(x *X) []Violation) func(prefix []int) Exec {
	return func(prefix []int) Exec {
		x := NewX(prefix)
		v := body(x)
		return Exec{Points: x.Points, Outcome: x.Obs(), Viol: v}
	}
}

// ---------------------------------------------------------------- explicit-state BFS

type BFSOpts struct {
	NSym      int       // alphabet size
	MaxStates int       // cap (0 = none)
	MaxDepth  int       // cap (0 = none)
	Deadline  time.Time // soft
}

type BFSStats struct {
	States      int
	Transitions int64
	Depth       int
	Closed      bool // frontier emptied: reachable set closed under the alphabet
}

// BFS explores the state graph. step(path) must build FRESH real objects, apply the symbols of path
// in order (checking the oracle on the LAST transition; earlier ones were checked when their
// prefix was explored) and return the canonical state key plus violations found on the last transition.
func BFS(rep *Report, o BFSOpts, step func(path []int) (key string, viol []Violation)) BFSStats {
	st := BFSStats{}
	seen := map[string]struct{}{}
	k0, v0 := step(nil)
	for _, v := range v0 {
		rep.Violate(v)
	}
	seen[k0] = struct{}{}
	frontier := [][]int{nil}
	depth := 0
	for len(frontier) > 0 {
		if o.MaxDepth > 0 && depth >= o.MaxDepth {
			st.States = len(seen)
			st.Depth = depth
			return st
		}
		var next [][]int
		for _, path := range frontier {
			if !o.Deadline.IsZero() && RealNow().After(o.Deadline) {
				st.States = len(seen)
				st.Depth = depth
				return st
			}
			for s := 0; s < o.NSym; s++ {
				np := append(append(make([]int, 0, len(path)+1), path...), s)
				k, viol := step(np)
				st.Transitions++
				for _, v := range viol {
					rep.Violate(v)
				}
				if len(viol) > 0 {
					continue // do not explore beyond a violating transition
				}
				if _, ok := seen[k]; !ok {
					if o.MaxStates > 0 && len(seen) >= o.MaxStates {
						st.States = len(seen)
						st.Depth = depth + 1
						return st
					}
					seen[k] = struct{}{}
					next = append(next, np)
				}
			}
		}
		frontier = next
		depth++
	}
	st.States = len(seen)
	st.Depth = depth
	st.Closed = true
	return st
}

// SortedKeys is a small helper for canonical state keys.
func SortedKeys[V any](m map[int]V) []int {
	ks := make([]int, 0, len(m))
	for k := range m {
		ks = append(ks, k)
	}
	sort.Ints(ks)
	return ks
}

// ---------------------------------------------------------------- BFS with snapshots (BFS2)

// Model describes an explicit-state search over real objects that can be snapshotted with Clone.
type Model[S any] struct {
	NSym int
	// Init builds fresh real objects in their initial state.
	Init func() (S, string)
	// Step applies symbol sym to a PRIVATE copy of s (the search clones before calling) and returns
	// the canonical key of the resulting state plus oracle violations of this transition.
	Step func(s S, path []int, sym int) (key string, viol []Violation)
	// Clone snapshots a state.
	Clone func(s S) S
	// Replay (optional but recommended) replays a whole path on fresh objects from scratch and returns
	// the resulting canonical key: every newly discovered state is validated against it, so the
	// snapshot/restore abstraction is checked on the shortest path to every state.
	Replay func(path []int) string
	// Terminal reports states from which no transitions are explored.
	Terminal func(key string) bool
	// Enabled (optional) reports whether sym is enabled in state s (disabled symbols are not executed).
	Enabled func(s S, sym int) bool
	// OnEdge (optional) observes every explored transition of the state graph.
	OnEdge func(fromKey string, fromPath []int, sym int, toKey string, isNew bool)
}

type BFS2Stats struct {
	States, Depth int
	Transitions   int64
	Validated     int64
	Closed        bool
}

func BFS2[S any](rep *Report, o BFSOpts, m Model[S]) BFS2Stats {
	st := BFS2Stats{}
	type node struct {
		s    S
		path []int
		key  string
	}
	seen := map[string]struct{}{}
	s0, k0 := m.Init()
	seen[k0] = struct{}{}
	frontier := []node{{s0, nil, k0}}
	depth := 0
	for len(frontier) > 0 {
		if o.MaxDepth > 0 && depth >= o.MaxDepth {
			st.States, st.Depth = len(seen), depth
			return st
		}
		var next []node
		for _, n := range frontier {
			if !o.Deadline.IsZero() && RealNow().After(o.Deadline) {
				st.States, st.Depth = len(seen), depth
				return st
			}
			for sym := 0; sym < m.NSym; sym++ {
				if m.Enabled != nil && !m.Enabled(n.s, sym) {
					continue
				}
				c := m.Clone(n.s)
				k, viol := m.Step(c, n.path, sym)
				st.Transitions++
				for _, v := range viol {
					rep.Violate(v)
				}
				if len(viol) > 0 {
					continue
				}
				if _, ok := seen[k]; ok {
					if m.OnEdge != nil {
						m.OnEdge(n.key, n.path, sym, k, false)
					}
					continue
				}
				if o.MaxStates > 0 && len(seen) >= o.MaxStates {
					st.States, st.Depth = len(seen), depth+1
					return st
				}
				seen[k] = struct{}{}
				if m.OnEdge != nil {
					m.OnEdge(n.key, n.path, sym, k, true)
				}
				np := append(append(make([]int, 0, len(n.path)+1), n.path...), sym)
				if m.Replay != nil {
					if rk := m.Replay(np); rk != k {
						rep.HarnessError(fmt.Sprintf("snapshot/replay mismatch on path %v:\n snapshot: %s\n replay:   %s", np, k, rk))
					}
					st.Validated++
				}
				if m.Terminal == nil || !m.Terminal(k) {
					next = append(next, node{c, np, k})
				}
			}
		}
		frontier = next
		depth++
	}
	st.States, st.Depth, st.Closed = len(seen), depth, true
	return st
}
