package mc

import (
	"fmt"
	"math"
	"reflect"
	"sort"
	"strings"
	"unsafe"
)

// DeepKey renders an arbitrary object graph (including unexported fields) canonically: pointer
// addresses are not part of the key, maps are sorted by key, floats are rendered by bit pattern.
// skip(path) drops fields the property under check cannot observe (path is the dotted field path
// from the root, e.g. "stats.UnexpectedPwmValueCount"); everything else — including fields added
// to the real structs later — is part of the key, so state merging stays sound by construction.
func DeepKey(v any, skip func(path string) bool) string {
	var b strings.Builder
	k := &keyer{b: &b, skip: skip, seen: map[visit]int{}}
	k.walk(reflect.ValueOf(v), "")
	return b.String()
}

type keyer struct {
	b    *strings.Builder
	skip func(string) bool
	seen map[visit]int
}

func (k *keyer) walk(v reflect.Value, path string) {
	if !v.IsValid() {
		k.b.WriteString("nil")
		return
	}
	if k.skip != nil && path != "" && k.skip(path) {
		return
	}
	switch v.Kind() {
	case reflect.Ptr:
		if v.IsNil() {
			k.b.WriteString("nil")
			return
		}
		id := visit{v.Pointer(), v.Type()}
		if n, ok := k.seen[id]; ok {
			fmt.Fprintf(k.b, "^%d", n)
			return
		}
		k.seen[id] = len(k.seen)
		k.b.WriteByte('&')
		k.walk(v.Elem(), path)
	case reflect.Interface:
		if v.IsNil() {
			k.b.WriteString("nil")
			return
		}
		k.b.WriteString(v.Elem().Type().String())
		k.b.WriteByte(':')
		k.walk(v.Elem(), path)
	case reflect.Struct:
		if v.Type() == timeType {
			// only zero / non-zero is state (harnesses own the clock)
			w := v.Field(0)
			e := v.Field(1)
			if w.Uint() == 0 && e.Int() == 0 {
				k.b.WriteString("t0")
			} else {
				k.b.WriteString("t+")
			}
			return
		}
		k.b.WriteByte('{')
		t := v.Type()
		for i := 0; i < v.NumField(); i++ {
			p := t.Field(i).Name
			if path != "" {
				p = path + "." + p
			}
			if k.skip != nil && k.skip(p) {
				continue
			}
			k.b.WriteString(t.Field(i).Name)
			k.b.WriteByte('=')
			k.walk(v.Field(i), p)
			k.b.WriteByte(' ')
		}
		k.b.WriteByte('}')
	case reflect.Slice, reflect.Array:
		if v.Kind() == reflect.Slice && v.IsNil() {
			k.b.WriteString("nil")
			return
		}
		k.b.WriteByte('[')
		for i := 0; i < v.Len(); i++ {
			k.walk(v.Index(i), path+"[]")
			k.b.WriteByte(' ')
		}
		k.b.WriteByte(']')
	case reflect.Map:
		if v.IsNil() {
			k.b.WriteString("nil")
			return
		}
		type kv struct{ k, v string }
		var items []kv
		it := v.MapRange()
		for it.Next() {
			var kb, vb strings.Builder
			kk := &keyer{b: &kb, skip: k.skip, seen: k.seen}
			kk.walk(it.Key(), path+"{k}")
			vk := &keyer{b: &vb, skip: k.skip, seen: k.seen}
			vk.walk(it.Value(), path+"{}")
			items = append(items, kv{kb.String(), vb.String()})
		}
		sort.Slice(items, func(i, j int) bool { return items[i].k < items[j].k })
		k.b.WriteString("map[")
		for _, it := range items {
			k.b.WriteString(it.k)
			k.b.WriteByte(':')
			k.b.WriteString(it.v)
			k.b.WriteByte(' ')
		}
		k.b.WriteByte(']')
	case reflect.Bool:
		fmt.Fprintf(k.b, "%v", v.Bool())
	case reflect.Int, reflect.Int8, reflect.Int16, reflect.Int32, reflect.Int64:
		fmt.Fprintf(k.b, "%d", v.Int())
	case reflect.Uint, reflect.Uint8, reflect.Uint16, reflect.Uint32, reflect.Uint64, reflect.Uintptr:
		fmt.Fprintf(k.b, "%d", v.Uint())
	case reflect.Float32, reflect.Float64:
		fmt.Fprintf(k.b, "f%x", math.Float64bits(v.Float()))
	case reflect.String:
		fmt.Fprintf(k.b, "%q", v.String())
	case reflect.Func, reflect.Chan, reflect.UnsafePointer:
		if v.IsNil() {
			k.b.WriteString("nil")
		} else {
			k.b.WriteString(v.Kind().String())
		}
	default:
		fmt.Fprintf(k.b, "?%s", v.Kind())
	}
}

var _ = unsafe.Pointer(nil)
