package sensor

// C17 "hwmon entries bind to the device the user named, or fail cleanly".
//
// Fake hwmon trees (directories under /dev/shm served by the pure-Go gosensors stand-in) are run
// through the real hwmon.GetChips() + internal.InitializeObjects() with one hwmon fan or sensor
// entry per case (plus one multi-entry configuration per tree), for ALL permutations of the chip
// enumeration order. An independent reference binder says which files the entry must be bound to.

import (
	"fmt"
	"os"
	"path/filepath"
	"regexp"
	"sort"
	"strings"
	"testing"

	"github.com/markusressel/fan2go/internal"
	"github.com/markusressel/fan2go/internal/configuration"
	"github.com/markusressel/fan2go/internal/fans"
	"github.com/markusressel/fan2go/internal/sensors"
	"github.com/markusressel/fan2go/internal/verifshim/mc"
	"github.com/md14454/gosensors"
	"github.com/prometheus/client_golang/prometheus"
	"github.com/pterm/pterm"
	"github.com/spf13/viper"
)

func init() {
	pterm.DisableOutput()
	os.Unsetenv("DISPLAY")
}

// ---------------------------------------------------------------- trees

// vxShape is what one chip exposes. Temp state per index 1..3: 0 absent, 1 tempN_input, 2 feature without input (tempN_max only).
type vxShape struct {
	Fans  []int  `json:"fans"`  // channels N with fanN_input, pwmN, pwmN_enable
	Temps [3]int `json:"temps"` // state of temp1..temp3
}

func (s vxShape) key() string {
	return fmt.Sprintf("f%v-t%d%d%d", strings.Trim(strings.ReplaceAll(fmt.Sprint(s.Fans), " ", ""), "[]"), s.Temps[0], s.Temps[1], s.Temps[2])
}
func (s vxShape) inputs() []int {
	var r []int
	for i, st := range s.Temps {
		if st == 1 {
			r = append(r, i+1)
		}
	}
	return r
}

type vxChipDef struct {
	Prefix string
	Bus    int16
	Addr   int32
	Full   string // platform string fan2go derives (hwmon.computeIdentifier)
	BusNr  int16
}

// chip 0 is always the chip the selector names; names are labels only
var vxChipDefs = []vxChipDef{
	{"nct6798", 1, 0x290, "nct6798-isa-0290", 0},
	{"it8620", 1, 0xa30, "it8620-isa-0a30", 0},
	{"coretemp", 1, 0x000, "coretemp-isa-0000", 0},
	{"amdgpu", 2, 0x300, "amdgpu-pci-0300", 0},
}

type vxSel struct {
	Kind    string `json:"kind"`    // fan | sensor | combo
	Pattern string `json:"pattern"` // full | prefix | upper | unknown
	By      string `json:"by,omitempty"`
	N       int    `json:"n,omitempty"`   // index / rpmChannel / sensor index
	Pwm     int    `json:"pwm,omitempty"` // 0 = not configured
}

type vxCase struct {
	Shapes []vxShape `json:"shapes"` // Shapes[i] belongs to vxChipDefs[i]
	Order  []int     `json:"order"`  // enumeration order handed to the sensors library
	Sel    vxSel     `json:"sel"`
}

var vxBase string
var vxDirs = map[string]string{}

func vxMust(err error) {
	if err != nil {
		panic(err)
	}
}

// file contents identify the file: every (chip, kind, number) has its own value
func vxVal(chip int, kind string, n int) int {
	switch kind {
	case "rpm":
		return 1000*(chip+1) + 100*n
	case "pwm":
		return 40*(chip+1) + n
	case "enable":
		return 1
	case "temp":
		return (10*(chip+1) + n) * 1000
	}
	panic(kind)
}

// vxDir returns (creating it on first use) the directory of chip i with shape s: exactly the files of the shape.
func vxDir(i int, s vxShape) string {
	k := fmt.Sprintf("%d_%s_%s", i, vxChipDefs[i].Full, s.key())
	if d, ok := vxDirs[k]; ok {
		return d
	}
	d := filepath.Join(vxBase, k, "hwmon"+fmt.Sprint(i))
	vxMust(os.MkdirAll(d, 0755))
	wr := func(name string, v int) {
		vxMust(os.WriteFile(filepath.Join(d, name), []byte(fmt.Sprintf("%d\n", v)), 0644))
	}
	vxMust(os.WriteFile(filepath.Join(d, "name"), []byte(vxChipDefs[i].Prefix+"\n"), 0644))
	for _, n := range s.Fans {
		wr(fmt.Sprintf("fan%d_input", n), vxVal(i, "rpm", n))
		wr(fmt.Sprintf("pwm%d", n), vxVal(i, "pwm", n))
		wr(fmt.Sprintf("pwm%d_enable", n), vxVal(i, "enable", n))
	}
	for j, st := range s.Temps {
		switch st {
		case 1:
			wr(fmt.Sprintf("temp%d_input", j+1), vxVal(i, "temp", j+1))
		case 2:
			wr(fmt.Sprintf("temp%d_max", j+1), 99000)
		}
	}
	vxDirs[k] = d
	return d
}

func vxSpecs(c *vxCase) []gosensors.ChipSpec {
	specs := make([]gosensors.ChipSpec, 0, len(c.Order))
	for _, i := range c.Order {
		s := c.Shapes[i]
		cs := gosensors.ChipSpec{Prefix: vxChipDefs[i].Prefix, BusType: vxChipDefs[i].Bus, BusNr: vxChipDefs[i].BusNr, Addr: vxChipDefs[i].Addr, Path: vxDir(i, s), Fans: s.Fans}
		for j, st := range s.Temps {
			if st == 1 {
				cs.Temps = append(cs.Temps, j+1)
			} else if st == 2 {
				cs.TempNoInput = append(cs.TempNoInput, j+1)
			}
		}
		specs = append(specs, cs)
	}
	return specs
}

func vxPattern(p string) string {
	switch p {
	case "full":
		return vxChipDefs[0].Full
	case "anchored":
		return "^" + vxChipDefs[0].Full + "$"
	case "prefix":
		return vxChipDefs[0].Prefix
	case "upper":
		return strings.ToUpper(vxChipDefs[0].Prefix)
	case "class":
		// the chip name with its first '-' written as the escape class \D (a non-digit): still names exactly that chip
		return strings.Replace(vxChipDefs[0].Full, "-", `\D`, 1)
	case "anchored-class":
		return "^" + strings.Replace(vxChipDefs[0].Full, "-", `\W`, 1) + "$"
	case "unknown":
		return "f71882fg"
	case "badregex-glob":
		return "*-isa-0290"
	case "badregex-paren":
		return vxChipDefs[0].Prefix + "("
	case "badregex-bracket":
		return vxChipDefs[0].Prefix + "-isa-[0290"
	}
	panic(p)
}

// ---------------------------------------------------------------- reference binder

type vxBound struct {
	OK                  bool
	Rpm, Pwm, En, Input string
	RpmVal, PwmVal, Val int
}

// vxRefBind: the chip is the one whose platform string contains the pattern (case-insensitive; by
// construction at most one). index = position (1-based) among that chip's fans / among its
// temperature inputs that have an input file, ascending by number; rpmChannel = the fan's number;
// PWM and enable come from pwmChannel, which defaults to the rpm channel.
func vxRefBind(shapes []vxShape, sel vxSel) vxBound {
	if strings.HasPrefix(sel.Pattern, "badregex") {
		return vxBound{} // not a valid regular expression: names no device
	}
	pat := strings.TrimSuffix(strings.TrimPrefix(strings.ToLower(vxPattern(sel.Pattern)), "^"), "$")
	if sel.Pattern == "class" || sel.Pattern == "anchored-class" {
		pat = vxChipDefs[0].Full // the class stands for the '-' of the name (see vxPattern)
	}
	hit := -1
	anchored := strings.HasPrefix(sel.Pattern, "anchored")
	for i := range shapes {
		if (anchored && vxChipDefs[i].Full == pat) || (!anchored && strings.Contains(vxChipDefs[i].Full, pat)) {
			hit = i
		}
	}
	if hit < 0 {
		return vxBound{}
	}
	s := shapes[hit]
	dir := vxDir(hit, s)
	if sel.Kind == "sensor" {
		in := s.inputs()
		if sel.N < 1 || sel.N > len(in) {
			return vxBound{}
		}
		n := in[sel.N-1]
		return vxBound{OK: true, Input: filepath.Join(dir, fmt.Sprintf("temp%d_input", n)), Val: vxVal(hit, "temp", n)}
	}
	fl := append([]int{}, s.Fans...)
	sort.Ints(fl)
	ch := 0
	if sel.By == "index" && sel.N >= 1 && sel.N <= len(fl) {
		ch = fl[sel.N-1]
	}
	if sel.By == "rpmChannel" {
		for _, f := range fl {
			if f == sel.N {
				ch = f
			}
		}
	}
	if ch == 0 {
		return vxBound{}
	}
	pwm := sel.Pwm
	if pwm == 0 {
		pwm = ch
	}
	b := vxBound{OK: true, Rpm: filepath.Join(dir, fmt.Sprintf("fan%d_input", ch)), Pwm: filepath.Join(dir, fmt.Sprintf("pwm%d", pwm)),
		En: filepath.Join(dir, fmt.Sprintf("pwm%d_enable", pwm)), RpmVal: vxVal(hit, "rpm", ch), PwmVal: -1}
	for _, f := range fl {
		if f == pwm {
			b.PwmVal = vxVal(hit, "pwm", pwm)
		}
	}
	return b
}

// ---------------------------------------------------------------- real run

const vxFanID = "vxfan7"
const vxSensorID = "vxsens7"

type vxOutcome struct {
	Err    string
	Panic  string
	Bound  vxBound
	Detail string // anything else worth reporting (I/O mismatch, registry mismatch)
	Rebind string // vxRebind: how a second InitializeObjects over the same loaded configuration differs from the first ("" = same)
}

// vxRebind: bind every entry twice in one process without reloading the configuration (what `fan2go fan --id X init` does:
// it resolves the entry for the command and then initialises all objects); both bindings must agree.
var vxRebind bool

var vxPtr = regexp.MustCompile(`0x[0-9a-f]{6,}`)

func (o vxOutcome) String() string {
	return vxPtr.ReplaceAllString(fmt.Sprintf("err=%q panic=%q bound=%+v %s", o.Err, o.Panic, o.Bound, o.Detail), "0x..")
}

func vxFanEntry(id string, chipPattern string, sel vxSel) configuration.FanConfig {
	h := &configuration.HwMonFanConfig{Platform: chipPattern, PwmChannel: sel.Pwm}
	if sel.By == "index" {
		h.Index = sel.N
	} else {
		h.RpmChannel = sel.N
	}
	return configuration.FanConfig{ID: id, Curve: "curve", HwMon: h}
}

func vxInit() (fm map[configuration.FanConfig]fans.Fan, err error, pmsg string) {
	defer func() {
		if r := recover(); r != nil {
			pmsg = fmt.Sprintf("%v", r)
		}
	}()
	reg := prometheus.NewRegistry()
	prometheus.DefaultRegisterer = reg
	prometheus.DefaultGatherer = reg
	fm, err = internal.InitializeObjects()
	return
}

func vxReadFan(id string, fm map[configuration.FanConfig]fans.Fan) (b vxBound, detail string) {
	f, ok := fans.GetFan(id)
	if !ok || f == nil {
		return b, "fan not registered after successful InitializeObjects"
	}
	hf, ok := f.(*fans.HwMonFan)
	if !ok {
		return b, fmt.Sprintf("registered fan has type %T", f)
	}
	fresh := false
	for _, v := range fm {
		if v == f {
			fresh = true
		}
	}
	if !fresh {
		detail += "registered fan is not the one returned by InitializeObjects; "
	}
	h := hf.Config.HwMon
	b = vxBound{OK: true, Rpm: h.RpmInputPath, Pwm: h.PwmPath, En: h.PwmEnablePath, PwmVal: -1}
	// observe the I/O: values identify files
	if v, err := hf.GetRpm(); err == nil {
		b.RpmVal = v
	} else {
		b.RpmVal = -1
	}
	if v, err := hf.GetPwm(); err == nil {
		b.PwmVal = v
	}
	return b, detail
}

func vxReadSensor(id string) (b vxBound, detail string) {
	s, ok := sensors.GetSensor(id)
	if !ok || s == nil {
		return b, "sensor not registered after successful InitializeObjects"
	}
	hs, ok := s.(*sensors.HwmonSensor)
	if !ok {
		return b, fmt.Sprintf("registered sensor has type %T", s)
	}
	b = vxBound{OK: true, Input: hs.Input}
	if v, err := hs.GetValue(); err == nil {
		b.Val = int(v)
	} else {
		b.Val = -1
	}
	return b, ""
}

func vxRunReal(c *vxCase) vxOutcome {
	gosensors.VerifSetSpec(vxSpecs(c))
	cfg := configuration.Configuration{}
	switch c.Sel.Kind {
	case "fan":
		cfg.Fans = []configuration.FanConfig{vxFanEntry(vxFanID, vxPattern(c.Sel.Pattern), c.Sel)}
	case "sensor":
		cfg.Sensors = []configuration.SensorConfig{{ID: vxSensorID, HwMon: &configuration.HwMonSensorConfig{Platform: vxPattern(c.Sel.Pattern), Index: c.Sel.N}}}
	}
	configuration.CurrentConfig = cfg
	fm, err, pmsg := vxInit()
	var o vxOutcome
	if pmsg != "" {
		o.Panic = pmsg
		return o
	}
	if err != nil {
		o.Err = err.Error()
		return o
	}
	if c.Sel.Kind == "fan" {
		o.Bound, o.Detail = vxReadFan(vxFanID, fm)
	} else {
		o.Bound, o.Detail = vxReadSensor(vxSensorID)
	}
	if vxRebind {
		fm2, err2, p2 := vxInit()
		switch {
		case p2 != "":
			o.Rebind = "second InitializeObjects panicked: " + p2
		case err2 != nil:
			o.Rebind = "second InitializeObjects failed: " + err2.Error()
		default:
			var b2 vxBound
			if c.Sel.Kind == "fan" {
				b2, _ = vxReadFan(vxFanID, fm2)
			} else {
				b2, _ = vxReadSensor(vxSensorID)
			}
			if b2 != o.Bound {
				o.Rebind = fmt.Sprintf("first binding %+v, second binding %+v", o.Bound, b2)
			}
		}
	}
	return o
}

// ---------------------------------------------------------------- oracle

type vxState struct {
	rep     *mc.Report
	classes map[string]int
}

func (st *vxState) violate(c *vxCase, sig, detail string) {
	var tree []string
	for pos, i := range c.Order {
		s := c.Shapes[i]
		tree = append(tree, fmt.Sprintf("#%d %s fans=%v temps(1..3: 0 absent,1 input,2 no input)=%v", pos, vxChipDefs[i].Full, s.Fans, s.Temps))
	}
	st.rep.Violate(mc.Violation{Signature: sig, Detail: fmt.Sprintf("%s\nentry: %+v (platform: %s)\nchips in enumeration order:\n  %s", detail, c.Sel, vxPattern(c.Sel.Pattern), strings.Join(tree, "\n  ")), Replay: *c})
}

func vxMissingIndexClass(c *vxCase) bool {
	// the platform names an existing chip but the sensor index does not exist on it
	return c.Sel.Kind == "sensor" && c.Sel.Pattern != "unknown"
}

// check applies the oracle to one real outcome; returns a canonical outcome string for the permutation-invariance check.
func (st *vxState) check(c *vxCase, exp vxBound, o vxOutcome) string {
	kind := c.Sel.Kind
	id := vxFanID
	if kind == "sensor" {
		id = vxSensorID
	}
	switch {
	case o.Panic != "":
		if !exp.OK && vxMissingIndexClass(c) {
			st.violate(c, "C17 missing sensor index panics", "InitializeObjects panicked: "+o.Panic)
		} else {
			st.violate(c, "C17 InitializeObjects panics ("+kind+" entry)", "InitializeObjects panicked: "+o.Panic)
		}
		return "panic"
	case o.Err != "":
		if exp.OK {
			st.violate(c, "C17 existing device not bound ("+kind+" entry)", fmt.Sprintf("InitializeObjects failed: %s\nexpected binding: %+v", o.Err, exp))
		} else if !strings.Contains(o.Err, id) {
			st.violate(c, "C17 error does not name the entry ("+kind+")", fmt.Sprintf("InitializeObjects failed without naming entry %s: %s", id, o.Err))
		}
		return "error"
	}
	// success
	b := o.Bound
	if !exp.OK {
		st.violate(c, "C17 non-existing device silently bound ("+kind+" entry)", fmt.Sprintf("no such device, but InitializeObjects succeeded and bound: %+v %s", b, o.Detail))
		return fmt.Sprintf("bound %+v", b)
	}
	if o.Detail != "" {
		st.violate(c, "C17 registry inconsistent after InitializeObjects", o.Detail)
	}
	if o.Rebind != "" {
		st.violate(c, "C17 second binding of the same entry in one process differs ("+kind+" entry)", o.Rebind)
	}
	if kind == "fan" {
		if b.Rpm != exp.Rpm || b.Pwm != exp.Pwm || b.En != exp.En {
			st.violate(c, "C17 fan bound to a different device", fmt.Sprintf("bound    rpm=%s pwm=%s enable=%s\nexpected rpm=%s pwm=%s enable=%s", b.Rpm, b.Pwm, b.En, exp.Rpm, exp.Pwm, exp.En))
		} else if b.RpmVal != exp.RpmVal || b.PwmVal != exp.PwmVal {
			st.violate(c, "C17 fan reads a different device", fmt.Sprintf("GetRpm/GetPwm returned %d/%d, the named device holds %d/%d", b.RpmVal, b.PwmVal, exp.RpmVal, exp.PwmVal))
		}
	} else {
		if b.Input != exp.Input {
			st.violate(c, "C17 sensor bound to a different device", fmt.Sprintf("bound input=%s expected input=%s", b.Input, exp.Input))
		} else if b.Val != exp.Val {
			st.violate(c, "C17 sensor reads a different device", fmt.Sprintf("GetValue returned %d, the named device holds %d", b.Val, exp.Val))
		}
	}
	return fmt.Sprintf("bound %+v", b)
}

// combo: one configuration with a fan entry (rpmChannel = its lowest channel) for every chip that has fans and a
// sensor entry (index 1) for every chip that has temperature inputs, each naming its chip by full platform string.
func (st *vxState) combo(c *vxCase) {
	gosensors.VerifSetSpec(vxSpecs(c))
	cfg := configuration.Configuration{}
	type want struct {
		id  string
		exp vxBound
		fan bool
	}
	var wants []want
	for i, s := range c.Shapes {
		dir := vxDir(i, s)
		if len(s.Fans) > 0 {
			fl := append([]int{}, s.Fans...)
			sort.Ints(fl)
			id := fmt.Sprintf("vxfan_c%d", i)
			if len(fl) > 1 {
				// an EARLIER entry for the same detected fan with an explicit, different pwmChannel: what it overrides must
				// not leak into the entry after it, which leaves pwmChannel at its default
				aid := fmt.Sprintf("vxfan_alias_c%d", i)
				cfg.Fans = append(cfg.Fans, configuration.FanConfig{ID: aid, Curve: "curve", HwMon: &configuration.HwMonFanConfig{Platform: vxChipDefs[i].Full, RpmChannel: fl[0], PwmChannel: fl[1]}})
				wants = append(wants, want{aid, vxBound{OK: true, Rpm: filepath.Join(dir, fmt.Sprintf("fan%d_input", fl[0])), Pwm: filepath.Join(dir, fmt.Sprintf("pwm%d", fl[1])),
					En: filepath.Join(dir, fmt.Sprintf("pwm%d_enable", fl[1])), RpmVal: vxVal(i, "rpm", fl[0]), PwmVal: vxVal(i, "pwm", fl[1])}, true})
			}
			cfg.Fans = append(cfg.Fans, configuration.FanConfig{ID: id, Curve: "curve", HwMon: &configuration.HwMonFanConfig{Platform: vxChipDefs[i].Full, RpmChannel: fl[0]}})
			wants = append(wants, want{id, vxBound{OK: true, Rpm: filepath.Join(dir, fmt.Sprintf("fan%d_input", fl[0])), Pwm: filepath.Join(dir, fmt.Sprintf("pwm%d", fl[0])),
				En: filepath.Join(dir, fmt.Sprintf("pwm%d_enable", fl[0])), RpmVal: vxVal(i, "rpm", fl[0]), PwmVal: vxVal(i, "pwm", fl[0])}, true})
		}
		if in := s.inputs(); len(in) > 0 {
			id := fmt.Sprintf("vxsens_c%d", i)
			cfg.Sensors = append(cfg.Sensors, configuration.SensorConfig{ID: id, HwMon: &configuration.HwMonSensorConfig{Platform: vxChipDefs[i].Full, Index: 1}})
			wants = append(wants, want{id, vxBound{OK: true, Input: filepath.Join(dir, fmt.Sprintf("temp%d_input", in[0])), Val: vxVal(i, "temp", in[0])}, false})
		}
	}
	configuration.CurrentConfig = cfg
	fm, err, pmsg := vxInit()
	if pmsg != "" {
		st.violate(c, "C17 InitializeObjects panics (several entries)", "InitializeObjects panicked: "+pmsg)
		return
	}
	if err != nil {
		st.violate(c, "C17 existing device not bound (several entries)", "InitializeObjects failed: "+err.Error())
		return
	}
	for _, w := range wants {
		if w.fan {
			b, d := vxReadFan(w.id, fm)
			b.OK = true
			if b != w.exp || d != "" {
				st.violate(c, "C17 fan bound to a different device", fmt.Sprintf("entry %s of a configuration with one entry per chip: bound %+v %s expected %+v", w.id, b, d, w.exp))
			}
		} else {
			b, d := vxReadSensor(w.id)
			if b != w.exp || d != "" {
				st.violate(c, "C17 sensor bound to a different device", fmt.Sprintf("entry %s of a configuration with one entry per chip: bound %+v %s expected %+v", w.id, b, d, w.exp))
			}
		}
	}
}

// comboBad: the configuration of combo() plus ONE entry that names a non-existing device (unknown platform, or a
// sensor index the chip does not have), placed first or last among the entries of its kind. Start-up must fail with an
// error naming that entry, whatever comes before or after it (added after a seeded change showed that a "found" flag
// carried over from a previous entry lets a bad entry slip through).
func (st *vxState) comboBad(c *vxCase) {
	type bad struct {
		kind string // sensor-unknown | sensor-index | fan-unknown
		pos  string // first | last
	}
	for _, b := range []bad{{"sensor-unknown", "last"}, {"sensor-unknown", "first"}, {"sensor-index", "last"}, {"fan-unknown", "last"}, {"fan-unknown", "first"}} {
		gosensors.VerifSetSpec(vxSpecs(c))
		cfg := configuration.Configuration{}
		nGoodSensors, nGoodFans := 0, 0
		firstSensorChip := -1
		for i, s := range c.Shapes {
			if len(s.Fans) > 0 {
				fl := append([]int{}, s.Fans...)
				sort.Ints(fl)
				cfg.Fans = append(cfg.Fans, configuration.FanConfig{ID: fmt.Sprintf("vxfan_c%d", i), Curve: "curve", HwMon: &configuration.HwMonFanConfig{Platform: vxChipDefs[i].Full, RpmChannel: fl[0]}})
				nGoodFans++
			}
			if in := s.inputs(); len(in) > 0 {
				cfg.Sensors = append(cfg.Sensors, configuration.SensorConfig{ID: fmt.Sprintf("vxsens_c%d", i), HwMon: &configuration.HwMonSensorConfig{Platform: vxChipDefs[i].Full, Index: 1}})
				nGoodSensors++
				if firstSensorChip < 0 {
					firstSensorChip = i
				}
			}
		}
		badID := "vxbad_entry"
		switch b.kind {
		case "sensor-unknown", "sensor-index":
			if nGoodSensors == 0 || (b.kind == "sensor-index" && firstSensorChip < 0) {
				continue
			}
			e := configuration.SensorConfig{ID: badID, HwMon: &configuration.HwMonSensorConfig{Platform: vxPattern("unknown"), Index: 1}}
			if b.kind == "sensor-index" {
				e.HwMon = &configuration.HwMonSensorConfig{Platform: vxChipDefs[firstSensorChip].Full, Index: 4}
			}
			if b.pos == "first" {
				cfg.Sensors = append([]configuration.SensorConfig{e}, cfg.Sensors...)
			} else {
				cfg.Sensors = append(cfg.Sensors, e)
			}
		case "fan-unknown":
			if nGoodFans == 0 {
				continue
			}
			e := configuration.FanConfig{ID: badID, Curve: "curve", HwMon: &configuration.HwMonFanConfig{Platform: vxPattern("unknown"), RpmChannel: 1}}
			if b.pos == "first" {
				cfg.Fans = append([]configuration.FanConfig{e}, cfg.Fans...)
			} else {
				cfg.Fans = append(cfg.Fans, e)
			}
		}
		configuration.CurrentConfig = cfg
		_, err, pmsg := vxInit()
		st.rep.Evaluations++
		cls := b.kind + " entry " + b.pos
		switch {
		case pmsg != "":
			st.violate(c, "C17 InitializeObjects panics (several entries, "+cls+")", "InitializeObjects panicked: "+pmsg)
		case err == nil:
			st.violate(c, "C17 non-existing device silently accepted among other entries ("+cls+")", "start-up succeeded although entry "+badID+" names a non-existing device")
		case !strings.Contains(err.Error(), badID):
			st.violate(c, "C17 start-up error does not name the entry ("+cls+")", "error: "+err.Error())
		}
	}
}

// ---------------------------------------------------------------- `fan2go sensor -i <id>` lookup (cmd/sensor/sensor.go getSensor)

// cliSensor takes the sensor entry through a YAML file and the real getSensor (the lookup behind `fan2go sensor`),
// which has its own copy of the matching loop. Oracle (weaker than for start-up: this path returns a sensor object and
// the command then reads it): no panic; an existing device is bound exactly; a non-existing device never yields a
// sensor that reads some other existing file.
func (st *vxState) cliSensor(c *vxCase, exp vxBound) {
	gosensors.VerifSetSpec(vxSpecs(c))
	path := filepath.Join(vxBase, "fan2go.yaml")
	y := fmt.Sprintf("sensors:\n  - id: %s\n    hwmon:\n      platform: %q\n      index: %d\n", vxSensorID, vxPattern(c.Sel.Pattern), c.Sel.N)
	vxMust(os.WriteFile(path, []byte(y), 0644))
	var s interface{ GetValue() (float64, error) }
	var input, pmsg string
	var err error
	func() {
		defer func() {
			if r := recover(); r != nil {
				pmsg = fmt.Sprintf("%v", r)
			}
		}()
		viper.Reset()
		configuration.InitConfig(path) // cmd/root.go cobra.OnInitialize
		sens, e := getSensor(vxSensorID)
		err = e
		if e == nil && sens != nil {
			s = sens
			if hs, ok := sens.(*sensors.HwmonSensor); ok {
				input = hs.Input
			}
		}
	}()
	cc := *c
	cc.Sel.Kind = "cli-sensor"
	switch {
	case pmsg != "":
		st.violate(&cc, "C17 `fan2go sensor` lookup panics", "getSensor panicked: "+pmsg)
	case exp.OK && err != nil:
		st.violate(&cc, "C17 `fan2go sensor` lookup does not find an existing device", "getSensor: "+err.Error())
	case exp.OK && input != exp.Input:
		st.violate(&cc, "C17 `fan2go sensor` lookup bound to a different device", fmt.Sprintf("bound input=%q expected %q", input, exp.Input))
	case !exp.OK && err == nil && s != nil:
		if _, serr := os.Stat(input); input != "" && serr == nil {
			st.violate(&cc, "C17 `fan2go sensor` lookup silently bound a non-existing device", fmt.Sprintf("no such device, but the sensor reads %q", input))
		}
	}
}

// ---------------------------------------------------------------- enumeration

func vxFanSets() [][]int {
	var r [][]int
	for m := 0; m < 8; m++ {
		var s []int
		for i := 0; i < 3; i++ {
			if m&(1<<uint(i)) != 0 {
				s = append(s, i+1)
			}
		}
		r = append(r, s)
	}
	return r
}

// vxShapes64: every fan subset x every temp-input subset; vxShapes216 adds "feature without input" per temp index.
func vxShapesN(tempStates int) []vxShape {
	var r []vxShape
	for _, f := range vxFanSets() {
		for a := 0; a < tempStates; a++ {
			for b := 0; b < tempStates; b++ {
				for cc := 0; cc < tempStates; cc++ {
					r = append(r, vxShape{Fans: f, Temps: [3]int{a, b, cc}})
				}
			}
		}
	}
	return r
}

func vxPerms(n int) [][]int {
	if n == 1 {
		return [][]int{{0}}
	}
	var r [][]int
	for _, p := range vxPerms(n - 1) {
		for pos := 0; pos <= len(p); pos++ {
			q := append(append(append([]int{}, p[:pos]...), n-1), p[pos:]...)
			r = append(r, q)
		}
	}
	return r
}

func vxSelectors() []vxSel {
	var r []vxSel
	for _, p := range []string{"full", "prefix", "upper"} {
		for _, by := range []string{"index", "rpmChannel"} {
			for n := 1; n <= 4; n++ {
				for pwm := 0; pwm <= 3; pwm++ {
					r = append(r, vxSel{Kind: "fan", Pattern: p, By: by, N: n, Pwm: pwm})
				}
			}
		}
		for n := 1; n <= 4; n++ {
			r = append(r, vxSel{Kind: "sensor", Pattern: p, N: n})
		}
	}
	r = append(r, vxSel{Kind: "fan", Pattern: "unknown", By: "index", N: 1}, vxSel{Kind: "fan", Pattern: "unknown", By: "rpmChannel", N: 1},
		vxSel{Kind: "sensor", Pattern: "unknown", N: 1})
	// platform strings that are not valid regular expressions (glob style, typos): clean failure naming the entry
	for _, p := range []string{"badregex-glob", "badregex-paren", "badregex-bracket"} {
		r = append(r, vxSel{Kind: "fan", Pattern: p, By: "index", N: 1}, vxSel{Kind: "sensor", Pattern: p, N: 1})
	}
	// valid regular expressions that use upper-case escape classes
	for _, p := range []string{"class", "anchored-class"} {
		r = append(r, vxSel{Kind: "fan", Pattern: p, By: "index", N: 1}, vxSel{Kind: "fan", Pattern: p, By: "rpmChannel", N: 2}, vxSel{Kind: "sensor", Pattern: p, N: 1}, vxSel{Kind: "sensor", Pattern: p, N: 2})
	}
	return r
}

// distractor catalogues for the chips the entry does NOT name
func vxDistractors(n int) []vxShape {
	d := []vxShape{
		{Fans: []int{1, 2, 3}, Temps: [3]int{1, 1, 1}}, // has every device the entry could ask for
		{Fans: nil, Temps: [3]int{0, 0, 0}},            // exposes nothing: skipped by GetChips, shifts list positions
		{Fans: []int{2, 3}, Temps: [3]int{0, 0, 0}},    // fans only, index != channel
		{Fans: nil, Temps: [3]int{1, 0, 1}},            // temps only, index != number
		{Fans: []int{1}, Temps: [3]int{1, 0, 0}},
		{Fans: []int{3}, Temps: [3]int{0, 2, 1}},
		{Fans: []int{1, 3}, Temps: [3]int{2, 1, 0}},
		{Fans: []int{1, 2, 3}, Temps: [3]int{0, 0, 0}},
	}
	return d[:n]
}

// vxTrees calls emit for every tree (list of shapes; Shapes[0] is the named chip) of the tier's space.
func vxTrees(emit func(fam string, shapes []vxShape)) {
	s64 := vxShapesN(2)
	s216 := vxShapesN(3)
	// 1 chip: all 216 shapes
	for _, t := range s216 {
		emit("1chip", []vxShape{t})
	}
	// 2 chips: all 64 x all 64
	for _, t := range s64 {
		for _, o := range s64 {
			emit("2chips", []vxShape{t, o})
		}
	}
	// 3 chips: named chip all 64 shapes, the two others from a catalogue
	d3 := vxDistractors(4)
	if mc.Thorough() {
		d3 = vxDistractors(8)
	}
	for _, t := range s64 {
		for _, o1 := range d3 {
			for _, o2 := range d3 {
				emit("3chips", []vxShape{t, o1, o2})
			}
		}
	}
	if !mc.Thorough() {
		return
	}
	// thorough: 2 chips with the no-input temp states on the named chip (the 152 shapes not in s64)
	for _, t := range s216 {
		if t.Temps[0] != 2 && t.Temps[1] != 2 && t.Temps[2] != 2 {
			continue
		}
		for _, o := range s64 {
			emit("2chips-noinput", []vxShape{t, o})
		}
	}
	// 4 chips
	d4 := vxDistractors(4)
	for _, t := range s64 {
		for _, o1 := range d4 {
			for _, o2 := range d4 {
				for _, o3 := range d4 {
					emit("4chips", []vxShape{t, o1, o2, o3})
				}
			}
		}
	}
}

func TestVX_C17(t *testing.T) {
	rep := mc.NewReport("C17", "cmd/sensor/bind")
	defer rep.Write()
	vxBase = fmt.Sprintf("/dev/shm/verif-c17-%d", os.Getpid())
	vxMust(os.MkdirAll(vxBase, 0755))
	defer os.RemoveAll(vxBase)
	st := &vxState{rep: rep, classes: map[string]int{}}

	var rc vxCase
	if mc.ReplayCase(&rc) {
		rep.Evaluations++
		if rc.Sel.Kind == "combo" {
			st.combo(&rc)
			st.comboBad(&rc)
		} else if rc.Sel.Kind == "cli-sensor" {
			rc.Sel.Kind = "sensor"
			st.cliSensor(&rc, vxRefBind(rc.Shapes, rc.Sel))
		} else {
			st.check(&rc, vxRefBind(rc.Shapes, rc.Sel), vxRunReal(&rc))
		}
		return
	}

	sels := vxSelectors()
	perms := map[int][][]int{}
	for n := 1; n <= 4; n++ {
		perms[n] = vxPerms(n)
	}
	idx := 0
	var nontrivial, trees int64
	vxTrees(func(fam string, shapes []vxShape) {
		i := idx
		idx++
		if !mc.Mine(i) {
			return
		}
		trees++
		rep.Count("trees:"+fam, 1)
		ps := perms[len(shapes)]
		for si := range sels {
			sel := sels[si]
			exp := vxRefBind(shapes, sel)
			first := ""
			for pi, order := range ps {
				c := vxCase{Shapes: shapes, Order: order, Sel: sel}
				o := vxRunReal(&c)
				rep.Evaluations++
				out := st.check(&c, exp, o)
				if sel.Kind == "sensor" && (fam == "1chip" || fam == "2chips") {
					st.cliSensor(&c, exp)
					rep.Count("cli-sensor-lookups", 1)
					rep.Evaluations++
				}
				if pi == 0 {
					first = out
				} else if out != first {
					st.violate(&c, "C17 binding depends on chip enumeration order", fmt.Sprintf("order %v gives %s\norder %v gives %s", ps[0], first, order, out))
				}
				if len(shapes) > 1 || exp.OK {
					nontrivial++
				}
			}
			if exp.OK {
				rep.Count("selectors-naming-an-existing-device", int64(len(ps)))
			} else {
				rep.Count("selectors-naming-no-device", int64(len(ps)))
			}
		}
		for _, order := range ps {
			c := vxCase{Shapes: shapes, Order: order, Sel: vxSel{Kind: "combo", Pattern: "full"}}
			st.combo(&c)
			st.comboBad(&c)
			rep.Evaluations++
			nontrivial++
		}
		if trees == 3 || trees == 40 || trees == 200 {
			pick := map[int64]vxSel{3: {Kind: "fan", Pattern: "prefix", By: "index", N: 1}, 40: {Kind: "sensor", Pattern: "upper", N: 1},
				200: {Kind: "fan", Pattern: "full", By: "rpmChannel", N: 2, Pwm: 3}}[trees]
			c := vxCase{Shapes: shapes, Order: ps[len(ps)-1], Sel: pick}
			rep.Sample(map[string]any{"case": c, "platform": vxPattern(pick.Pattern), "expected": vxRefBind(shapes, pick), "observed": vxRunReal(&c).String()})
		}
	})
	rep.AddDistinct(nontrivial) // (tree, order, entry) triples are enumerated without repetition
	rep.Configs = trees
	rep.Count("trees", trees)
	rep.Note(fmt.Sprintf("per tree: %d entries (3 platform spellings x {index,rpmChannel} x 1..4 x pwmChannel {default,1,2,3}; 3 spellings x sensor index 1..4; unknown platform) "+
		"x every permutation of the chip enumeration order, plus one configuration with an entry for every chip; non-trivial = more than one chip or the device exists", len(sels)))
}

// ---------------------------------------------------------------- bus families
//
// Several chips of the SAME driver that differ only in bus number / address (second drivetemp disk, two Super-I/O chips,
// several HID devices ...): the platform string is the lm-sensors chip name (<prefix>-<bus>-<nr/addr>), and an entry that
// gives a chip's full name must bind to exactly that chip, whatever the enumeration order.

var vxBusFamilies = map[string][]vxChipDef{
	"scsi":         {{"drivetemp", 8, 0, "drivetemp-scsi-0-0", 0}, {"drivetemp", 8, 0, "drivetemp-scsi-1-0", 1}, {"drivetemp", 8, 1, "drivetemp-scsi-0-1", 0}, {"drivetemp", 8, 0, "drivetemp-scsi-2-0", 2}},
	"hid":          {{"corsaircpro", 6, 1, "corsaircpro-hid-3-1", 3}, {"corsaircpro", 6, 3, "corsaircpro-hid-1-3", 1}, {"corsaircpro", 6, 2, "corsaircpro-hid-3-2", 3}, {"corsaircpro", 6, 1, "corsaircpro-hid-2-1", 2}},
	"isa":          {{"nct6798", 1, 0x290, "nct6798-isa-0290", 0}, {"nct6798", 1, 0x290, "nct6798-isa-1290", 1}, {"nct6798", 1, 0xa30, "nct6798-isa-0a30", 0}, {"nct6798", 1, 0x029, "nct6798-isa-0029", 0}},
	"pci":          {{"amdgpu", 2, 0x300, "amdgpu-pci-0300", 0}, {"amdgpu", 2, 0x300, "amdgpu-pci-1300", 1}, {"amdgpu", 2, 0x030, "amdgpu-pci-0030", 0}, {"amdgpu", 2, 0x003, "amdgpu-pci-3003", 3}},
	// names that are prefixes of each other (a hub on port 1 and hubs on ports 10, 11, 12): only anchored patterns name one chip
	"hid-prefix": {{"corsaircpro", 6, 1, "corsaircpro-hid-3-1", 3}, {"corsaircpro", 6, 10, "corsaircpro-hid-3-10", 3}, {"corsaircpro", 6, 11, "corsaircpro-hid-3-11", 3}, {"corsaircpro", 6, 12, "corsaircpro-hid-3-12", 3}},
	"acpi+virtual": {{"acpitz", 5, 0, "acpitz-acpi-0", 0}, {"acpitz", 5, 0, "acpitz-acpi-1", 1}, {"thinkpad", 4, 0, "thinkpad-virtual-0", 0}, {"thinkpad", 4, 7, "thinkpad-virtual-2", 2}},
}

func TestVX_C17bus(t *testing.T) {
	rep := mc.NewReport("C17", "cmd/sensor/bus-families")
	defer rep.Write()
	vxBase = fmt.Sprintf("/dev/shm/verif-c17b-%d", os.Getpid())
	vxMust(os.MkdirAll(vxBase, 0755))
	defer os.RemoveAll(vxBase)
	st := &vxState{rep: rep, classes: map[string]int{}}
	saved := vxChipDefs
	defer func() { vxChipDefs = saved }()
	shape := vxShape{Fans: []int{1, 2}, Temps: [3]int{1, 1, 0}}
	sels := []vxSel{}
	for _, p := range []string{"full", "anchored", "class", "anchored-class"} {
		sels = append(sels, vxSel{Kind: "sensor", Pattern: p, N: 1}, vxSel{Kind: "sensor", Pattern: p, N: 2}, vxSel{Kind: "sensor", Pattern: p, N: 3},
			vxSel{Kind: "fan", Pattern: p, By: "rpmChannel", N: 2}, vxSel{Kind: "fan", Pattern: p, By: "index", N: 1}, vxSel{Kind: "fan", Pattern: p, By: "rpmChannel", N: 3})
	}
	perms := vxPerms(4)
	var fams []string
	for f := range vxBusFamilies {
		fams = append(fams, f)
	}
	sort.Strings(fams)
	type busCase struct {
		Family string `json:"family"`
		Target int    `json:"target"`
		Case   vxCase `json:"case"`
	}
	var rc busCase
	replay := mc.ReplayCase(&rc)
	vxRebind = true
	defer func() { vxRebind = false }()
	idx := 0
	var n int64
	for _, fam := range fams {
		defs := vxBusFamilies[fam]
		for target := range defs {
			// rotate: the named chip is chip 0
			rot := append(append([]vxChipDef{}, defs[target:]...), defs[:target]...)
			for _, sel := range sels {
				if fam == "hid-prefix" && target == 0 && !strings.HasPrefix(sel.Pattern, "anchored") {
					continue // the unanchored name of this chip also matches the chips whose names it is a prefix of
				}
				for _, order := range perms {
					idx++
					if replay {
						if rc.Family != fam || rc.Target != target || rc.Case.Sel != sel || fmt.Sprint(rc.Case.Order) != fmt.Sprint(order) {
							continue
						}
					} else if !mc.Mine(idx) {
						continue
					}
					vxChipDefs = rot
					vxDirs = map[string]string{}
					shapes := []vxShape{shape, shape, shape, shape}
					c := vxCase{Shapes: shapes, Order: order, Sel: sel}
					exp := vxRefBind(shapes, sel)
					o := vxRunReal(&c)
					n++
					before := rep.NViolations()
					st.check(&c, exp, o)
					if rep.NViolations() > before {
						rep.Note(fmt.Sprintf("bus family %s: entry names %s; chips in enumeration order %v of %v", fam, vxPattern(sel.Pattern), order, []string{rot[0].Full, rot[1].Full, rot[2].Full, rot[3].Full}))
					}
					if n == 7 {
						rep.Sample(map[string]any{"family": fam, "platform": vxPattern(sel.Pattern), "order": order, "expected": exp, "observed": o.String()})
					}
				}
			}
		}
	}
	vxChipDefs = saved
	// wide chips: fan channels with two digits (12-header hubs), sparse channel sets that mix one- and two-digit numbers
	if !replay {
		wide := [][]vxShape{
			{{Fans: []int{1, 2, 10, 11, 12}, Temps: [3]int{1, 0, 0}}, {Fans: []int{1}, Temps: [3]int{1, 0, 0}}},
			{{Fans: []int{2, 10, 11}, Temps: [3]int{1, 0, 0}}, {Fans: []int{1, 12}, Temps: [3]int{0, 1, 0}}},
		}
		var wsels []vxSel
		for _, by := range []string{"index", "rpmChannel"} {
			for _, nn := range []int{1, 2, 3, 4, 5, 10, 11, 12} {
				wsels = append(wsels, vxSel{Kind: "fan", Pattern: "full", By: by, N: nn}, vxSel{Kind: "fan", Pattern: "full", By: by, N: nn, Pwm: 10})
			}
		}
		for _, shapes := range wide {
			for _, sel := range wsels {
				for _, order := range vxPerms(2) {
					idx++
					if !mc.Mine(idx) {
						continue
					}
					vxDirs = map[string]string{}
					c := vxCase{Shapes: shapes, Order: order, Sel: sel}
					st.check(&c, vxRefBind(shapes, sel), vxRunReal(&c))
					n++
				}
			}
		}
	}
	rep.Evaluations = n
	rep.AddDistinct(n)
	rep.Note("wide chips: fan channels {1,2,10,11,12} and {2,10,11} next to a chip with fans {1} / {1,12}; fan entries by index 1..5,10..12 and rpmChannel 1..5,10..12, pwmChannel default or 10; both enumeration orders")
	rep.Note("bus families: 4 chips of one driver differing in bus number/address (scsi, hid, isa, pci, acpi+virtual); each chip named by its full lm-sensors name (plain and ^anchored$), sensor index 1..3, fan by index / rpmChannel, all 24 enumeration orders")
}
