package fan

// C15: stored characterisation is reused; fans are analysed once. Explicit-state search over
// sequences of {daemon start, `fan reset`, `fan init`} — the real cobra commands and the real
// start-up path (YAML -> loader -> validator -> InitializeObjects -> NewFanController -> Run in a
// virtual-time bubble) — with the abstract state read back from the real bbolt database.

import (
	"context"
	"encoding/json"
	"fmt"
	"os"
	"path/filepath"
	"sort"
	"strings"
	"testing"
	"testing/synctest"
	"time"

	"github.com/markusressel/fan2go/internal"
	"github.com/markusressel/fan2go/internal/configuration"
	"github.com/markusressel/fan2go/internal/control_loop"
	"github.com/markusressel/fan2go/internal/controller"
	"github.com/markusressel/fan2go/internal/curves"
	"github.com/markusressel/fan2go/internal/fans"
	"github.com/markusressel/fan2go/internal/verifshim/env"
	"github.com/markusressel/fan2go/internal/verifshim/mc"
	"github.com/md14454/gosensors"
	"github.com/prometheus/client_golang/prometheus"
	"github.com/pterm/pterm"
	"github.com/spf13/viper"
	bolt "go.etcd.io/bbolt"
)

func init() {
	pterm.DisableOutput()
	os.Unsetenv("DISPLAY")
}

type vxC15Cfg struct {
	Kind    string `json:"kind"` // hwmon | file | cmd
	ConfMap bool   `json:"confMap"`
	MinMax  bool   `json:"minMax"` // minPwm and maxPwm configured
	// SingleStep: the configured pwmMap (when present) has a single entry {255: 255} instead of the README map
	SingleStep bool `json:"singleStep,omitempty"`
	// NoRpm: file/cmd fan without RPM source (no rpmPath / getRpm): its complete stored state is the PWM map alone
	NoRpm bool `json:"noRpm,omitempty"`
}

func (c vxC15Cfg) String() string {
	return fmt.Sprintf("%s confMap=%v minMax=%v singleStep=%v noRpm=%v", c.Kind, c.ConfMap, c.MinMax, c.SingleStep, c.NoRpm)
}

type vxC15Case struct {
	Cfg vxC15Cfg `json:"cfg"`
	Ops []string `json:"ops"` // start | reset | init
}

type vxCountCurve struct {
	id    string
	Evals int
	mark  func()
}

func (c *vxCountCurve) GetId() string { return c.id }
func (c *vxCountCurve) Evaluate() (int, error) {
	if c.Evals == 0 && c.mark != nil {
		c.mark()
	}
	c.Evals++
	return 100, nil
}
func (c *vxCountCurve) CurrentValue() int { return 100 }

type vxC15World struct {
	flakyRead int // start: the k-th read of the PWM file fails once (0 = none)
	twinPwm  string
	cfg      vxC15Cfg
	dir      string
	fs       *env.FS
	dev      *env.Dev
	cfgPath  string
	dbPath   string
	cmdLog   string
	cmdState string
	fanYaml  string
	otherPwm string
	confMap  bool // pwmMap currently present in the configuration file
}

var vxC15Seq int

func vxC15NewWorld(cfg vxC15Cfg, fs *env.FS, scratch string) *vxC15World {
	vxC15Seq++
	w := &vxC15World{cfg: cfg, fs: fs, dir: filepath.Join(scratch, fmt.Sprintf("w%d", vxC15Seq))}
	if err := os.MkdirAll(w.dir, 0755); err != nil {
		panic(err)
	}
	w.dbPath = filepath.Join(w.dir, "fan2go.db")
	w.cfgPath = filepath.Join(w.dir, "fan2go.yaml")
	switch cfg.Kind {
	case "hwmon":
		w.dev = fs.NewDev("hwmon0", 1, 90, 2, true, true)
		w.dev.RpmOf = func(pwm int) int { return pwm * 10 }
		gosensors.VerifSetSpec([]gosensors.ChipSpec{{Prefix: "vxchip", BusType: 1, BusNr: 0, Addr: 0x290, Path: filepath.Dir(w.dev.Pwm), Fans: []int{1}, Temps: nil}})
		w.fanYaml = "    hwmon:\n      platform: vxchip\n      rpmChannel: 1\n"
	case "file":
		w.dev = &env.Dev{FS: fs}
		w.dev.Pwm = fs.Add("filefan/pwm", 90)
		w.dev.Rpm = fs.Add("filefan/rpm", 0)
		fs.F(w.dev.Rpm).OnRead = func() (int, error) { return fs.Val(w.dev.Pwm) * 10, nil }
		w.fanYaml = fmt.Sprintf("    file:\n      path: %s\n      rpmPath: %s\n", w.dev.Pwm, w.dev.Rpm)
		if cfg.NoRpm {
			w.fanYaml = fmt.Sprintf("    file:\n      path: %s\n", w.dev.Pwm)
		}
	case "cmd":
		w.cmdLog = filepath.Join(w.dir, "cmd.log")
		w.cmdState = filepath.Join(w.dir, "pwm")
		state := w.cmdState
		os.WriteFile(state, []byte("90"), 0644)
		set := filepath.Join(w.dir, "set.sh")
		get := filepath.Join(w.dir, "get.sh")
		rpm := filepath.Join(w.dir, "rpm.sh")
		os.WriteFile(set, []byte(fmt.Sprintf("#!/bin/sh\necho \"set $1\" >> %s\nprintf %%s \"$1\" > %s\n", w.cmdLog, state)), 0755)
		os.WriteFile(get, []byte(fmt.Sprintf("#!/bin/sh\ncat %s\n", state)), 0755)
		os.WriteFile(rpm, []byte(fmt.Sprintf("#!/bin/sh\necho $(( $(cat %s) * 10 ))\n", state)), 0755)
		gosensors.VerifSetSpec(nil)
		w.fanYaml = fmt.Sprintf("    cmd:\n      setPwm:\n        exec: %s\n        args: [\"%%pwm%%\"]\n      getPwm:\n        exec: %s\n      getRpm:\n        exec: %s\n", set, get, rpm)
		if cfg.NoRpm {
			w.fanYaml = fmt.Sprintf("    cmd:\n      setPwm:\n        exec: %s\n        args: [\"%%pwm%%\"]\n      getPwm:\n        exec: %s\n", set, get)
		}
	}
	if cfg.Kind != "hwmon" {
		gosensors.VerifSetSpec(nil)
	}
	// a second, never started fan whose id sorts before vxfan (target of `fan reset -i afan`)
	w.otherPwm = fs.Add("otherfan/pwm", 55)
	// a third, never started fan whose id differs from vxfan only in letter case and which is listed before it
	// (ids are case-sensitive: `fan --id vxfan ...` must never resolve to it)
	w.twinPwm = fs.Add("twinfan/pwm", 66)
	w.confMap = cfg.ConfMap
	w.writeConfig()
	return w
}

// writeConfig (re)writes the YAML configuration; the pwmMap of vxfan is present iff w.confMap.
func (w *vxC15World) writeConfig() {
	temp := filepath.Join(w.dir, "temp")
	os.WriteFile(temp, []byte("50000"), 0644)
	extra := ""
	if w.confMap {
		if w.cfg.SingleStep {
			extra += "    pwmMap:\n      255: 255\n"
		} else {
			extra += "    pwmMap:\n      0: 0\n      64: 128\n      192: 255\n"
		}
	}
	if w.cfg.MinMax {
		extra += "    minPwm: 30\n    maxPwm: 200\n"
	}
	yaml := fmt.Sprintf(`dbPath: %s
runFanInitializationInParallel: true
fans:
  - id: afan
    curve: vxcurve
    file:
      path: %s
  - id: VXFAN
    curve: vxcurve
    file:
      path: %s
  - id: vxfan
    curve: vxcurve
    neverStop: false
%s%ssensors:
  - id: vxsensor
    file:
      path: %s
curves:
  - id: vxcurve
    linear:
      sensor: vxsensor
      min: 40
      max: 80
`, w.dbPath, w.otherPwm, w.twinPwm, w.fanYaml, extra, temp)
	if err := os.WriteFile(w.cfgPath, []byte(yaml), 0644); err != nil {
		panic(err)
	}
}

func (w *vxC15World) devPwm() int {
	if w.cfg.Kind == "cmd" {
		b, _ := os.ReadFile(w.cmdState)
		v := -1
		fmt.Sscanf(strings.TrimSpace(string(b)), "%d", &v)
		return v
	}
	return w.fs.Val(w.dev.Pwm)
}

func vxLoadConfigLikeCli(path string) error {
	viper.Reset()
	configuration.InitConfig(path)
	p := configuration.DetectAndReadConfigFile()
	configuration.LoadConfig()
	return configuration.Validate(p)
}

// logical database content (canonical), read with a raw bbolt view
func vxDbState(path string) (hasCurve, hasMap bool, dump string) {
	if _, err := os.Stat(path); err != nil {
		return false, false, "nodb"
	}
	db, err := bolt.Open(path, 0600, &bolt.Options{Timeout: time.Second, ReadOnly: true})
	if err != nil {
		return false, false, "unopenable: " + err.Error()
	}
	defer db.Close()
	var parts []string
	db.View(func(tx *bolt.Tx) error {
		for _, b := range []string{"fans", "fanPwmMap"} {
			bk := tx.Bucket([]byte(b))
			if bk == nil {
				continue
			}
			bk.ForEach(func(k, v []byte) error {
				if string(k) == "vxfan" {
					if b == "fans" {
						hasCurve = true
					} else {
						hasMap = true
					}
				}
				parts = append(parts, fmt.Sprintf("%s/%s=%x", b, k, mc.Hash(string(v))))
				return nil
			})
		}
		return nil
	})
	sort.Strings(parts)
	return hasCurve, hasMap, strings.Join(parts, ",")
}

type vxC15Obs struct {
	PreRegWrites []int
	Sweep        bool // a descending run of > 8 PWM writes before regulation
	Measure      bool // an ascending run of > 8 PWM writes before regulation
	Err          string
	Regulated    bool
	RegulatedPwm int // device PWM after the third regulation cycle (before shutdown)
}

func vxClassify(writes []int) (sweep, measure bool) {
	desc, asc := 1, 1
	for i := 1; i < len(writes); i++ {
		if writes[i] < writes[i-1] {
			desc++
			asc = 1
		} else if writes[i] > writes[i-1] {
			asc++
			desc = 1
		}
		if desc > 8 {
			sweep = true
		}
		if asc > 8 {
			measure = true
		}
	}
	return
}

func (w *vxC15World) pwmWrites() []int {
	var r []int
	if w.cfg.Kind == "cmd" {
		b, _ := os.ReadFile(w.cmdLog)
		for _, l := range strings.Split(string(b), "\n") {
			var v int
			if _, err := fmt.Sscanf(l, "set %d", &v); err == nil {
				r = append(r, v)
			}
		}
		return r
	}
	for _, op := range w.fs.Log {
		if op.Path == w.dev.Pwm && op.Kind != "read" {
			r = append(r, op.Value)
		}
	}
	return r
}

func (w *vxC15World) clearLog() {
	w.fs.Log = w.fs.Log[:0]
	if w.cmdLog != "" {
		os.Remove(w.cmdLog)
	}
}

// one daemon start of the fan: real start-up path up to the third regulation cycle, then shutdown
func (w *vxC15World) start(t *testing.T, lockedFor time.Duration) (o vxC15Obs) {
	w.clearLog()
	synctest.Test(t, func(t *testing.T) {
		p := vxGuardC15(func() {
			if lockedFor > 0 {
				// another fan2go process (e.g. `fan2go fan curve`) holds the database lock while the daemon starts
				other, err := bolt.Open(w.dbPath, 0600, &bolt.Options{Timeout: time.Second})
				if err != nil {
					o.Err = "harness: cannot lock the database: " + err.Error()
					return
				}
				released := make(chan struct{})
				defer func() { <-released }()
				go func() {
					time.Sleep(lockedFor)
					other.Close()
					close(released)
				}()
			}
			if err := vxLoadConfigLikeCli(w.cfgPath); err != nil {
				o.Err = "config: " + err.Error()
				return
			}
			prometheus.DefaultRegisterer = prometheus.NewRegistry()
			fanMap, err := internal.InitializeObjects()
			if err != nil {
				o.Err = "InitializeObjects: " + err.Error()
				return
			}
			var fan fans.Fan
			for _, f := range fanMap {
				if f.GetId() == "vxfan" {
					fan = f
				}
			}
			marked := -1
			cc := &vxCountCurve{id: "vxcurve"}
			cc.mark = func() { marked = len(w.pwmWrites()) }
			curves.RegisterSpeedCurve(cc)
			ctl := controller.NewFanController(persistenceFor(w.dbPath), fan, control_loop.NewDirectControlLoop(nil), configuration.CurrentConfig.ControllerAdjustmentTickRate)
			ctx, cancel := context.WithCancel(context.Background())
			done := make(chan error, 1)
			if w.flakyRead > 0 && w.dev.Pwm != "" {
				// one transient read failure of the PWM file: the k-th read after the controller started fails, all others work
				n, k, pwmPath := 0, w.flakyRead, w.dev.Pwm
				w.fs.Intercept = func(kind, path string, value int) *env.Result {
					if kind == "read" && path == pwmPath {
						n++
						if n == k {
							return &env.Result{Val: -1, Err: env.ErrIO}
						}
					}
					return nil
				}
				defer func() { w.fs.Intercept = nil }()
			}
			go func() { done <- ctl.Run(ctx) }()
			deadline := time.Now().Add(2 * time.Hour)
			for cc.Evals < 3 && time.Now().Before(deadline) {
				select {
				case err := <-done:
					if err != nil {
						o.Err = "Run: " + err.Error()
					} else {
						o.Err = "Run returned before regulation"
					}
					cancel()
					return
				case <-time.After(100*time.Millisecond + 300*time.Microsecond):
				}
			}
			o.RegulatedPwm = w.devPwm()
			cancel()
			if err := <-done; err != nil {
				o.Err = "Run: " + err.Error()
			}
			o.Regulated = cc.Evals > 0
			all := w.pwmWrites()
			if marked >= 0 && marked <= len(all) {
				o.PreRegWrites = all[:marked]
			} else {
				o.PreRegWrites = all
			}
		})
		if p != "" {
			o.Err = "panic: " + p
		}
	})
	o.Sweep, o.Measure = vxClassify(o.PreRegWrites)
	return
}

func vxGuardC15(fn func()) (p string) {
	defer func() {
		if r := recover(); r != nil {
			p = fmt.Sprintf("%v", r)
			if p == "" {
				p = "ui.Fatal"
			}
		}
	}()
	fn()
	return
}

// the real `fan reset` / `fan init` cobra commands
func (w *vxC15World) command(t *testing.T, which string, id string) (o vxC15Obs) {
	w.clearLog()
	synctest.Test(t, func(t *testing.T) {
		p := vxGuardC15(func() {
			viper.Reset()
			configuration.InitConfig(w.cfgPath)
			prometheus.DefaultRegisterer = prometheus.NewRegistry()
			fanId = id
			var err error
			if which == "reset" {
				err = resetCmd.RunE(resetCmd, nil)
			} else {
				err = initCmd.RunE(initCmd, nil)
			}
			if err != nil {
				o.Err = which + ": " + err.Error()
			}
		})
		if p != "" {
			o.Err = "panic: " + p
		}
	})
	o.PreRegWrites = w.pwmWrites()
	o.Sweep, o.Measure = vxClassify(o.PreRegWrites)
	return
}

type vxC15Model struct{ HasCurve, HasMap bool }

func vxC15Run(t *testing.T, cfg vxC15Cfg, ops []string, fs *env.FS, scratch string, rep *mc.Report) (key string, viol []mc.Violation, last vxC15Obs) {
	fs.Reset()
	w := vxC15NewWorld(cfg, fs, scratch)
	defer os.RemoveAll(w.dir)
	m := vxC15Model{}
	bad := func(i int, sig, msg string, o vxC15Obs) {
		if i != len(ops)-1 {
			return
		}
		pre := o.PreRegWrites
		if len(pre) > 24 {
			pre = append(append([]int{}, pre[:12]...), pre[len(pre)-12:]...)
		}
		viol = append(viol, mc.Violation{Property: "C15", Signature: sig, Detail: fmt.Sprintf("%s\nconfig: %s\nsequence: %v (violation at step %d)\nPWM writes before the first regulation cycle: %d (head/tail %v) sweep=%v measurement=%v err=%q", msg, cfg, ops, i+1, len(o.PreRegWrites), pre, o.Sweep, o.Measure, o.Err), Replay: vxC15Case{cfg, ops}})
	}
	for i, op := range ops {
		var o vxC15Obs
		switch op {
		case "start", "start-locked", "start-flaky1", "start-flaky2", "start-flaky3", "start-flaky4":
			if op == "start-locked" {
				o = w.start(t, 5*time.Second)
			} else {
				w.flakyRead = 0
				if strings.HasPrefix(op, "start-flaky") {
					w.flakyRead = int(op[len(op)-1] - '0')
				}
				o = w.start(t, 0)
				w.flakyRead = 0
			}
			if o.Err != "" {
				if strings.HasPrefix(op, "start-flaky") {
					// the injected read failure hit a step that needs the value (e.g. the analysis of a fan without stored data):
					// giving up on this start is not a statement about reuse of stored data (what happens then is C09's subject)
					rep.Count("starts with a failing PWM read that fan2go gave up on", 1)
					break
				}
				bad(i, "C15 start failed", o.Err, o)
				break
			}
			if (m.HasCurve || cfg.NoRpm) && (m.HasMap || w.confMap) && len(o.PreRegWrites) > 0 {
				bad(i, "C15 start with stored characterisation still writes PWM before regulation ("+kindOf(o)+")", "both the RPM curve and the PWM map were stored (or the map is configured), yet the fan was driven before the first regulation cycle", o)
			}
			if w.confMap && o.Sweep {
				bad(i, "C15 configured pwmMap but the fan was swept", "a pwmMap given in the configuration must be used as is", o)
			}
			wantPwm := 128 // curve value 100 -> request 100 (96 with minPwm 30 / maxPwm 200) -> nearest configured input 64 -> output 128
			if cfg.SingleStep {
				wantPwm = 255
			}
			if w.confMap && o.Regulated && o.RegulatedPwm != wantPwm {
				bad(i, "C15 configured pwmMap not used as is", fmt.Sprintf("with the configured pwmMap and curve value 100 the fan must be at %d while regulating, but it is at %d", wantPwm, o.RegulatedPwm), o)
			}
			if cfg.MinMax && o.Measure {
				bad(i, "C15 rpm-curve measurement although minPwm and maxPwm are configured", "README: with minPwm and maxPwm configured the initialization phase is skipped", o)
			}
			m.HasCurve = true
			if !w.confMap {
				m.HasMap = true
			}
		case "togglemap":
			// the user adds / removes the pwmMap of vxfan in the configuration file (no reset, no init)
			w.confMap = !w.confMap
			w.writeConfig()
		case "reset-other":
			o = w.command(t, "reset", "afan")
			if o.Err != "" {
				bad(i, "C15 fan reset of another fan failed", o.Err, o)
			}
		case "reset":
			o = w.command(t, "reset", "vxfan")
			if o.Err != "" {
				bad(i, "C15 fan reset failed", o.Err, o)
			}
			m = vxC15Model{}
		case "init":
			o = w.command(t, "init", "vxfan")
			if o.Err != "" {
				bad(i, "C15 fan init failed", o.Err, o)
			}
			m = vxC15Model{HasCurve: !cfg.NoRpm, HasMap: true} // without an RPM source `fan init` stores the PWM map only
		}
		hc, hm, _ := vxDbState(w.dbPath)
		if op == "reset" && (hc || hm) {
			bad(i, "C15 fan reset left stored data behind", fmt.Sprintf("hasCurve=%v hasMap=%v", hc, hm), o)
		}
		if (strings.HasPrefix(op, "start") || op == "init") && o.Err == "" && ((!hc && !(op == "init" && cfg.NoRpm)) || (!hm && !w.confMap)) {
			bad(i, "C15 characterisation not stored after "+op, fmt.Sprintf("hasCurve=%v hasMap=%v", hc, hm), o)
		}
		if (op == "reset-other" || op == "togglemap") && (hc != m.HasCurve || (m.HasMap && !hm)) {
			bad(i, "C15 stored data of the fan changed by "+op, fmt.Sprintf("model hasCurve=%v hasMap=%v, database hasCurve=%v hasMap=%v", m.HasCurve, m.HasMap, hc, hm), o)
		}
		last = o
	}
	hc, hm, dump := vxDbState(w.dbPath)
	key = fmt.Sprintf("confMap=%v curve=%v map=%v db=%s", w.confMap, hc, hm, dump)
	return
}

func kindOf(o vxC15Obs) string {
	switch {
	case o.Sweep && o.Measure:
		return "sweep+measurement"
	case o.Sweep:
		return "sweep"
	case o.Measure:
		return "measurement"
	}
	return "other writes"
}

func TestVX_C15(t *testing.T) {
	rep := mc.NewReport("C15", "cmd/fan start-reset-init")
	defer rep.Write()
	fs := env.New()
	defer fs.Close()
	scratch, err := os.MkdirTemp("/dev/shm", "verif-c15-")
	if err != nil {
		panic(err)
	}
	defer os.RemoveAll(scratch)
	var rc vxC15Case
	if mc.ReplayCase(&rc) {
		for n := 1; n <= len(rc.Ops); n++ {
			_, viol, _ := vxC15Run(t, rc.Cfg, rc.Ops[:n], fs, scratch, rep)
			for _, v := range viol {
				rep.Violate(v)
			}
		}
		rep.Evaluations = int64(len(rc.Ops))
		return
	}
	alpha := []string{"start", "reset", "init", "togglemap", "reset-other", "start-locked"}
	var cfgs []vxC15Cfg
	for _, k := range []string{"hwmon", "file", "cmd"} {
		for _, cm := range []bool{false, true} {
			for _, mm := range []bool{false, true} {
				if k != "hwmon" && mm && !mc.Thorough() {
					continue
				}
				cfgs = append(cfgs, vxC15Cfg{Kind: k, ConfMap: cm, MinMax: mm})
				if k != "hwmon" && !mm && (k == "file" || !cm) {
					cfgs = append(cfgs, vxC15Cfg{Kind: k, ConfMap: cm, MinMax: mm, NoRpm: true})
				}
				if k == "hwmon" && !mm {
					// a fan with a single distinct PWM step (one-entry pwmMap; toggled in by 'togglemap' when cm is false)
					cfgs = append(cfgs, vxC15Cfg{Kind: k, ConfMap: cm, MinMax: mm, SingleStep: true})
				}
			}
		}
	}
	depth := 3
	if mc.Thorough() {
		depth = 5
	}
	for ci, cfg := range cfgs {
		if !mc.Mine(ci) {
			continue
		}
		d := depth
		if cfg.Kind == "cmd" && !mc.Thorough() {
			d = 2
		}
		alpha := alpha
		if cfg.Kind != "cmd" {
			// starts during which one read of the PWM file fails (the 1st..4th read after the controller started)
			alpha = append(append([]string{}, alpha...), "start-flaky1", "start-flaky2", "start-flaky3", "start-flaky4")
		}
		st := mc.BFS(rep, mc.BFSOpts{NSym: len(alpha), MaxDepth: d, Deadline: mc.Deadline(80*time.Second, 13*time.Minute)}, func(path []int) (string, []mc.Violation) {
			ops := make([]string, len(path))
			for i, p := range path {
				ops[i] = alpha[p]
			}
			key, viol, last := vxC15Run(t, cfg, ops, fs, scratch, rep)
			rep.Evaluations++
			if len(ops) == 2 && ops[0] == "start" && ops[1] == "start" {
				b, _ := json.Marshal(map[string]any{"config": cfg.String(), "sequence": ops, "pwm_writes_before_regulation_in_last_start": len(last.PreRegWrites), "sweep": last.Sweep, "measurement": last.Measure, "db": key})
				rep.Sample(json.RawMessage(b))
			}
			return key, viol
		})
		rep.Configs++
		rep.States += int64(st.States)
		rep.Transitions += st.Transitions
		rep.AddDistinct(int64(st.States))
		if !st.Closed {
			rep.Cap(fmt.Sprintf("depth %d reached without closing for %s", d, cfg))
		}
	}
	rep.Note("state = logical content of the bbolt database (both buckets) after the sequence; every operation is the real CLI command / start-up path; successors by replaying the sequence on a fresh database")
}
