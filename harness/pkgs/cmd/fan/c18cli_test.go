package fan

// C18 at the `fan2go fan ...` sub-commands: they load the configuration themselves (getFan) and then run the
// cmd fan's executables; a configuration file that is not root-controlled must be refused before anything runs.
// One OS process per case (the refusal path ends in os.Exit).

import (
	"fmt"
	"os"
	"os/exec"
	"path/filepath"
	"testing"

	"github.com/markusressel/fan2go/internal/configuration"
	"github.com/markusressel/fan2go/internal/verifshim/mc"
	"github.com/md14454/gosensors"
)

type vxCliCase struct {
	Sub   string      `json:"sub"` // speed | rpm
	Uid   int         `json:"uid"`
	Gid   int         `json:"gid"`
	Mode  os.FileMode `json:"mode"`
	Allow bool        `json:"allow"`
}

func (c vxCliCase) String() string {
	return fmt.Sprintf("fan2go fan --id vxfan %s, config owner %d:%d mode %04o", c.Sub, c.Uid, c.Gid, c.Mode)
}

func TestVX_C18cliChild(t *testing.T) {
	cfg := os.Getenv("VX_CLI_CFG")
	if cfg == "" {
		t.Skip("child only")
	}
	gosensors.VerifSetSpec(nil)
	configuration.InitConfig(cfg) // cobra.OnInitialize
	fanId = "vxfan"
	var err error
	switch os.Getenv("VX_CLI_SUB") {
	case "rpm":
		err = rpmCmd.RunE(rpmCmd, nil)
	default:
		err = speedCmd.RunE(speedCmd, nil)
	}
	if err != nil {
		os.Exit(4)
	}
	os.Exit(0)
}

func vxCliRun(scratch string, c vxCliCase, id int) (executed bool, exit int, out string) {
	dir := filepath.Join(scratch, fmt.Sprintf("cli%d", id))
	os.MkdirAll(dir, 0755)
	defer os.RemoveAll(dir)
	marker := filepath.Join(dir, "marker")
	get := filepath.Join(dir, "get.sh")
	os.WriteFile(get, []byte("#!/bin/sh\necho ran >> "+marker+"\necho 123\n"), 0755)
	yaml := fmt.Sprintf("dbPath: %s\nsensors:\n  - id: s1\n    file:\n      path: %s\ncurves:\n  - id: c1\n    linear:\n      sensor: s1\n      min: 40\n      max: 80\nfans:\n  - id: vxfan\n    curve: c1\n    cmd:\n      setPwm:\n        exec: %s\n        args: [\"%%pwm%%\"]\n      getPwm:\n        exec: %s\n      getRpm:\n        exec: %s\n",
		filepath.Join(dir, "fan2go.db"), filepath.Join(dir, "temp"), get, get, get)
	os.WriteFile(filepath.Join(dir, "temp"), []byte("50000"), 0644)
	cfg := filepath.Join(dir, "fan2go.yaml")
	os.WriteFile(cfg, []byte(yaml), 0644)
	os.Chown(cfg, c.Uid, c.Gid)
	os.Chmod(cfg, c.Mode)
	cmd := exec.Command(os.Args[0], "-test.run", "^TestVX_C18cliChild$", "-test.timeout", "60s")
	cmd.Env = append(os.Environ(), "VX_CLI_CFG="+cfg, "VX_CLI_SUB="+c.Sub, "VERIF_OUT=")
	cmd.Dir = dir
	b, err := cmd.CombinedOutput()
	if ee, ok := err.(*exec.ExitError); ok {
		exit = ee.ExitCode()
	}
	_, merr := os.Stat(marker)
	return merr == nil, exit, string(b)
}

func TestVX_C18cli(t *testing.T) {
	rep := mc.NewReport("C18", "cmd/fan CLI call sites")
	defer rep.Write()
	scratch, err := os.MkdirTemp("/dev/shm", "verif-c18cli-")
	if err != nil {
		panic(err)
	}
	os.Chmod(scratch, 0755)
	defer os.RemoveAll(scratch)
	var rc vxCliCase
	var cases []vxCliCase
	if mc.ReplayCase(&rc) {
		if rc.Sub == "" {
			return
		}
		cases = []vxCliCase{rc}
	} else {
		for _, sub := range []string{"speed", "rpm"} {
			cases = append(cases,
				vxCliCase{sub, 0, 0, 0644, true}, vxCliCase{sub, 0, 1234, 0640, true},
				vxCliCase{sub, 0, 0, 0666, false}, vxCliCase{sub, 1234, 0, 0644, false}, vxCliCase{sub, 0, 1234, 0664, false}, vxCliCase{sub, 1234, 1234, 0600, false})
		}
	}
	for i, c := range cases {
		if !mc.Mine(i) {
			continue
		}
		executed, exit, out := vxCliRun(scratch, c, i)
		rep.Evaluations++
		rep.Outcome(fmt.Sprintf("%s executed=%v", c, executed))
		switch {
		case !c.Allow && executed:
			rep.Violate(mc.Violation{Signature: "C18 `fan2go fan` sub-command ran the commands of a config file that is not root-controlled",
				Detail: fmt.Sprintf("%s: the cmd fan's getPwm/getRpm executable was run (exit %d)", c, exit), Replay: c})
		case c.Allow && !executed:
			rep.Violate(mc.Violation{Signature: "C18 harness: allowed configuration did not run its command (fan CLI)",
				Detail: fmt.Sprintf("%s: exit %d output tail: %s", c, exit, tailC18(out, 600)), Replay: c})
		default:
			if i%4 == 0 {
				rep.Sample(map[string]any{"case": c.String(), "command_executed": executed, "exit": exit})
			}
		}
	}
	rep.Note("real `fan2go fan --id <fan> speed|rpm` sub-commands (getFan -> Validate -> cmd fan commands), one process per case; marker file written by the fan's command is the execution witness")
}

func tailC18(s string, n int) string {
	if len(s) > n {
		return s[len(s)-n:]
	}
	return s
}
