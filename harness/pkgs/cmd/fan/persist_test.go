package fan

import "github.com/markusressel/fan2go/internal/persistence"

func persistenceFor(path string) persistence.Persistence { return persistence.NewPersistence(path) }
