package cmd

// C18 at the daemon's own call site (cmd/root.go): a configuration file that declares a command sensor
// is only honoured when the FILE THAT WAS ACTUALLY LOADED is root-controlled — with an explicit --config
// path and with an auto-detected ./fan2go.yaml alike. One OS process per case; the real rootCmd.Run
// (-> Validate -> RunDaemon) runs in a virtual-time bubble and the sensor command leaves a marker file.

import (
	"fmt"
	"os"
	"os/exec"
	"path/filepath"
	"testing"
	"testing/synctest"
	"time"

	"github.com/markusressel/fan2go/cmd/global"
	"github.com/markusressel/fan2go/internal/configuration"
	"github.com/markusressel/fan2go/internal/verifshim/mc"
	"github.com/md14454/gosensors"
	"github.com/pterm/pterm"
)

func init() {
	pterm.DisableOutput()
	os.Unsetenv("DISPLAY")
}

type vxRootCase struct {
	How   string      `json:"how"` // explicit | auto
	Uid   int         `json:"uid"`
	Gid   int         `json:"gid"`
	Mode  os.FileMode `json:"mode"`
	Allow bool        `json:"allow"`
}

func (c vxRootCase) String() string {
	return fmt.Sprintf("config %s, owner %d:%d mode %04o", c.How, c.Uid, c.Gid, c.Mode)
}

func TestVX_C18rootChild(t *testing.T) {
	dir := os.Getenv("VX_ROOT_DIR")
	if dir == "" {
		t.Skip("child only")
	}
	if err := os.Chdir(dir); err != nil {
		panic(err)
	}
	gosensors.VerifSetSpec(nil)
	global.CfgFile = ""
	if os.Getenv("VX_ROOT_HOW") == "explicit" {
		global.CfgFile = filepath.Join(dir, "fan2go.yaml")
	}
	synctest.Test(t, func(t *testing.T) {
		// what cobra.OnInitialize does before rootCmd.Run
		configuration.InitConfig(global.CfgFile)
		go func() {
			time.Sleep(4 * time.Second)
			os.Exit(0)
		}()
		rootCmd.Run(rootCmd, nil)
		// Run returned: the configuration was rejected
		os.Exit(3)
	})
}

func vxRootRun(scratch string, c vxRootCase, id int) (executed bool, exit int, out string) {
	dir := filepath.Join(scratch, fmt.Sprintf("case%d", id))
	os.MkdirAll(dir, 0755)
	defer os.RemoveAll(dir)
	marker := filepath.Join(dir, "marker")
	script := filepath.Join(dir, "sensor.sh")
	os.WriteFile(script, []byte("#!/bin/sh\necho ran >> "+marker+"\necho 42000\n"), 0755)
	os.WriteFile(filepath.Join(dir, "pwm"), []byte("100"), 0644)
	yaml := fmt.Sprintf("dbPath: %s\nsensors:\n  - id: s1\n    cmd:\n      exec: %s\ncurves:\n  - id: c1\n    linear:\n      sensor: s1\n      min: 40\n      max: 80\nfans:\n  - id: f1\n    curve: c1\n    file:\n      path: %s\n",
		filepath.Join(dir, "fan2go.db"), script, filepath.Join(dir, "pwm"))
	cfg := filepath.Join(dir, "fan2go.yaml")
	os.WriteFile(cfg, []byte(yaml), 0644)
	os.Chown(cfg, c.Uid, c.Gid)
	os.Chmod(cfg, c.Mode)
	cmd := exec.Command(os.Args[0], "-test.run", "^TestVX_C18rootChild$", "-test.timeout", "60s")
	cmd.Env = append(os.Environ(), "VX_ROOT_DIR="+dir, "VX_ROOT_HOW="+c.How, "VERIF_OUT=", "HOME="+filepath.Join(dir, "nohome"))
	cmd.Dir = dir
	b, err := cmd.CombinedOutput()
	if ee, ok := err.(*exec.ExitError); ok {
		exit = ee.ExitCode()
	}
	_, merr := os.Stat(marker)
	return merr == nil, exit, string(b)
}

func TestVX_C18root(t *testing.T) {
	rep := mc.NewReport("C18", "cmd/root call site")
	defer rep.Write()
	scratch, err := os.MkdirTemp("/dev/shm", "verif-c18root-")
	if err != nil {
		panic(err)
	}
	os.Chmod(scratch, 0755)
	defer os.RemoveAll(scratch)
	var rc vxRootCase
	var cases []vxRootCase
	if mc.ReplayCase(&rc) {
		cases = []vxRootCase{rc}
	} else {
		for _, how := range []string{"explicit", "auto"} {
			cases = append(cases,
				vxRootCase{how, 0, 0, 0644, true}, vxRootCase{how, 0, 0, 0600, true}, vxRootCase{how, 0, 1234, 0640, true},
				vxRootCase{how, 0, 0, 0666, false}, vxRootCase{how, 0, 0, 0646, false}, vxRootCase{how, 1234, 0, 0644, false},
				vxRootCase{how, 0, 1234, 0664, false}, vxRootCase{how, 1234, 1234, 0600, false})
		}
	}
	for i, c := range cases {
		if !mc.Mine(i) {
			continue
		}
		executed, exit, out := vxRootRun(scratch, c, i)
		rep.Evaluations++
		rep.Outcome(fmt.Sprintf("%s executed=%v", c, executed))
		switch {
		case !c.Allow && executed:
			rep.Violate(mc.Violation{Signature: "C18 daemon start: command of a config file that is not root-controlled was executed (" + c.How + " config)",
				Detail: fmt.Sprintf("%s: fan2go accepted the configuration and executed its sensor command (exit %d)", c, exit), Replay: c})
		case c.Allow && !executed:
			rep.Violate(mc.Violation{Signature: "C18 harness: allowed configuration did not run its command (" + c.How + " config)",
				Detail: fmt.Sprintf("%s: exit %d output tail: %s", c, exit, tailStr(out, 600)), Replay: c})
		default:
			if i%5 == 0 {
				rep.Sample(map[string]any{"case": c.String(), "command_executed": executed, "exit": exit})
			}
		}
	}
	rep.Note("daemon start-up through the real rootCmd.Run with an explicit --config path and with an auto-detected ./fan2go.yaml (cwd root-owned 0755); marker file written by the sensor command is the execution witness")
}

func tailStr(s string, n int) string {
	if len(s) > n {
		return s[len(s)-n:]
	}
	return s
}
