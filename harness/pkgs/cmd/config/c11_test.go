package config

// C11 "A configuration that validates can be run".
//
// Every case is a generated YAML document taken through the calls `fan2go config validate`
// makes (viper.Reset, configuration.InitConfig(path), DetectAndReadConfigFile, LoadConfig,
// Validate(path)), in-process. The oracle is an independent reference validity predicate on the
// ABSTRACT configuration the YAML was rendered from:
//
//	(i)  accepted  =>  reference-valid, internal.InitializeObjects() succeeds and every curve
//	     evaluates for 3 sensor value assignments without panic / endless recursion
//	(ii) built only from documented forms and reference-valid  =>  accepted
//
// Accepted-but-reference-invalid configurations (possible endless recursion = fatal stack
// overflow) are instantiated in a child process (re-exec of this binary, TestVX_C11_child).

import (
	"bytes"
	"encoding/json"
	"fmt"
	"os"
	"os/exec"
	"path/filepath"
	"runtime/debug"
	"sort"
	"strings"
	"testing"
	"time"

	"github.com/markusressel/fan2go/internal"
	"github.com/markusressel/fan2go/internal/configuration"
	"github.com/markusressel/fan2go/internal/curves"
	"github.com/markusressel/fan2go/internal/sensors"
	"github.com/markusressel/fan2go/internal/verifshim/mc"
	"github.com/md14454/gosensors"
	"github.com/prometheus/client_golang/prometheus"
	"github.com/pterm/pterm"
	"github.com/spf13/viper"
)

func init() {
	pterm.DisableOutput()
	os.Unsetenv("DISPLAY")
}

// ---------------------------------------------------------------- abstract configuration

type vxSensor struct {
	ID    string   `json:"id"`
	NoID  bool     `json:"noId,omitempty"`  // `id:` key missing
	Kinds []string `json:"kinds"`           // back-ends in emitted order: hwmon | hwmon2 | hwmon3 | file | cmd
	Plat  string   `json:"plat,omitempty"`  // hwmon platform override
	Index int      `json:"index,omitempty"` // hwmon index override
}

type vxCurve struct {
	ID       string   `json:"id"`
	NoID     bool     `json:"noId,omitempty"`
	Kinds    []string `json:"kinds"` // linear | pid | function
	Sensor   string   `json:"sensor,omitempty"`
	NoSensor bool     `json:"noSensor,omitempty"` // `sensor:` key missing
	Steps    string   `json:"steps,omitempty"`    // minmax | list | map | single-list | single-map | empty-map | empty-list | null | none | list+minmax
	FType    string   `json:"ftype,omitempty"`    // function type ("" = `type:` key missing)
	Members  []string `json:"members,omitempty"`
	MForm    string   `json:"mform,omitempty"` // block | flow | empty-flow | missing | null
}

type vxFan struct {
	ID      string   `json:"id"`
	NoID    bool     `json:"noId,omitempty"`
	Kinds   []string `json:"kinds"` // hwmon-rpm | hwmon-rpm-pwm | hwmon-index | file | file-rpm | cmd | cmd-rpm
	Curve   string   `json:"curve,omitempty"`
	NoCurve bool     `json:"noCurve,omitempty"` // `curve:` key missing
	Algo    string   `json:"algo,omitempty"`
	Opts    bool     `json:"opts,omitempty"` // neverStop, minPwm, startPwm, maxPwm, pwmMap
}

type vxCase struct {
	Idx        int        `json:"idx"`
	Family     string     `json:"family"`
	Desc       string     `json:"desc"`
	Sensors    []vxSensor `json:"sensors"`
	Curves     []vxCurve  `json:"curves"`
	Fans       []vxFan    `json:"fans"`
	Documented bool       `json:"documented"`     // built only from forms shown in README.md / fan2go.yaml
	Raw        string     `json:"raw,omitempty"`  // verbatim document (shipped fan2go.yaml); reference-valid by inspection
	Yaml       string     `json:"yaml,omitempty"` // rendered text (informational)
}

// ---------------------------------------------------------------- reference validity predicate

// vxRefValid is the independent reference: unique ids, exactly one back-end per entry, all
// sensor/curve references resolvable, curve graph acyclic (no self reference).
// Returns "" when valid, otherwise the class of the first defect in a fixed priority order.
func vxRefValid(c *vxCase) string {
	if c.Raw != "" {
		return ""
	}
	sid := map[string]int{}
	for _, s := range c.Sensors {
		sid[s.ID]++
	}
	cid := map[string]int{}
	for _, k := range c.Curves {
		cid[k.ID]++
	}
	fid := map[string]int{}
	for _, f := range c.Fans {
		fid[f.ID]++
	}
	for _, n := range sid {
		if n > 1 {
			return "duplicate sensor id"
		}
	}
	for _, n := range cid {
		if n > 1 {
			return "duplicate curve id"
		}
	}
	for _, n := range fid {
		if n > 1 {
			return "duplicate fan id"
		}
	}
	one := func(kind string, n int) string {
		if n == 0 {
			return kind + " without back-end"
		}
		if n > 1 {
			return kind + " with several back-ends"
		}
		return ""
	}
	for _, s := range c.Sensors {
		if r := one("sensor", len(s.Kinds)); r != "" {
			return r
		}
	}
	for _, k := range c.Curves {
		if r := one("curve", len(k.Kinds)); r != "" {
			return r
		}
	}
	for _, f := range c.Fans {
		if r := one("fan", len(f.Kinds)); r != "" {
			return r
		}
	}
	succ := map[string][]string{}
	for _, k := range c.Curves {
		switch k.Kinds[0] {
		case "linear", "pid":
			if k.NoSensor || k.Sensor == "" || sid[k.Sensor] == 0 {
				return "unresolvable sensor reference"
			}
		case "function":
			for _, m := range k.Members {
				if cid[m] == 0 {
					return "unresolvable curve reference"
				}
			}
			succ[k.ID] = k.Members
		}
	}
	for _, f := range c.Fans {
		if f.NoCurve || f.Curve == "" || cid[f.Curve] == 0 {
			return "unresolvable curve reference"
		}
	}
	for id, ms := range succ {
		for _, m := range ms {
			if m == id {
				return "curve self-reference"
			}
		}
	}
	// cycle: depth-first search, colours 0 white 1 grey 2 black
	col := map[string]int{}
	var visit func(string) bool
	visit = func(n string) bool {
		col[n] = 1
		for _, m := range succ[n] {
			if col[m] == 1 || (col[m] == 0 && visit(m)) {
				return true
			}
		}
		col[n] = 2
		return false
	}
	ids := make([]string, 0, len(succ))
	for id := range succ {
		ids = append(ids, id)
	}
	sort.Strings(ids)
	for _, id := range ids {
		if col[id] == 0 && visit(id) {
			return "curve cycle"
		}
	}
	return ""
}

// vxPanicClass names the configuration class responsible for a panic while evaluating curve id
// (looked up in the abstract configuration, following function members).
func vxPanicClass(c *vxCase, id string) string {
	byID := map[string]*vxCurve{}
	for i := range c.Curves {
		byID[c.Curves[i].ID] = &c.Curves[i]
	}
	seen := map[string]bool{}
	var walk func(string) string
	walk = func(n string) string {
		if seen[n] {
			return ""
		}
		seen[n] = true
		k := byID[n]
		if k == nil || len(k.Kinds) != 1 {
			return ""
		}
		switch k.Kinds[0] {
		case "function":
			if len(k.Members) == 0 {
				return "function curve without members"
			}
			for _, m := range k.Members {
				if r := walk(m); r != "" {
					return r
				}
			}
		case "linear":
			if strings.HasPrefix(k.Steps, "empty-map") || strings.HasPrefix(k.Steps, "empty-list") {
				return "linear curve with empty steps"
			}
		}
		return ""
	}
	if r := walk(id); r != "" {
		return r
	}
	return "configuration"
}

// ---------------------------------------------------------------- fixtures (files, scripts, chips)

type vxFix struct {
	Dir                                 string
	SensorFile, FanFile, FanRpm, CmdVal string
	SensorSh, GetPwmSh, SetPwmSh        string
	GetRpmSh                            string
	TempFiles                           []string
	Yaml                                string
}

var vxF vxFix

func vxMust(err error) {
	if err != nil {
		panic(err)
	}
}

func vxWrite(p, s string, mode os.FileMode) {
	vxMust(os.WriteFile(p, []byte(s), mode))
	vxMust(os.Chmod(p, mode))
}

// vxChipSpecs is the stand-in machine: the chips named in README.md / fan2go.yaml.
func vxChipSpecs(dir string) []gosensors.ChipSpec {
	return []gosensors.ChipSpec{
		{Prefix: "nct6798", BusType: 1, BusNr: 0, Addr: 0x290, Path: filepath.Join(dir, "hwmon0"), Fans: []int{1, 2, 3}, Temps: []int{1, 2, 3}},
		{Prefix: "it8620", BusType: 1, BusNr: 0, Addr: 0xa30, Path: filepath.Join(dir, "hwmon1"), Fans: []int{1, 2, 3, 4, 5}, Temps: []int{1, 2, 3}},
		{Prefix: "coretemp", BusType: 1, BusNr: 0, Addr: 0, Path: filepath.Join(dir, "hwmon2"), Temps: []int{1, 2, 3}},
		{Prefix: "acpitz", BusType: 5, BusNr: 0, Addr: 0, Path: filepath.Join(dir, "hwmon3"), Temps: []int{1}},
	}
}

func vxSetupFixtures(dir string, create bool) {
	vxF = vxFix{Dir: dir,
		SensorFile: filepath.Join(dir, "file_sensor"), FanFile: filepath.Join(dir, "file_fan"), FanRpm: filepath.Join(dir, "file_fan_rpm"),
		CmdVal: filepath.Join(dir, "cmd_value"), SensorSh: filepath.Join(dir, "sensor.sh"), GetPwmSh: filepath.Join(dir, "getpwm.sh"),
		SetPwmSh: filepath.Join(dir, "setpwm.sh"), GetRpmSh: filepath.Join(dir, "getrpm.sh"), Yaml: filepath.Join(dir, "fan2go.yaml")}
	specs := vxChipSpecs(dir)
	for _, s := range specs {
		for _, n := range s.Temps {
			vxF.TempFiles = append(vxF.TempFiles, filepath.Join(s.Path, fmt.Sprintf("temp%d_input", n)))
		}
	}
	gosensors.VerifSetSpec(specs)
	if !create {
		return
	}
	vxMust(os.MkdirAll(dir, 0755))
	vxMust(os.Chmod(dir, 0755))
	for _, s := range specs {
		vxMust(os.MkdirAll(s.Path, 0755))
		for _, n := range s.Fans {
			vxWrite(filepath.Join(s.Path, fmt.Sprintf("fan%d_input", n)), "1200\n", 0644)
			vxWrite(filepath.Join(s.Path, fmt.Sprintf("pwm%d", n)), "100\n", 0644)
			vxWrite(filepath.Join(s.Path, fmt.Sprintf("pwm%d_enable", n)), "2\n", 0644)
		}
	}
	// cmd back-ends: root-owned 0755 scripts (the sandbox runs as root)
	vxWrite(vxF.SensorSh, "#!/bin/sh\ncat "+vxF.CmdVal+"\n", 0755)
	vxWrite(vxF.GetPwmSh, "#!/bin/sh\necho 100\n", 0755)
	vxWrite(vxF.SetPwmSh, "#!/bin/sh\nexit 0\n", 0755)
	vxWrite(vxF.GetRpmSh, "#!/bin/sh\necho 1200\n", 0755)
	vxWrite(vxF.FanFile, "100\n", 0644)
	vxWrite(vxF.FanRpm, "1200\n", 0644)
	vxSetSensorFiles(42000)
}

func vxSetSensorFiles(milli int) {
	s := fmt.Sprintf("%d\n", milli)
	vxWrite(vxF.SensorFile, s, 0644)
	vxWrite(vxF.CmdVal, s, 0644)
	for _, p := range vxF.TempFiles {
		vxWrite(p, s, 0644)
	}
}

func vxScratch() string {
	return fmt.Sprintf("/dev/shm/verif-c11-%d", os.Getpid())
}

// ---------------------------------------------------------------- YAML rendering

func vxRender(c *vxCase) string {
	if c.Raw != "" {
		return c.Raw
	}
	pfx := fmt.Sprintf("k%d_", c.Idx)
	var b strings.Builder
	w := func(format string, a ...any) { fmt.Fprintf(&b, format, a...) }
	idLine := func(first *bool, noID bool, id string) {
		if !noID {
			w("  - id: %s\n", pfx+id)
			*first = false
		}
	}
	// key writes a first-level key of a list entry, taking care of the "- " of an entry without id
	key := func(first *bool, format string, a ...any) {
		if *first {
			w("  - "+format, a...)
			*first = false
		} else {
			w("    "+format, a...)
		}
	}
	if len(c.Fans) > 0 {
		w("fans:\n")
	}
	for _, f := range c.Fans {
		first := true
		idLine(&first, f.NoID, f.ID)
		for _, k := range f.Kinds {
			switch k {
			case "hwmon-rpm":
				key(&first, "hwmon:\n")
				w("      platform: nct6798\n      rpmChannel: 1\n")
			case "hwmon-rpm-pwm":
				key(&first, "hwmon:\n")
				w("      platform: nct6798-isa-0\n      rpmChannel: 2\n      pwmChannel: 2\n")
			case "hwmon-index":
				key(&first, "hwmon:\n")
				w("      platform: it8620\n      index: 4\n")
			case "file":
				key(&first, "file:\n")
				w("      path: %s\n", vxF.FanFile)
			case "file-rpm":
				key(&first, "file:\n")
				w("      path: %s\n      rpmPath: %s\n", vxF.FanFile, vxF.FanRpm)
			case "cmd", "cmd-rpm":
				key(&first, "cmd:\n")
				w("      setPwm:\n        exec: %s\n        args: [ \"--set\", \"%%pwm%%\" ]\n", vxF.SetPwmSh)
				w("      getPwm:\n        exec: %s\n        args: [ \"-a\", \"someargument\" ]\n", vxF.GetPwmSh)
				if k == "cmd-rpm" {
					w("      getRpm:\n        exec: %s\n        args: [ \"-a\", \"someargument\" ]\n", vxF.GetRpmSh)
				}
			default:
				panic("fan kind " + k)
			}
		}
		if f.Opts {
			key(&first, "neverStop: true\n")
			w("    minPwm: 30\n    startPwm: 30\n    maxPwm: 255\n    pwmMap:\n      0: 0\n      64: 128\n      192: 255\n")
		}
		if !f.NoCurve {
			if f.Curve == "" {
				key(&first, "curve: \"\"\n")
			} else {
				key(&first, "curve: %s\n", pfx+f.Curve)
			}
		}
		switch f.Algo {
		case "":
		case "str-direct":
			key(&first, "controlAlgorithm: direct\n")
		case "str-pid":
			key(&first, "controlAlgorithm: pid\n")
		case "direct-max":
			key(&first, "controlAlgorithm:\n")
			w("      direct:\n        maxPwmChangePerCycle: 10\n")
		case "direct-empty":
			key(&first, "controlAlgorithm:\n")
			w("      direct: {}\n")
		case "direct-zero":
			key(&first, "controlAlgorithm:\n")
			w("      direct:\n        maxPwmChangePerCycle: 0\n")
		case "pid-struct":
			key(&first, "controlAlgorithm:\n")
			w("      pid:\n        p: 0.3\n        i: 0.02\n        d: 0.005\n")
		case "pid-zero":
			key(&first, "controlAlgorithm:\n")
			w("      pid:\n        p: 0\n        i: 0\n        d: 0\n")
		case "controlLoop":
			key(&first, "controlLoop:\n")
			w("      p: 0.03\n      i: 0.002\n      d: 0.0005\n")
		case "str-bogus":
			key(&first, "controlAlgorithm: turbo\n")
		default:
			panic("algo " + f.Algo)
		}
		if first {
			w("  - {}\n")
		}
	}
	if len(c.Sensors) > 0 {
		w("sensors:\n")
	}
	for _, s := range c.Sensors {
		first := true
		idLine(&first, s.NoID, s.ID)
		for _, k := range s.Kinds {
			switch k {
			case "hwmon":
				key(&first, "hwmon:\n")
				w("      platform: coretemp\n      index: 1\n")
			case "hwmon2":
				key(&first, "hwmon:\n")
				w("      platform: it8620\n      index: 3\n")
			case "hwmon3":
				key(&first, "hwmon:\n")
				w("      platform: acpitz\n      index: 1\n")
			case "file":
				key(&first, "file:\n")
				w("      path: %s\n", vxF.SensorFile)
			case "cmd":
				key(&first, "cmd:\n")
				w("      exec: %s\n      args: [ '/home/markus/myscript.sh' ]\n", vxF.SensorSh)
			default:
				panic("sensor kind " + k)
			}
		}
		if first {
			w("  - {}\n")
		}
	}
	if len(c.Curves) > 0 {
		w("curves:\n")
	}
	for _, k := range c.Curves {
		first := true
		idLine(&first, k.NoID, k.ID)
		for _, kind := range k.Kinds {
			switch kind {
			case "linear":
				key(&first, "linear:\n")
				if !k.NoSensor {
					w("      sensor: %s\n", pfx+k.Sensor)
				}
				switch k.Steps {
				case "minmax", "":
					w("      min: 40\n      max: 80\n")
				case "list":
					w("      steps:\n        - 40: 0\n        - 50: 50\n        - 80: 255\n")
				case "list+minmax":
					w("      min: 40\n      max: 80\n      steps:\n        - 40: 0\n        - 50: 50\n        - 80: 255\n")
				case "map":
					w("      steps:\n        40: 0\n        50: 50\n        80: 255\n")
				case "single-list":
					w("      steps:\n        - 40: 100\n")
				case "single-map":
					w("      steps:\n        40: 100\n")
				case "empty-map":
					w("      steps: {}\n")
				case "empty-list":
					w("      steps: []\n")
				case "empty-map+minmax":
					w("      min: 40\n      max: 80\n      steps: {}\n")
				case "empty-list+minmax":
					w("      min: 40\n      max: 80\n      steps: []\n")
				case "single-list+minmax":
					w("      min: 40\n      max: 80\n      steps:\n        - 40: 100\n")
				case "null+minmax":
					w("      min: 40\n      max: 80\n      steps:\n")
				case "null":
					w("      steps:\n")
				case "none":
				default:
					panic("steps " + k.Steps)
				}
				if k.NoSensor && (k.Steps == "none" || k.Steps == "null") {
					w("      min: 40\n")
				}
			case "pid":
				key(&first, "pid:\n")
				if !k.NoSensor {
					w("      sensor: %s\n", pfx+k.Sensor)
				}
				w("      setPoint: 60\n      p: -0.05\n      i: -0.005\n      d: -0.005\n")
			case "function":
				key(&first, "function:\n")
				if k.FType != "" {
					w("      type: %s\n", k.FType)
				}
				form := k.MForm
				if form == "" {
					form = "block"
				}
				switch form {
				case "block":
					if len(k.Members) == 0 {
						panic("block form needs members")
					}
					w("      curves:\n")
					for _, m := range k.Members {
						w("        - %s\n", pfx+m)
					}
				case "flow", "empty-flow":
					ms := make([]string, len(k.Members))
					for i, m := range k.Members {
						ms[i] = pfx + m
					}
					w("      curves: [%s]\n", strings.Join(ms, ", "))
				case "null":
					w("      curves:\n")
				case "missing":
					if k.FType == "" {
						b.WriteString("      {}\n")
					}
				default:
					panic("mform " + form)
				}
			default:
				panic("curve kind " + kind)
			}
		}
		if first {
			w("  - {}\n")
		}
	}
	if b.Len() == 0 {
		w("dbPath: %s\n", filepath.Join(vxF.Dir, "fan2go.db"))
	}
	return b.String()
}

// ---------------------------------------------------------------- enumeration

var vxFuncTypes = []string{"minimum", "maximum", "average", "delta", "sum", "difference"}

func vxBaseSensor(kind string) vxSensor { return vxSensor{ID: "s0", Kinds: []string{kind}} }
func vxLin(id, sensor string) vxCurve {
	return vxCurve{ID: id, Kinds: []string{"linear"}, Sensor: sensor, Steps: "minmax"}
}
func vxFileFan(id, curve string) vxFan {
	return vxFan{ID: id, Kinds: []string{"file-rpm"}, Curve: curve}
}

// vxGraphCase renders a digraph on nodes c0..c(n-1): nodes without out-edges are linear curves,
// nodes with out-edges are function curves over their successors.
func vxGraphCase(family, desc string, n int, edges [][]int, variant int) vxCase {
	c := vxCase{Family: family, Desc: desc, Documented: true}
	sk := "file"
	if variant%2 == 1 {
		sk = "hwmon"
	}
	c.Sensors = []vxSensor{vxBaseSensor(sk)}
	for i := 0; i < n; i++ {
		id := fmt.Sprintf("c%d", i)
		if len(edges[i]) == 0 {
			c.Curves = append(c.Curves, vxLin(id, "s0"))
			continue
		}
		var ms []string
		for _, j := range edges[i] {
			ms = append(ms, fmt.Sprintf("c%d", j))
		}
		c.Curves = append(c.Curves, vxCurve{ID: id, Kinds: []string{"function"}, FType: vxFuncTypes[(variant/2+i)%len(vxFuncTypes)], Members: ms, MForm: "block"})
	}
	c.Fans = []vxFan{vxFileFan("f0", "c0")}
	return c
}

func vxEdgesFromList(n int, list [][2]int) [][]int {
	e := make([][]int, n)
	for _, p := range list {
		e[p[0]] = append(e[p[0]], p[1])
	}
	return e
}

// vxEnumerate calls emit for every case of the space, in a fixed order. emit receives a builder so that
// cases of other shards cost nothing.
func vxEnumerate(maxNodes int, emit func(build func() vxCase)) {
	// A. all digraphs (adjacency matrices incl. self-loops) on 1..maxNodes nodes
	for n := 1; n <= maxNodes; n++ {
		total := 1 << uint(n*n)
		for code := 0; code < total; code++ {
			n, code := n, code
			emit(func() vxCase {
				edges := make([][]int, n)
				for i := 0; i < n; i++ {
					for j := 0; j < n; j++ {
						if code&(1<<uint(i*n+j)) != 0 {
							edges[i] = append(edges[i], j)
						}
					}
				}
				return vxGraphCase("digraph", fmt.Sprintf("n=%d adjacency=%#x", n, code), n, edges, code)
			})
		}
	}
	// A5 (thorough). all digraphs WITHOUT self-loops on 5 nodes (2^20 adjacency matrices)
	if maxNodes >= 4 {
		const n = 5
		for code := 0; code < 1<<20; code++ {
			code := code
			emit(func() vxCase {
				edges := make([][]int, n)
				bit := 0
				for i := 0; i < n; i++ {
					for j := 0; j < n; j++ {
						if i == j {
							continue
						}
						if code&(1<<uint(bit)) != 0 {
							edges[i] = append(edges[i], j)
						}
						bit++
					}
				}
				return vxGraphCase("digraph5", fmt.Sprintf("n=5 loop-free adjacency=%#x", code), n, edges, code)
			})
		}
	}
	// B. families on 5..8 nodes
	for n := 5; n <= 8; n++ {
		n := n
		chain := func() [][2]int {
			var l [][2]int
			for i := 0; i+1 < n; i++ {
				l = append(l, [2]int{i, i + 1})
			}
			return l
		}
		for v := 0; v < 2; v++ {
			v := v
			emit(func() vxCase {
				return vxGraphCase("chain", fmt.Sprintf("n=%d chain v%d", n, v), n, vxEdgesFromList(n, chain()), v)
			})
			emit(func() vxCase {
				return vxGraphCase("ring", fmt.Sprintf("n=%d ring v%d", n, v), n, vxEdgesFromList(n, append(chain(), [2]int{n - 1, 0})), v)
			})
			// chain plus one back edge j -> i (i <= j): a cycle of every length 1..n at every position
			// (i=0,j=n-1 is the ring; i>0 is a ring with a tail leading into it)
			for i := 0; i < n; i++ {
				for j := i; j < n; j++ {
					if i == 0 && j == n-1 {
						continue
					}
					i, j := i, j
					emit(func() vxCase {
						return vxGraphCase("ring-with-tail", fmt.Sprintf("n=%d chain + back edge c%d->c%d (cycle length %d) v%d", n, j, i, j-i+1, v), n,
							vxEdgesFromList(n, append(chain(), [2]int{j, i})), v)
					})
				}
			}
			// diamonds: c0 -> {c1..c(n-2)} -> c(n-1)  (acyclic, shared node)
			emit(func() vxCase {
				var l [][2]int
				for m := 1; m <= n-2; m++ {
					l = append(l, [2]int{0, m}, [2]int{m, n - 1})
				}
				return vxGraphCase("diamond", fmt.Sprintf("n=%d diamond v%d", n, v), n, vxEdgesFromList(n, l), v)
			})
			// stacked diamonds: i -> i+1, i -> i+2 (acyclic, exponentially many paths)
			emit(func() vxCase {
				var l [][2]int
				for i := 0; i+1 < n; i++ {
					l = append(l, [2]int{i, i + 1})
					if i+2 < n {
						l = append(l, [2]int{i, i + 2})
					}
				}
				return vxGraphCase("diamond", fmt.Sprintf("n=%d stacked diamonds v%d", n, v), n, vxEdgesFromList(n, l), v)
			})
			// diamond closed into a cycle: the sink references the source
			emit(func() vxCase {
				var l [][2]int
				for m := 1; m <= n-2; m++ {
					l = append(l, [2]int{0, m}, [2]int{m, n - 1})
				}
				l = append(l, [2]int{n - 1, 0})
				return vxGraphCase("diamond", fmt.Sprintf("n=%d diamond with back edge v%d", n, v), n, vxEdgesFromList(n, l), v)
			})
			// chain whose last function references a curve that does not exist
			emit(func() vxCase {
				c := vxGraphCase("chain", fmt.Sprintf("n=%d chain with dangling reference v%d", n, v), n, vxEdgesFromList(n, chain()), v)
				c.Curves[n-2].Members = append(c.Curves[n-2].Members, "nope")
				return c
			})
		}
	}
	// C. function types x member counts / list forms
	ftypes := append(append([]string{}, vxFuncTypes...), "median", "")
	type mf struct {
		n    int
		form string
	}
	mforms := []mf{{0, "empty-flow"}, {0, "missing"}, {0, "null"}, {1, "block"}, {1, "flow"}, {2, "block"}, {2, "flow"}, {3, "block"}, {3, "flow"}}
	for _, ft := range ftypes {
		for _, m := range mforms {
			for nested := 0; nested < 2; nested++ {
				ft, m, nested := ft, m, nested
				emit(func() vxCase {
					c := vxCase{Family: "function", Desc: fmt.Sprintf("type=%q members=%d form=%s nested=%d", ft, m.n, m.form, nested)}
					c.Sensors = []vxSensor{{ID: "s0", Kinds: []string{"file"}}, {ID: "s1", Kinds: []string{"hwmon"}}, {ID: "s2", Kinds: []string{"hwmon2"}}}
					c.Curves = []vxCurve{vxLin("l0", "s0"), vxLin("l1", "s1"), vxLin("l2", "s2")}
					c.Curves[1].Steps = "list"
					f := vxCurve{ID: "fn", Kinds: []string{"function"}, FType: ft, MForm: m.form}
					for i := 0; i < m.n; i++ {
						f.Members = append(f.Members, fmt.Sprintf("l%d", i))
					}
					c.Curves = append(c.Curves, f)
					top := "fn"
					if nested == 1 {
						c.Curves = append(c.Curves, vxCurve{ID: "outer", Kinds: []string{"function"}, FType: "maximum", Members: []string{"fn", "l2"}, MForm: "block"})
						top = "outer"
					}
					c.Fans = []vxFan{vxFileFan("f0", top)}
					c.Documented = m.n >= 1 && ft != "median" && ft != ""
					return c
				})
			}
		}
	}
	// D. step list forms x sensor kinds
	for _, st := range []string{"minmax", "list", "list+minmax", "map", "single-list", "single-map", "empty-map", "empty-list", "null", "none",
		"empty-map+minmax", "empty-list+minmax", "single-list+minmax", "null+minmax"} {
		for _, sk := range []string{"hwmon", "file", "cmd"} {
			for nested := 0; nested < 2; nested++ {
				st, sk, nested := st, sk, nested
				emit(func() vxCase {
					c := vxCase{Family: "steps", Desc: fmt.Sprintf("steps=%s sensor=%s nested=%d", st, sk, nested)}
					c.Sensors = []vxSensor{vxBaseSensor(sk)}
					l := vxLin("c0", "s0")
					l.Steps = st
					c.Curves = []vxCurve{l}
					top := "c0"
					if nested == 1 {
						c.Curves = append(c.Curves, vxLin("c1", "s0"), vxCurve{ID: "avg", Kinds: []string{"function"}, FType: "average", Members: []string{"c0", "c1"}, MForm: "block"})
						top = "avg"
					}
					c.Fans = []vxFan{vxFileFan("f0", top)}
					c.Documented = st == "minmax" || st == "list"
					return c
				})
			}
		}
	}
	// E. duplicate / missing ids
	for _, what := range []string{"sensor", "curve", "fan"} {
		for _, mode := range []string{"duplicate", "duplicate-referenced", "one-missing", "two-missing", "empty-string-like-missing"} {
			what, mode := what, mode
			emit(func() vxCase {
				c := vxCase{Family: "ids", Desc: what + " " + mode}
				c.Sensors = []vxSensor{vxBaseSensor("file"), {ID: "s1", Kinds: []string{"hwmon"}}}
				c.Curves = []vxCurve{vxLin("c0", "s0"), vxLin("c1", "s1")}
				c.Fans = []vxFan{vxFileFan("f0", "c0"), {ID: "f1", Kinds: []string{"hwmon-rpm"}, Curve: "c1"}}
				switch what + " " + mode {
				case "sensor duplicate":
					c.Sensors = append(c.Sensors, vxSensor{ID: "s1", Kinds: []string{"file"}})
				case "sensor duplicate-referenced":
					c.Sensors[1].ID = "s0"
					c.Curves[1].Sensor = "s0"
				case "sensor one-missing":
					c.Sensors = append(c.Sensors, vxSensor{NoID: true, Kinds: []string{"file"}})
				case "sensor two-missing":
					c.Sensors = append(c.Sensors, vxSensor{NoID: true, Kinds: []string{"file"}}, vxSensor{NoID: true, Kinds: []string{"hwmon"}})
				case "sensor empty-string-like-missing":
					c.Sensors[1].NoID, c.Sensors[1].ID = true, ""
				case "curve duplicate":
					c.Curves = append(c.Curves, vxLin("c1", "s0"))
				case "curve duplicate-referenced":
					c.Curves[1].ID = "c0"
					c.Fans[1].Curve = "c0"
				case "curve one-missing":
					c.Curves = append(c.Curves, vxCurve{NoID: true, Kinds: []string{"linear"}, Sensor: "s0", Steps: "minmax"})
				case "curve two-missing":
					c.Curves = append(c.Curves, vxCurve{NoID: true, Kinds: []string{"linear"}, Sensor: "s0", Steps: "minmax"},
						vxCurve{NoID: true, Kinds: []string{"pid"}, Sensor: "s1"})
				case "curve empty-string-like-missing":
					c.Curves[1].NoID, c.Curves[1].ID = true, ""
				case "fan duplicate":
					c.Fans = append(c.Fans, vxFileFan("f1", "c0"))
				case "fan duplicate-referenced":
					c.Fans[1].ID = "f0"
				case "fan one-missing":
					c.Fans = append(c.Fans, vxFan{NoID: true, Kinds: []string{"file"}, Curve: "c0"})
				case "fan two-missing":
					c.Fans = append(c.Fans, vxFan{NoID: true, Kinds: []string{"file"}, Curve: "c0"}, vxFan{NoID: true, Kinds: []string{"cmd"}, Curve: "c1"})
				case "fan empty-string-like-missing":
					c.Fans[1].NoID, c.Fans[1].ID = true, ""
				}
				return c
			})
		}
	}
	// F. 0/1/2/3 back-ends per entry (every subset)
	sets := func(names []string) [][]string {
		var r [][]string
		for m := 0; m < 1<<uint(len(names)); m++ {
			var s []string
			for i, nme := range names {
				if m&(1<<uint(i)) != 0 {
					s = append(s, nme)
				}
			}
			r = append(r, s)
		}
		return r
	}
	for _, ks := range sets([]string{"hwmon", "file", "cmd"}) {
		ks := ks
		emit(func() vxCase {
			c := vxCase{Family: "backends", Desc: fmt.Sprintf("sensor back-ends %v", ks), Documented: len(ks) == 1}
			c.Sensors = []vxSensor{{ID: "s0", Kinds: ks}}
			c.Curves = []vxCurve{vxLin("c0", "s0")}
			c.Fans = []vxFan{vxFileFan("f0", "c0")}
			return c
		})
	}
	for _, ks := range sets([]string{"hwmon-rpm", "file-rpm", "cmd-rpm"}) {
		ks := ks
		emit(func() vxCase {
			c := vxCase{Family: "backends", Desc: fmt.Sprintf("fan back-ends %v", ks), Documented: len(ks) == 1}
			c.Sensors = []vxSensor{vxBaseSensor("file")}
			c.Curves = []vxCurve{vxLin("c0", "s0")}
			c.Fans = []vxFan{{ID: "f0", Kinds: ks, Curve: "c0"}}
			return c
		})
	}
	for _, ks := range sets([]string{"linear", "pid", "function"}) {
		ks := ks
		emit(func() vxCase {
			c := vxCase{Family: "backends", Desc: fmt.Sprintf("curve back-ends %v", ks), Documented: len(ks) == 1}
			c.Sensors = []vxSensor{vxBaseSensor("file")}
			c.Curves = []vxCurve{vxLin("c1", "s0"), {ID: "c0", Kinds: ks, Sensor: "s0", Steps: "list", FType: "maximum", Members: []string{"c1"}, MForm: "block"}}
			c.Fans = []vxFan{vxFileFan("f0", "c0")}
			return c
		})
	}
	// G. every fan kind x sensor kind x curve kind x spelling of the control algorithm
	algos := []string{"", "str-direct", "str-pid", "direct-max", "pid-struct", "controlLoop", "direct-empty", "direct-zero", "pid-zero", "str-bogus"}
	docAlgo := map[string]bool{"": true, "str-direct": true, "str-pid": true, "direct-max": true, "pid-struct": true}
	fkinds := []string{"hwmon-rpm", "hwmon-rpm-pwm", "hwmon-index", "file", "file-rpm", "cmd", "cmd-rpm"}
	docFan := map[string]bool{"hwmon-rpm": true, "hwmon-rpm-pwm": true, "file-rpm": true, "cmd": true, "cmd-rpm": true}
	for _, al := range algos {
		for _, fk := range fkinds {
			for _, sk := range []string{"hwmon", "file", "cmd"} {
				for _, ck := range []string{"linear-minmax", "linear-steps", "pid", "function"} {
					for opts := 0; opts < 2; opts++ {
						al, fk, sk, ck, opts := al, fk, sk, ck, opts
						emit(func() vxCase {
							c := vxCase{Family: "kinds", Desc: fmt.Sprintf("algo=%q fan=%s sensor=%s curve=%s opts=%d", al, fk, sk, ck, opts)}
							c.Sensors = []vxSensor{vxBaseSensor(sk)}
							switch ck {
							case "linear-minmax":
								c.Curves = []vxCurve{vxLin("c0", "s0")}
							case "linear-steps":
								l := vxLin("c0", "s0")
								l.Steps = "list"
								c.Curves = []vxCurve{l}
							case "pid":
								c.Curves = []vxCurve{{ID: "c0", Kinds: []string{"pid"}, Sensor: "s0"}}
							case "function":
								l := vxLin("c2", "s0")
								l.Steps = "list"
								c.Curves = []vxCurve{vxLin("c1", "s0"), l, {ID: "c0", Kinds: []string{"function"}, FType: "average", Members: []string{"c1", "c2"}, MForm: "block"}}
							}
							c.Fans = []vxFan{{ID: "f0", Kinds: []string{fk}, Curve: "c0", Algo: al, Opts: opts == 1}}
							c.Documented = docAlgo[al] && docFan[fk]
							return c
						})
					}
				}
			}
		}
	}
	// I. unresolvable references
	for _, mode := range []string{"linear-unknown-sensor", "linear-no-sensor", "pid-unknown-sensor", "pid-no-sensor", "function-unknown-curve",
		"fan-unknown-curve", "fan-no-curve", "fan-empty-curve", "function-references-sensor-id", "fan-references-sensor-id",
		// near misses: references that differ from a defined id only in letter case, or are a prefix / an extension of it
		"linear-sensor-case", "pid-sensor-case", "function-curve-case", "fan-curve-case",
		"linear-sensor-prefix", "function-curve-prefix", "fan-curve-prefix", "linear-sensor-extended", "function-curve-extended", "fan-curve-extended"} {
		mode := mode
		emit(func() vxCase {
			c := vxCase{Family: "refs", Desc: mode}
			c.Sensors = []vxSensor{vxBaseSensor("file")}
			c.Curves = []vxCurve{vxLin("c0", "s0"), {ID: "c1", Kinds: []string{"pid"}, Sensor: "s0"},
				{ID: "c2", Kinds: []string{"function"}, FType: "sum", Members: []string{"c0", "c1"}, MForm: "block"}}
			c.Fans = []vxFan{vxFileFan("f0", "c2")}
			switch mode {
			case "linear-unknown-sensor":
				c.Curves[0].Sensor = "nope"
			case "linear-no-sensor":
				c.Curves[0].NoSensor, c.Curves[0].Sensor = true, ""
			case "pid-unknown-sensor":
				c.Curves[1].Sensor = "nope"
			case "pid-no-sensor":
				c.Curves[1].NoSensor, c.Curves[1].Sensor = true, ""
			case "function-unknown-curve":
				c.Curves[2].Members = []string{"c0", "nope"}
			case "fan-unknown-curve":
				c.Fans[0].Curve = "nope"
			case "fan-no-curve":
				c.Fans[0].NoCurve, c.Fans[0].Curve = true, ""
			case "fan-empty-curve":
				c.Fans[0].Curve = ""
			case "function-references-sensor-id":
				c.Curves[2].Members = []string{"c0", "s0"}
			case "fan-references-sensor-id":
				c.Fans[0].Curve = "s0"
			case "linear-sensor-case":
				c.Curves[0].Sensor = "S0"
			case "pid-sensor-case":
				c.Curves[1].Sensor = "S0"
			case "function-curve-case":
				c.Curves[2].Members = []string{"c0", "C1"}
			case "fan-curve-case":
				c.Fans[0].Curve = "C2"
			case "linear-sensor-prefix":
				c.Curves[0].Sensor = "s"
			case "function-curve-prefix":
				c.Curves[2].Members = []string{"c0", "c"}
			case "fan-curve-prefix":
				c.Fans[0].Curve = "c"
			case "linear-sensor-extended":
				c.Curves[0].Sensor = "s00"
			case "function-curve-extended":
				c.Curves[2].Members = []string{"c0", "c10"}
			case "fan-curve-extended":
				c.Fans[0].Curve = "c20"
			}
			return c
		})
	}
	// H. documents: the shipped fan2go.yaml verbatim, an empty configuration
	emit(func() vxCase {
		repo := os.Getenv("VERIF_REPO")
		if repo == "" {
			repo = "/repo"
		}
		b, err := os.ReadFile(filepath.Join(repo, "fan2go.yaml"))
		vxMust(err)
		return vxCase{Family: "document", Desc: "shipped fan2go.yaml verbatim", Raw: string(b), Documented: true}
	})
	emit(func() vxCase {
		return vxCase{Family: "document", Desc: "no fans, sensors, curves"}
	})
}

// ---------------------------------------------------------------- running one case

type vxVerdict struct {
	Accepted  bool
	Why       string // validator / loader message when rejected
	LoadPanic bool
}

// vxValidate makes the calls of `fan2go config validate` (cmd/root.go cobra.OnInitialize + cmd/config/validate.go).
func vxValidate(path string) (v vxVerdict) {
	defer func() {
		if r := recover(); r != nil {
			v = vxVerdict{Accepted: false, Why: fmt.Sprintf("panic while loading: %v", r), LoadPanic: true}
		}
	}()
	viper.Reset()
	configuration.InitConfig(path)
	configPath := configuration.DetectAndReadConfigFile()
	configuration.LoadConfig()
	if err := configuration.Validate(configPath); err != nil {
		return vxVerdict{Accepted: false, Why: err.Error()}
	}
	return vxVerdict{Accepted: true}
}

type vxRun struct {
	InitErr    string   `json:"initErr,omitempty"`
	InitPanic  string   `json:"initPanic,omitempty"`
	EvalPanics []string `json:"evalPanics,omitempty"` // "<curve id>\x00<message>"
	EvalErrs   int      `json:"evalErrs"`
	Evals      int      `json:"evals"`
	Hung       bool     `json:"hung,omitempty"`
}

func vxEvalOne(c curves.SpeedCurve) (perr string, err error) {
	defer func() {
		if r := recover(); r != nil {
			perr = fmt.Sprintf("%v", r)
		}
	}()
	_, err = c.Evaluate()
	return "", err
}

// vxInstantiate runs InitializeObjects on configuration.CurrentConfig and evaluates every configured
// curve for 3 sensor value assignments, in its own goroutine (fresh stack) with recover.
func vxInstantiate() vxRun {
	ch := make(chan vxRun, 1)
	go func() {
		var r vxRun
		defer func() {
			if p := recover(); p != nil {
				r.InitPanic = fmt.Sprintf("%v", p)
			}
			ch <- r
		}()
		// statistics.Register -> prometheus.MustRegister(DefaultRegisterer): fresh registry per case
		reg := prometheus.NewRegistry()
		prometheus.DefaultRegisterer = reg
		prometheus.DefaultGatherer = reg
		vxSetSensorFiles(42000)
		if _, err := internal.InitializeObjects(); err != nil {
			r.InitErr = err.Error()
			return
		}
		vals := []float64{20000, 55000, 90000}
		for a := 0; a < 3; a++ {
			vxSetSensorFiles(int(vals[a]))
			for i, sc := range configuration.CurrentConfig.Sensors {
				if s, ok := sensors.GetSensor(sc.ID); ok && s != nil {
					s.SetMovingAvg(vals[(a+i)%3])
				}
			}
			for _, cc := range configuration.CurrentConfig.Curves {
				c, ok := curves.GetSpeedCurve(cc.ID)
				if !ok || c == nil {
					r.EvalPanics = append(r.EvalPanics, cc.ID+"\x00curve is not registered after InitializeObjects")
					continue
				}
				r.Evals++
				p, err := vxEvalOne(c)
				if p != "" {
					r.EvalPanics = append(r.EvalPanics, cc.ID+"\x00"+p)
				} else if err != nil {
					r.EvalErrs++
				}
			}
		}
	}()
	select {
	case r := <-ch:
		return r
	case <-time.After(30 * time.Second):
		return vxRun{Hung: true}
	}
}

// vxChild re-executes this test binary to instantiate + evaluate the YAML file in a separate process.
// Returns (died, exit code, output tail).
func vxChild(path string) (bool, int, string) {
	cmd := exec.Command(os.Args[0], "-test.run", "^TestVX_C11_child$", "-test.timeout", "60s")
	env := []string{}
	for _, e := range os.Environ() {
		if strings.HasPrefix(e, "VERIF_OUT=") || strings.HasPrefix(e, "VERIF_REPLAY=") || strings.HasPrefix(e, "VERIF_SHARD=") {
			continue
		}
		env = append(env, e)
	}
	cmd.Env = append(env, "VERIF_C11_CHILD_YAML="+path, "VERIF_C11_CHILD_DIR="+vxF.Dir)
	var out bytes.Buffer
	cmd.Stdout, cmd.Stderr = &out, &out
	err := cmd.Run()
	s := out.String()
	if i := strings.Index(s, "\ngoroutine "); i > 0 && len(s) > i+1200 {
		s = s[:i+1200] + "\n...(clipped)"
	}
	if len(s) > 2500 {
		s = s[:2500] + "...(clipped)"
	}
	if err == nil {
		return false, 0, s
	}
	code := -1
	if ee, ok := err.(*exec.ExitError); ok {
		code = ee.ExitCode()
	}
	// exit status 1 with the marker line = the child ran to completion and reports a recovered problem
	if strings.Contains(s, "VX-CHILD-RESULT") {
		return false, code, s
	}
	return true, code, s
}

func TestVX_C11_child(t *testing.T) {
	path := os.Getenv("VERIF_C11_CHILD_YAML")
	if path == "" {
		t.Skip("helper of TestVX_C11")
	}
	debug.SetMaxStack(32 << 20) // endless recursion ends quickly in "fatal error: stack overflow"
	vxSetupFixtures(os.Getenv("VERIF_C11_CHILD_DIR"), false)
	v := vxValidate(path)
	if !v.Accepted {
		fmt.Printf("VX-CHILD-RESULT rejected: %s\n", v.Why)
		return
	}
	r := vxInstantiate()
	b, _ := json.Marshal(r)
	fmt.Printf("VX-CHILD-RESULT %s\n", b)
	if r.InitErr != "" || r.InitPanic != "" || len(r.EvalPanics) > 0 || r.Hung {
		t.Fail()
	}
}

// vxCli runs the real binary: `fan2go -c <file> config validate`; returns exit status (-1 = no binary).
func vxCli(path string) (int, string) {
	bin := filepath.Join(os.Getenv("VERIF_BIN"), "fan2go")
	if os.Getenv("VERIF_BIN") == "" {
		return -1, ""
	}
	if _, err := os.Stat(bin); err != nil {
		return -1, ""
	}
	cmd := exec.Command(bin, "-c", path, "--no-color", "--no-style", "config", "validate")
	var out bytes.Buffer
	cmd.Stdout, cmd.Stderr = &out, &out
	err := cmd.Run()
	s := out.String()
	if len(s) > 600 {
		s = s[:600] + "...(clipped)"
	}
	if err == nil {
		return 0, s
	}
	if ee, ok := err.(*exec.ExitError); ok {
		return ee.ExitCode(), s
	}
	return -2, s + err.Error()
}

// vxCliAuto runs the real binary WITHOUT -c: the configuration is found on the search path (./fan2go.yaml) from a working
// directory that is owned by an ordinary user and world-writable, like a home directory or /tmp (README: `fan2go config validate`).
func vxCliAuto(yaml string) (int, string) {
	bin := filepath.Join(os.Getenv("VERIF_BIN"), "fan2go")
	if os.Getenv("VERIF_BIN") == "" {
		return -1, ""
	}
	if _, err := os.Stat(bin); err != nil {
		return -1, ""
	}
	dir := filepath.Join(filepath.Dir(vxF.Yaml), "autodetect")
	_ = os.MkdirAll(dir, 0o777)
	_ = os.Chown(dir, 1234, 1234)
	_ = os.Chmod(dir, 0o777)
	f := filepath.Join(dir, "fan2go.yaml")
	vxWrite(f, yaml, 0644)
	_ = os.Chown(f, 0, 0)
	cmd := exec.Command(bin, "--no-color", "--no-style", "config", "validate")
	cmd.Dir = dir
	cmd.Env = append(os.Environ(), "HOME="+filepath.Join(dir, "nohome"))
	var out bytes.Buffer
	cmd.Stdout, cmd.Stderr = &out, &out
	err := cmd.Run()
	s := out.String()
	if len(s) > 600 {
		s = s[:600] + "...(clipped)"
	}
	if err == nil {
		return 0, s
	}
	if ee, ok := err.(*exec.ExitError); ok {
		return ee.ExitCode(), s
	}
	return -2, s + err.Error()
}

type vxState struct {
	poisoned  bool // an evaluation hung: stop using this process
	rep       *mc.Report
	childRuns map[string]int
	cliRuns   int
	classes   map[string][]string // signature -> descriptions of the violating cases (first 40)
}

func (st *vxState) violate(c *vxCase, sig, detail string) {
	cc := *c
	cc.Yaml = ""
	if len(st.classes[sig]) < 8 {
		st.classes[sig] = append(st.classes[sig], c.Family+": "+c.Desc)
	}
	st.rep.Violate(mc.Violation{Signature: sig, Detail: fmt.Sprintf("%s [%s: %s]\n--- configuration\n%s", detail, c.Family, c.Desc, c.Yaml), Replay: cc})
}

// vxRunCase executes one case and applies the oracle.
func (st *vxState) runCase(c *vxCase, forceCli bool) {
	rep := st.rep
	c.Yaml = vxRender(c)
	vxWrite(vxF.Yaml, c.Yaml, 0644)
	// the generated text must be well-formed YAML (DetectAndReadConfigFile would os.Exit otherwise)
	pre := viper.New()
	pre.SetConfigFile(vxF.Yaml)
	if err := pre.ReadInConfig(); err != nil {
		rep.HarnessError(fmt.Sprintf("generated YAML does not parse (%s: %s): %v\n%s", c.Family, c.Desc, err, c.Yaml))
		return
	}
	rep.Evaluations++
	ref := vxRefValid(c)
	v := vxValidate(vxF.Yaml)
	rep.Count("cases:"+c.Family, 1)
	disagree := false
	if v.Accepted {
		rep.Count("accepted", 1)
	} else {
		rep.Count("rejected", 1)
	}
	switch {
	case v.Accepted && ref != "":
		// (i) first half violated. The configuration may recurse for ever: instantiate it in a child process.
		disagree = true
		sig := "C11 accepted config with " + ref
		detail := "validator accepted a configuration the reference predicate rejects: " + ref
		if st.childRuns[sig] < 4 {
			st.childRuns[sig]++
			died, code, out := vxChild(vxF.Yaml)
			if died {
				detail += fmt.Sprintf("\ninstantiating + evaluating it in a child process KILLED the process (exit status %d):\n%s", code, out)
			} else {
				detail += fmt.Sprintf("\nchild process instantiate + evaluate (exit status %d): %s", code, out)
			}
			rep.Count("child-runs", 1)
		}
		st.violate(c, sig, detail)
	case v.Accepted:
		// (i) second half: instantiate and evaluate
		r := vxInstantiate()
		rep.Transitions += int64(r.Evals)
		rep.Count("instantiated", 1)
		rep.Count("curve-evaluations", int64(r.Evals))
		rep.Count("curve-evaluation-errors", int64(r.EvalErrs))
		switch {
		case r.Hung:
			st.violate(c, "C11 accepted config hangs on instantiate/evaluate", "no result after 30 s")
			// the stuck goroutine may hold locks of the packages under test: this process cannot judge further cases
			st.poisoned = true
		case r.InitPanic != "":
			st.violate(c, "C11 accepted config panics on instantiate", "InitializeObjects panicked: "+r.InitPanic)
		case r.InitErr != "":
			st.violate(c, "C11 accepted config fails to instantiate", "InitializeObjects: "+r.InitErr)
		case len(r.EvalPanics) > 0:
			seen := map[string]bool{}
			for _, p := range r.EvalPanics {
				parts := strings.SplitN(p, "\x00", 2)
				id := strings.TrimPrefix(parts[0], fmt.Sprintf("k%d_", c.Idx))
				sig := "C11 accepted " + vxPanicClass(c, id) + " panics on evaluate"
				if seen[sig] {
					continue
				}
				seen[sig] = true
				st.violate(c, sig, fmt.Sprintf("curve %s: Evaluate() panicked: %s", parts[0], parts[1]))
			}
		}
	case !v.Accepted && c.Documented && ref == "":
		// (ii) no false rejects
		disagree = true
		st.violate(c, "C11 documented valid config rejected ("+c.Family+")", "reference-valid configuration built only from documented forms was rejected: "+v.Why)
	}
	if !v.Accepted && ref != "" {
		rep.Count("rejected-and-reference-invalid", 1)
	}
	// real CLI on a sample and on all disagreements
	if forceCli || disagree || c.Idx%200 == 0 {
		if code, out := vxCli(vxF.Yaml); code != -1 {
			st.cliRuns++
			rep.Count("cli-runs", 1)
			if (code == 0) != v.Accepted {
				st.violate(c, "C11 CLI verdict differs from in-process verdict",
					fmt.Sprintf("`fan2go -c f config validate` exit status %d but in-process accepted=%v (%s)\n%s", code, v.Accepted, v.Why, out))
			}
		} else if mc.Thorough() {
			rep.HarnessError("fan2go CLI binary not found under $VERIF_BIN")
		}
	}
	// the same sub-command with the configuration found on the search path; configurations with cmd entries (whose file
	// permissions are checked) are sampled more densely
	if forceCli || disagree || c.Idx%200 == 0 || (strings.Contains(c.Yaml, "cmd:") && c.Idx%10 == 0) {
		if code, out := vxCliAuto(c.Yaml); code != -1 {
			rep.Count("cli-runs-autodetected-config", 1)
			if (code == 0) != v.Accepted {
				st.violate(c, "C11 CLI verdict for an auto-detected configuration file differs from the in-process verdict",
					fmt.Sprintf("`fan2go config validate` (./fan2go.yaml, root-owned 0644, in a user-owned world-writable directory) exit status %d but in-process accepted=%v (%s)\n%s", code, v.Accepted, v.Why, out))
			}
		}
	}
}

func TestVX_C11(t *testing.T) {
	rep := mc.NewReport("C11", "cmd/config/validate")
	defer rep.Write()
	dir := vxScratch()
	vxSetupFixtures(dir, true)
	defer os.RemoveAll(dir)
	st := &vxState{rep: rep, childRuns: map[string]int{}, classes: map[string][]string{}}
	defer func() {
		for sig, ds := range st.classes {
			rep.Note(fmt.Sprintf("%s <= %s", sig, strings.Join(ds, " | ")))
		}
	}()

	var rc vxCase
	if mc.ReplayCase(&rc) {
		st.runCase(&rc, true)
		return
	}
	maxNodes := 3
	if mc.Thorough() {
		maxNodes = 4
	}
	idx := 0
	var mine int64
	fam := map[string]int{}
	seenDesc := map[string]bool{}
	vxEnumerate(maxNodes, func(build func() vxCase) {
		i := idx
		idx++
		if !mc.Mine(i) || st.poisoned {
			return
		}
		c := build()
		c.Idx = i
		key := c.Family + "|" + c.Desc
		if seenDesc[key] {
			rep.HarnessError("case enumerated twice: " + key)
		}
		seenDesc[key] = true
		mine++
		fam[c.Family]++
		st.runCase(&c, false)
		if fam[c.Family] == 1 && (c.Family == "function" || c.Family == "kinds" || c.Family == "ring-with-tail") || (c.Family == "digraph" && fam[c.Family] == 40) {
			rep.Sample(map[string]any{"family": c.Family, "case": c.Desc, "documented": c.Documented, "reference": vxRefValid(&c), "yaml": c.Yaml})
		}
	})
	if st.poisoned {
		rep.Cap("an accepted configuration hung on evaluate: the remaining cases of this shard were not run")
	}
	rep.AddDistinct(mine) // every case is a different abstract configuration (enumerated without repetition)
	rep.Configs = mine
	rep.Note(fmt.Sprintf("all curve digraphs (adjacency matrices incl. self-loops) on 1..%d nodes (thorough: plus all 2^20 digraphs without self-loops on 5 nodes); chains, rings, diamonds, ring-with-tail (every back edge) on 5..8 nodes; "+
		"8 function types x 9 member lists; 10 step forms x 3 sensor kinds; duplicate/missing ids; every subset of back-ends per sensor/fan/curve; "+
		"10 control-algorithm spellings x 7 fan kinds x 3 sensor kinds x 4 curve kinds x options; unresolvable references; shipped fan2go.yaml; total cases %d", maxNodes, idx))
}
