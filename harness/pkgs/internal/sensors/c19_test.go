package sensors

// C19 (run 3 of 3): the catalogue of external-command failure modes through the real
// CmdSensor.GetValue (fixed 2 s timeout inside fan2go). Oracle: the call returns (no panic) within
// 2 s + 3 s; when it reports success the value is the number the command printed.

import (
	"fmt"
	"os"
	"strconv"
	"sync"
	"testing"
	"time"

	"github.com/markusressel/fan2go/internal/configuration"
	"github.com/markusressel/fan2go/internal/verifshim/mc"
	"github.com/markusressel/fan2go/internal/verifshim/vcmd"
	"github.com/pterm/pterm"
)

func init() {
	pterm.DisableOutput()
	os.Unsetenv("DISPLAY")
}

const vxC19Test = "TestVX_C19sensors"

func vxC19One(rep *mc.Report, c vcmd.Case, guard time.Duration) {
	const timeout = 2 * time.Second
	call := vcmd.Call{Site: "sensors.CmdSensor.GetValue", Case: c.Name, TimeoutMs: int(timeout / time.Millisecond), Test: vxC19Test}
	sensor := &CmdSensor{
		Name:   "vxcmd",
		Config: configuration.SensorConfig{ID: "vxcmd", Cmd: &configuration.CmdSensorConfig{Exec: c.Path, Args: []string{}}},
	}
	var mu sync.Mutex
	var out vcmd.Outcome
	tm := vcmd.Guarded(guard, func() {
		v, err := sensor.GetValue()
		mu.Lock()
		defer mu.Unlock()
		if err != nil {
			out = vcmd.Outcome{Err: err.Error()}
			return
		}
		out = vcmd.Outcome{Ok: true}
		s := c.Stdout
		if len(s) > 60 {
			s = s[:60] + "..."
		}
		want, perr := strconv.ParseFloat(c.Stdout, 64)
		if perr != nil {
			out.Problem = fmt.Sprintf("returned %v without error although the command printed %q (not a number)", v, s)
		} else if v != want {
			out.Problem = fmt.Sprintf("returned %v without error, the command printed %q", v, s)
		}
	})
	mu.Lock()
	o := out
	mu.Unlock()
	vcmd.Judge(rep, call, c, timeout, tm, o)
}

func TestVX_C19sensors(t *testing.T) {
	rep := mc.NewReport("C19", "sensors/cmd")
	defer rep.Write()
	sc := vcmd.NewScratch("c19s")
	defer func() { rep.Count("stray-processes-killed", int64(sc.Close())) }()
	cases := vcmd.Catalogue(sc.Dir)
	guard := vcmd.Guard(12 * time.Second)

	var rc vcmd.Call
	if mc.ReplayCase(&rc) {
		if rc.Test != vxC19Test {
			rep.HarnessError("replay case belongs to " + rc.Test + " (site " + rc.Site + "): run that test with VERIF_REPLAY")
			return
		}
		c, ok := vcmd.FindCase(cases, rc.Case)
		if !ok {
			rep.HarnessError("unknown case " + rc.Case)
			return
		}
		rep.Evaluations = 1
		vxC19One(rep, c, guard)
		return
	}

	var jobs []func()
	for i, c := range cases {
		if !mc.Mine(i) {
			continue
		}
		c := c
		jobs = append(jobs, func() { vxC19One(rep, c, guard) })
	}
	vcmd.RunAll(jobs, 15*time.Millisecond)
	rep.Evaluations = int64(len(jobs))
	rep.AddDistinct(int64(len(jobs)))
	rep.Configs = int64(len(cases))
	rep.Sample(map[string]any{"site": "sensors.CmdSensor.GetValue", "case": "sleep-child-beyond-deadline", "script": "#!/bin/sh\nsleep 60\necho 42", "timeout_s": 2})
	rep.Note("call site: sensors.CmdSensor.GetValue (timeout fixed at 2 s by fan2go)")
}
