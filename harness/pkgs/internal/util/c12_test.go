package util

// C12 (part a): nearest supported value — exhaustive enumeration of all PWM maps over a small
// key universe and all requests -50..305 through the real ExtractKeysWithDistinctValues +
// FindClosest, against an independent reference.

import (
	"fmt"
	"sort"
	"testing"

	"github.com/markusressel/fan2go/internal/verifshim/mc"
)

type vxC12Case struct {
	Keys    []int `json:"keys"`
	Outs    []int `json:"outs"`
	Request int   `json:"request"`
}

// reference: first key of each run of equal outputs, in key order
func vxRefSupported(keys, outs []int) []int {
	var r []int
	for i := range keys {
		if i == 0 || outs[i] != outs[i-1] {
			r = append(r, keys[i])
		}
	}
	return r
}

func vxAbs(a int) int {
	if a < 0 {
		return -a
	}
	return a
}

// vxC12Check runs one (map, request) through the real code; returns "" or a failure text.
func vxC12Check(m map[int]int, keys, outs []int, supportedReal []int, req int) (string, int) {
	ref := vxRefSupported(keys, outs)
	if len(ref) != len(supportedReal) {
		return fmt.Sprintf("supported inputs %v, expected %v", supportedReal, ref), 0
	}
	for i := range ref {
		if ref[i] != supportedReal[i] {
			return fmt.Sprintf("supported inputs %v, expected %v", supportedReal, ref), 0
		}
	}
	chosen := FindClosest(req, supportedReal)
	best := 1 << 30
	for _, k := range ref {
		if d := vxAbs(k - req); d < best {
			best = d
		}
	}
	isKey := false
	for _, k := range ref {
		if k == chosen {
			isKey = true
		}
	}
	if !isKey {
		return fmt.Sprintf("request %d -> %d which is not a supported input %v", req, chosen, ref), chosen
	}
	if vxAbs(chosen-req) != best {
		return fmt.Sprintf("request %d -> %d (distance %d) but nearest supported input is at distance %d in %v", req, chosen, vxAbs(chosen-req), best, ref), chosen
	}
	return "", chosen
}

func vxC12Universe() []int {
	if mc.Thorough() {
		return []int{0, 1, 2, 5, 9, 10, 63, 128, 200, 253, 254, 255}
	}
	return []int{0, 1, 5, 9, 10, 128, 254, 255}
}

func TestVX_C12a(t *testing.T) {
	rep := mc.NewReport("C12", "util/closest")
	defer rep.Write()
	var rc vxC12Case
	if mc.ReplayCase(&rc) {
		m := map[int]int{}
		for i, k := range rc.Keys {
			m[k] = rc.Outs[i]
		}
		sup := ExtractKeysWithDistinctValues(m)
		sort.Ints(sup)
		if msg, _ := vxC12Check(m, rc.Keys, rc.Outs, sup, rc.Request); msg != "" {
			rep.Violate(mc.Violation{Signature: "C12 nearest-supported util", Detail: msg, Replay: rc})
		}
		rep.Evaluations = 1
		return
	}
	uni := vxC12Universe()
	alphabet := []int{0, 77, 255} // output alphabet; digit 0 = key absent
	n := len(uni)
	total := 1
	for i := 0; i < n; i++ {
		total *= 4
	}
	var nontrivial int64
	maps := 0
	for code := 1; code < total; code++ {
		if !mc.Mine(code) {
			continue
		}
		var keys, outs []int
		c := code
		for i := 0; i < n; i++ {
			d := c % 4
			c /= 4
			if d != 0 {
				keys = append(keys, uni[i])
				outs = append(outs, alphabet[d-1])
			}
		}
		m := make(map[int]int, len(keys))
		for i, k := range keys {
			m[k] = outs[i]
		}
		sup := ExtractKeysWithDistinctValues(m)
		sort.Ints(sup)
		maps++
		for req := -50; req <= 305; req++ {
			rep.Evaluations++
			msg, chosen := vxC12Check(m, keys, outs, sup, req)
			if msg != "" {
				rep.Violate(mc.Violation{Signature: "C12 nearest-supported util", Detail: msg,
					Replay: vxC12Case{keys, outs, req}})
				break
			}
			// non-trivial = the request is not itself a supported input and >1 supported inputs
			if len(sup) > 1 && chosen != req {
				nontrivial++
			}
		}
		if maps%200000 == 1 {
			rep.Sample(map[string]any{"keys": keys, "outs": outs, "supported": sup, "request": 7, "chosen": FindClosest(7, sup)})
		}
	}
	rep.AddDistinct(nontrivial) // (map,request) pairs are enumerated without repetition
	rep.Count("maps", int64(maps))
	rep.Configs = int64(maps)
	rep.Note(fmt.Sprintf("key universe %v, output alphabet %v (every subset x every assignment), requests -50..305; non-trivial = request is not itself a supported input and the map has >1 supported inputs", uni, alphabet))
}
