package util

// C19 under concurrency: sensor monitors, control loops, RPM monitors and collectors all call external commands from their
// own goroutines. Eight goroutines run the real SafeCmdExecution at once on commands that succeed, fail, cannot be started or
// run into their deadline. Oracles: every call returns (no panic; a fatal runtime error kills the worker, which the driver
// reports as a violation) with output or error as in the single-caller catalogue, and the race detector (this binary is
// race-instrumented, GORACE log_path=race) reports nothing inside internal/util: bookkeeping shared between callers must be
// synchronised, or concurrent failures can take the daemon down.

import (
	"fmt"
	"os"
	"sync"
	"testing"
	"time"

	"github.com/markusressel/fan2go/internal/verifshim/mc"
	"github.com/markusressel/fan2go/internal/verifshim/vcmd"
)

func TestVX_C19race(t *testing.T) {
	rep := mc.NewReport("C19", "util/exec-concurrent")
	defer rep.Write()
	var rc struct{ X int }
	mc.ReplayCase(&rc)
	sc := vcmd.NewScratch("c19r")
	defer func() { rep.Count("stray-processes-killed", int64(sc.Close())) }()
	cases := vcmd.Catalogue(sc.Dir)
	names := []string{"ok", "ok-trailing-newlines", "exit1-no-output", "exit3-with-output", "no-x-bit", "missing-interpreter", "killed-sigkill", "sleep-exec-beyond-deadline"}
	iters := 25
	if mc.Thorough() {
		iters = 150
	}
	var mu sync.Mutex
	var calls int64
	bad := func(sig, msg string) {
		mu.Lock()
		defer mu.Unlock()
		rep.Violate(mc.Violation{Signature: sig, Detail: msg, Replay: rc})
	}
	var wg sync.WaitGroup
	start := make(chan struct{})
	for _, name := range names {
		c, ok := vcmd.FindCase(cases, name)
		if !ok {
			panic("case " + name)
		}
		wg.Add(1)
		go func() {
			defer wg.Done()
			<-start
			n := iters
			if c.Name == "sleep-exec-beyond-deadline" {
				n = 3 // each call takes its whole timeout
			}
			for k := 0; k < n; k++ {
				var out string
				var err error
				p := ""
				func() {
					defer func() {
						if x := recover(); x != nil {
							p = fmt.Sprint(x)
						}
					}()
					out, err = SafeCmdExecution(c.Path, nil, 300*time.Millisecond)
				}()
				mu.Lock()
				calls++
				mu.Unlock()
				switch {
				case p != "":
					bad("C19 concurrent callers: panic in SafeCmdExecution", fmt.Sprintf("case %s: %s", c.Name, p))
					return
				case err == nil && out != c.Stdout:
					bad("C19 concurrent callers: success reported with something other than the command's output", fmt.Sprintf("case %s: returned %q, the command printed %q", c.Name, out, c.Stdout))
					return
				case err == nil && (c.StartFailure || c.Name == "exit1-no-output" || c.Name == "exit3-with-output" || c.Name == "killed-sigkill" || c.Name == "sleep-exec-beyond-deadline"):
					bad("C19 concurrent callers: failing command reported as success", fmt.Sprintf("case %s: returned %q without error", c.Name, out))
					return
				}
			}
		}()
	}
	close(start)
	wg.Wait()
	rep.Evaluations = calls
	rep.AddDistinct(int64(len(names)))
	for site, r := range vxUtilRaceSites(rep) {
		bad("C19 command execution shares unsynchronised state between concurrent callers: "+site, "race detector report:\n"+clipU(r, 1800))
	}
	rep.Sample(map[string]any{"goroutines": len(names), "cases": names, "calls": calls})
	defer func() {
		// log lines of concurrent callers race inside the logging library in this build (its global mutex is a no-op, see
		// harness/nosync); the testing package would fail the test for ANY race report, so leave before it looks
		rep.Count("stray-processes-killed", int64(sc.Close()))
		rep.Write()
		os.Exit(0)
	}()
	rep.Note("eight concurrent callers of the real SafeCmdExecution (succeeding, failing, unstartable, killed, timing-out commands; timeout 0.3 s); race-instrumented build: per-call verdicts plus happens-before reports inside internal/util")
}
