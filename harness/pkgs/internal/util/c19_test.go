package util

// C19 (run 1 of 3): external commands cannot hang or crash fan2go — the finite catalogue of failure
// modes (vcmd.Catalogue) x timeouts {0.2, 0.5, 2 s} through the real SafeCmdExecution, real
// processes, real wall clock. Oracle: the call returns (no panic) within timeout + 3 s, and when it
// reports success the text is the command's trimmed stdout. A 30 s guard per case reports "hang".

import (
	"fmt"
	"os"
	"path/filepath"
	"strings"
	"sync"
	"testing"
	"time"

	"github.com/markusressel/fan2go/internal/verifshim/mc"
	"github.com/markusressel/fan2go/internal/verifshim/vcmd"
	"github.com/pterm/pterm"
)

func init() {
	pterm.DisableOutput()
}

const vxC19Test = "TestVX_C19"

func vxC19One(rep *mc.Report, c vcmd.Case, timeout time.Duration, guard time.Duration) {
	call := vcmd.Call{Site: "util.SafeCmdExecution", Case: c.Name, TimeoutMs: int(timeout / time.Millisecond), Test: vxC19Test}
	var mu sync.Mutex
	var out vcmd.Outcome
	tm := vcmd.Guarded(guard, func() {
		s, err := SafeCmdExecution(c.Path, nil, timeout)
		mu.Lock()
		defer mu.Unlock()
		if err != nil {
			out = vcmd.Outcome{Err: err.Error()}
			return
		}
		out = vcmd.Outcome{Ok: true}
		if s != c.Stdout {
			out.Problem = fmt.Sprintf("returned %d bytes %q without error, the command printed %d bytes %q", len(s), vxClip(s), len(c.Stdout), vxClip(c.Stdout))
		}
	})
	mu.Lock()
	o := out
	mu.Unlock()
	vcmd.Judge(rep, call, c, timeout, tm, o)
}

func vxClip(s string) string {
	if len(s) > 60 {
		return s[:60] + "..."
	}
	return s
}

func TestVX_C19(t *testing.T) {
	rep := mc.NewReport("C19", "util/exec")
	defer rep.Write()
	sc := vcmd.NewScratch("c19u")
	defer func() { rep.Count("stray-processes-killed", int64(sc.Close())) }()
	cases := vcmd.Catalogue(sc.Dir)
	guard := vcmd.Guard(30 * time.Second)
	// environment of a desktop session: DISPLAY is set and the helpers of fan2go's desktop notification (who, id, sudo
	// notify-send) exist but are slow (sudo hangs for a minute). A command call must keep its bound there too, i.e. it
	// must not wait for a notification about the command's failure.
	fake := filepath.Join(sc.Dir, "desktop-bin")
	if err := os.MkdirAll(fake, 0o755); err != nil {
		panic(err)
	}
	for name, body := range map[string]string{"who": "echo 'vxuser   :0   2026-01-01 00:00 (:0)'", "id": "echo 1234", "sudo": "exec sleep 60", "notify-send": "exec sleep 60"} {
		if err := os.WriteFile(filepath.Join(fake, name), []byte("#!/bin/sh\n"+body+"\n"), 0o755); err != nil {
			panic(err)
		}
	}
	os.Setenv("PATH", fake+":"+os.Getenv("PATH"))
	os.Setenv("DISPLAY", ":0")

	var rc vcmd.Call
	if mc.ReplayCase(&rc) {
		if rc.Test != vxC19Test {
			rep.HarnessError("replay case belongs to " + rc.Test + " (site " + rc.Site + "): run that test with VERIF_REPLAY")
			return
		}
		c, ok := vcmd.FindCase(cases, rc.Case)
		if !ok {
			rep.HarnessError("unknown case " + rc.Case)
			return
		}
		rep.Evaluations = 1
		vxC19One(rep, c, time.Duration(rc.TimeoutMs)*time.Millisecond, guard)
		return
	}

	timeouts := []time.Duration{200 * time.Millisecond, 500 * time.Millisecond, 2 * time.Second}
	var jobs []func()
	i := 0
	reps := 1
	if mc.Thorough() {
		reps = 3 // the outcome of "exit vs deadline" races is timing dependent: repeat every pair
	}
	for _, c := range cases {
		for _, to := range timeouts {
			i++
			if !mc.Mine(i) {
				continue
			}
			c, to := c, to
			for r := 0; r < reps; r++ {
				jobs = append(jobs, func() { vxC19One(rep, c, to, guard) })
			}
		}
	}
	vcmd.RunAll(jobs, 15*time.Millisecond)
	rep.Evaluations = int64(len(jobs))
	rep.AddDistinct(int64(len(jobs) / reps)) // (failure mode, timeout) pairs, enumerated once each (x reps repetitions in thorough)
	rep.Configs = int64(len(cases))
	var names []string
	for _, c := range cases {
		names = append(names, c.Name)
	}
	rep.Sample(map[string]any{"site": "util.SafeCmdExecution", "case": "grandchild-holds-stdout", "script": "#!/bin/sh\nsleep 60 &\necho 42", "timeouts_s": []float64{0.2, 0.5, 2}})
	rep.Sample(map[string]any{"site": "util.SafeCmdExecution", "case": "missing-interpreter", "script": "#!/nonexistent/verif-no-such-interpreter\necho 42", "timeouts_s": []float64{0.2, 0.5, 2}})
	rep.Note("environment: DISPLAY=:0, and who/id/sudo/notify-send found first on PATH are stand-ins (sudo and notify-send hang for 60 s)")
	rep.Note("catalogue: " + strings.Join(names, ", "))
	rep.Note(fmt.Sprintf("real processes and wall clock; bound = timeout + %v; hang guard %v; cases run concurrently", vcmd.Margin, guard))
}
