package util

// C18 (run 1 of 2): only root-controlled executables are ever run.
//
// Real files under /dev/shm/verif-c18-<pid>/, real SafeCmdExecution, real /bin/sh processes:
//   part 1: owner {0,1234} x group {0,1234} x all 512 permission modes x {direct path, symlink} = 4096
//           files, each a tiny script that creates a marker file;
//   part 2: all ordered pairs of 32 core states (8 modes x owner x group) x {direct, symlink} as
//           "execute, chown/chmod, execute again";
//   part 3: the same ordered pairs with a symlink that is re-pointed from a file in state A to a file in
//           state B between the two executions.
// Oracle (one-directional, as stated): not(uid 0 and not(gid != 0 and group-write) and not other-write)
//   => error returned and marker absent. Panics are caught, counted and left to C19.

import (
	"fmt"
	"os"
	"path/filepath"
	"strings"
	"testing"
	"time"

	"github.com/markusressel/fan2go/internal/verifshim/mc"
	"github.com/markusressel/fan2go/internal/verifshim/vcmd"
)

type vxC18Case struct {
	Part    int            `json:"part"`
	Symlink bool           `json:"symlink"`
	A       vcmd.PermState `json:"a"`
	B       vcmd.PermState `json:"b"` // parts 2, 3: state at the second execution
}

func (c vxC18Case) String() string {
	how := "direct path"
	if c.Symlink {
		how = "via symlink"
	}
	switch c.Part {
	case 1:
		return fmt.Sprintf("file %v, %s", c.A, how)
	case 2:
		return fmt.Sprintf("file %v -> chown/chmod -> %v, %s", c.A, c.B, how)
	}
	switch c.Part {
	case 4:
		return fmt.Sprintf("file %v reached through <symlinked dir>/../tool", c.A)
	case 5:
		return fmt.Sprintf("file %v named by the relative path tools/probe", c.A)
	case 6:
		return fmt.Sprintf("file %v named by a bare command name that only $PATH resolves", c.A)
	case 7:
		return fmt.Sprintf("root-controlled file that becomes %v while its call may be waiting behind another command", c.A)
	}
	return fmt.Sprintf("symlink re-pointed from file %v to file %v", c.A, c.B)
}

type vxC18Env struct {
	rep *mc.Report
	dir string
	seq int
}

type vxC18Obs struct {
	err      error
	panicked string
	executed bool
}

func (e *vxC18Env) script(name, marker string, st vcmd.PermState) string {
	p := filepath.Join(e.dir, name)
	if err := os.WriteFile(p, []byte("#!/bin/sh\n: > "+marker+"\necho ran\n"), 0o700); err != nil {
		panic(err)
	}
	if err := st.Apply(p); err != nil {
		panic(err)
	}
	return p
}

// exec runs the real SafeCmdExecution on path and reports whether the script left its marker.
func (e *vxC18Env) exec(path, marker string) (o vxC18Obs) {
	_ = os.Remove(marker)
	func() {
		defer func() {
			if x := recover(); x != nil {
				o.panicked = fmt.Sprint(x)
			}
		}()
		_, o.err = SafeCmdExecution(path, nil, 5*time.Second)
	}()
	if _, err := os.Stat(marker); err == nil {
		o.executed = true
	}
	_ = os.Remove(marker)
	return o
}

// judge applies the oracle for one execution of a file whose resolved target is in state st.
func (e *vxC18Env) judge(c vxC18Case, call string, st vcmd.PermState, o vxC18Obs) {
	rep := e.rep
	how := "direct"
	if c.Symlink || c.Part == 3 {
		how = "symlink"
	}
	if o.panicked != "" {
		rep.Count("panics (left to C19)", 1)
	}
	if vcmd.Allowed(st.Uid, st.Gid, st.Mode) {
		switch {
		case o.executed:
			rep.Count("allowed: executed", 1)
		case o.panicked != "":
			rep.Count("allowed: not started, call panicked", 1)
		default:
			rep.Count("allowed: not executed, error returned", 1)
		}
		return
	}
	why := vcmd.WhyNot(st.Uid, st.Gid, st.Mode)
	rep.Count("disallowed", 1)
	pre := "C18 "
	if call == "second" {
		pre = "C18 second execution after change: "
	}
	if o.executed {
		rep.Violate(mc.Violation{Signature: pre + "disallowed file executed (" + why + ", " + how + ")",
			Detail: fmt.Sprintf("%v: %s execution ran the script (marker present) although the file is %v [%s]; returned error: %v", c, call, st, why, o.err), Replay: c})
		return
	}
	if o.err == nil && o.panicked == "" {
		rep.Violate(mc.Violation{Signature: pre + "no error for disallowed file (" + why + ", " + how + ")",
			Detail: fmt.Sprintf("%v: %s execution returned no error although the file is %v [%s]", c, call, st, why), Replay: c})
		return
	}
	rep.Count("disallowed: refused with error, not executed", 1)
}

func (e *vxC18Env) run(c vxC18Case) {
	e.seq++
	e.rep.Evaluations++
	base := fmt.Sprintf("f%d", e.seq)
	marker := filepath.Join(e.dir, base+".marker")
	switch c.Part {
	case 1, 2:
		file := e.script(base, marker, c.A)
		path := file
		if c.Symlink {
			path = filepath.Join(e.dir, base+".lnk")
			if err := os.Symlink(file, path); err != nil {
				panic(err)
			}
		}
		e.judge(c, "first", c.A, e.exec(path, marker))
		if c.Part == 2 {
			if err := c.B.Apply(file); err != nil {
				panic(err)
			}
			e.judge(c, "second", c.B, e.exec(path, marker))
		}
		_ = os.Remove(path)
		_ = os.Remove(file)
	case 4:
		// path shape: <root dir>/conf/plugins/../tool where plugins is a symlink to <root dir>/user/plugins.
		// The kernel resolves it to user/tool (the file under test, state A); a textual clean-up of the path
		// would instead name conf/tool, a root-controlled decoy. The verdict must be about the file that runs.
		root := filepath.Join(e.dir, base+".d")
		for _, d := range []string{"conf", "user/plugins"} {
			if err := os.MkdirAll(filepath.Join(root, d), 0o755); err != nil {
				panic(err)
			}
		}
		decoyMarker := filepath.Join(e.dir, base+".decoy")
		if err := os.WriteFile(filepath.Join(root, "conf", "tool"), []byte("#!/bin/sh\n: > "+decoyMarker+"\necho decoy\n"), 0o755); err != nil {
			panic(err)
		}
		file := filepath.Join(root, "user", "tool")
		if err := os.WriteFile(file, []byte("#!/bin/sh\n: > "+marker+"\necho ran\n"), 0o700); err != nil {
			panic(err)
		}
		if err := c.A.Apply(file); err != nil {
			panic(err)
		}
		if err := os.Symlink(filepath.Join(root, "user", "plugins"), filepath.Join(root, "conf", "plugins")); err != nil {
			panic(err)
		}
		e.judge(c, "first", c.A, e.exec(filepath.Join(root, "conf", "plugins")+"/../tool", marker))
		_ = os.Remove(decoyMarker)
		_ = os.RemoveAll(root)
	case 5:
		// relative path with a directory part, as in `exec: tools/probe`: the file that is CHECKED (<cwd>/tools/probe, state A)
		// must be the file that RUNS. A decoy with the opposite verdict sits at <cwd>/tools/tools/probe, where a command that
		// is started from the executable's own directory would look for the same relative path.
		root := filepath.Join(e.dir, base+".d")
		if err := os.MkdirAll(filepath.Join(root, "tools", "tools"), 0o755); err != nil {
			panic(err)
		}
		decoyMarker := filepath.Join(e.dir, base+".decoy")
		decoy := filepath.Join(root, "tools", "tools", "probe")
		if err := os.WriteFile(decoy, []byte("#!/bin/sh\n: > "+decoyMarker+"\necho decoy\n"), 0o755); err != nil {
			panic(err)
		}
		ds := vcmd.PermState{Uid: 0, Gid: 0, Mode: 0o755}
		if vcmd.Allowed(c.A.Uid, c.A.Gid, c.A.Mode) {
			ds = vcmd.PermState{Uid: 1234, Gid: 1234, Mode: 0o777}
		}
		if err := ds.Apply(decoy); err != nil {
			panic(err)
		}
		file := filepath.Join(root, "tools", "probe")
		if err := os.WriteFile(file, []byte("#!/bin/sh\n: > "+marker+"\necho ran\n"), 0o700); err != nil {
			panic(err)
		}
		if err := c.A.Apply(file); err != nil {
			panic(err)
		}
		old, _ := os.Getwd()
		if err := os.Chdir(root); err != nil {
			panic(err)
		}
		o := e.exec("tools/probe", marker)
		_ = os.Chdir(old)
		e.judge(c, "first", c.A, o)
		if _, err := os.Stat(decoyMarker); err == nil {
			e.rep.Violate(mc.Violation{Signature: "C18 relative path: a file other than the checked one was executed",
				Detail: fmt.Sprintf("exec 'tools/probe' from %s: checked file %v, but tools/tools/probe (%v) ran", root, c.A, ds), Replay: c})
		}
		_ = os.Remove(decoyMarker)
		_ = os.RemoveAll(root)
	case 6:
		// bare command name (no slash): fan2go checks the name as a path relative to its working directory; os/exec would
		// look the same name up on $PATH. A file of state A sits in a directory that is first on $PATH and nowhere else:
		// whatever the verdict mechanism, a file that is not root-controlled must not run.
		root := filepath.Join(e.dir, base+".d")
		if err := os.MkdirAll(filepath.Join(root, "bin"), 0o755); err != nil {
			panic(err)
		}
		name := "vxprobe" + base
		file := filepath.Join(root, "bin", name)
		if err := os.WriteFile(file, []byte("#!/bin/sh\n: > "+marker+"\necho ran\n"), 0o700); err != nil {
			panic(err)
		}
		if err := c.A.Apply(file); err != nil {
			panic(err)
		}
		oldPath := os.Getenv("PATH")
		os.Setenv("PATH", filepath.Join(root, "bin")+":"+oldPath)
		old, _ := os.Getwd()
		_ = os.Chdir(root)
		o := e.exec(name, marker)
		_ = os.Chdir(old)
		os.Setenv("PATH", oldPath)
		if !vcmd.Allowed(c.A.Uid, c.A.Gid, c.A.Mode) {
			e.judge(c, "first", c.A, o)
		} else if o.executed {
			e.rep.Count("bare name of a root-controlled file on PATH: executed", 1)
		} else {
			e.rep.Count("bare name of a root-controlled file on PATH: refused", 1)
		}
		_ = os.RemoveAll(root)
	case 7:
		// a call that has been checked may have to wait (another command is running); the file changes owner meanwhile.
		// The script reports the owner and mode IT HAS WHEN IT RUNS: whenever it runs, it must be root-controlled then.
		root := filepath.Join(e.dir, base+".d")
		if err := os.MkdirAll(root, 0o755); err != nil {
			panic(err)
		}
		slow := filepath.Join(root, "slow")
		if err := os.WriteFile(slow, []byte("#!/bin/sh\nsleep 1.2\necho slow\n"), 0o755); err != nil {
			panic(err)
		}
		probe := filepath.Join(root, "probe")
		if err := os.WriteFile(probe, []byte("#!/bin/sh\nstat -c '%u:%g %a' \"$0\" > "+marker+"\necho ran\n"), 0o755); err != nil {
			panic(err)
		}
		_ = os.Chown(slow, 0, 0)
		_ = os.Chown(probe, 0, 0)
		_ = os.Remove(marker)
		done := make(chan struct{}, 2)
		go func() { _, _ = SafeCmdExecution(slow, nil, 5*time.Second); done <- struct{}{} }()
		time.Sleep(250 * time.Millisecond)
		go func() { _, _ = SafeCmdExecution(probe, nil, 5*time.Second); done <- struct{}{} }()
		time.Sleep(250 * time.Millisecond)
		if err := c.A.Apply(probe); err != nil {
			panic(err)
		}
		<-done
		<-done
		if b, err := os.ReadFile(marker); err == nil {
			var uid, gid int
			var mode uint32
			if _, err := fmt.Sscanf(strings.TrimSpace(string(b)), "%d:%d %o", &uid, &gid, &mode); err == nil {
				if !vcmd.Allowed(uid, gid, os.FileMode(mode)) {
					e.rep.Violate(mc.Violation{Signature: "C18 a command ran although its file was not root-controlled at that moment (changed while the call waited)",
						Detail: fmt.Sprintf("probe was root:root 0755 when SafeCmdExecution was called, another command was running; 250 ms later the file became %v; when the probe ran it reported owner/mode %q", c.A, strings.TrimSpace(string(b))), Replay: c})
				} else {
					e.rep.Count("waiting call: ran while root-controlled", 1)
				}
			}
		} else {
			e.rep.Count("waiting call: not executed", 1)
		}
		_ = os.Remove(marker)
		_ = os.RemoveAll(root)
	case 8:
		// the file is still open for writing when the checked call tries to start it (an update in progress: the kernel
		// answers "text file busy"); 60 ms later it changes to state A, 350 ms later the writer closes it. Whenever the
		// script runs - at once, never, or on some retry - it must be root-controlled at that moment.
		root := filepath.Join(e.dir, base+".d")
		if err := os.MkdirAll(root, 0o755); err != nil {
			panic(err)
		}
		probe := filepath.Join(root, "probe")
		if err := os.WriteFile(probe, []byte("#!/bin/sh\nstat -c '%u:%g %a' \"$0\" >> "+marker+"\necho ran\n"), 0o755); err != nil {
			panic(err)
		}
		_ = os.Chown(probe, 0, 0)
		_ = os.Remove(marker)
		writer, err := os.OpenFile(probe, os.O_WRONLY|os.O_APPEND, 0)
		if err != nil {
			panic(err)
		}
		done := make(chan struct{}, 1)
		go func() { _, _ = SafeCmdExecution(probe, nil, 5*time.Second); done <- struct{}{} }()
		time.Sleep(60 * time.Millisecond)
		if err := c.A.Apply(probe); err != nil {
			panic(err)
		}
		time.Sleep(290 * time.Millisecond)
		writer.Close()
		<-done
		time.Sleep(50 * time.Millisecond)
		if b, err := os.ReadFile(marker); err == nil {
			for _, l := range strings.Split(strings.TrimSpace(string(b)), "\n") {
				var uid, gid int
				var mode uint32
				if _, err := fmt.Sscanf(strings.TrimSpace(l), "%d:%d %o", &uid, &gid, &mode); err == nil && !vcmd.Allowed(uid, gid, os.FileMode(mode)) {
					e.rep.Violate(mc.Violation{Signature: "C18 a command ran although its file was not root-controlled at that moment (file was busy when first started)",
						Detail: fmt.Sprintf("probe was root:root 0755 and open for writing when SafeCmdExecution was called (text file busy); 60 ms later the file became %v, 350 ms later the writer closed it; when the probe ran it reported owner/mode %q", c.A, strings.TrimSpace(l)), Replay: c})
					break
				}
			}
			e.rep.Count("busy file: executed", 1)
		} else {
			e.rep.Count("busy file: not executed", 1)
		}
		_ = os.Remove(marker)
		_ = os.RemoveAll(root)
	case 3:
		fa := e.script(base+"a", marker, c.A)
		fb := e.script(base+"b", marker, c.B)
		link := filepath.Join(e.dir, base+".lnk")
		if err := os.Symlink(fa, link); err != nil {
			panic(err)
		}
		e.judge(c, "first", c.A, e.exec(link, marker))
		_ = os.Remove(link)
		if err := os.Symlink(fb, link); err != nil {
			panic(err)
		}
		e.judge(c, "second", c.B, e.exec(link, marker))
		_ = os.Remove(link)
		_ = os.Remove(fa)
		_ = os.Remove(fb)
	}
}

func TestVX_C18(t *testing.T) {
	rep := mc.NewReport("C18", "util/exec")
	defer rep.Write()
	sc := vcmd.NewScratch("c18")
	defer sc.Close()
	e := &vxC18Env{rep: rep, dir: sc.Dir}

	var rc vxC18Case
	if mc.ReplayCase(&rc) {
		if rc.Part == 0 {
			rep.HarnessError("replay case belongs to TestVX_C18config (configuration file grid)")
			return
		}
		e.run(rc)
		return
	}

	idx := 0
	var n1, n2, n3, n4 int64
	// part 1: the complete grid
	for _, uid := range vcmd.Owners {
		for _, gid := range vcmd.Owners {
			for mode := 0; mode < 512; mode++ {
				for _, link := range []bool{false, true} {
					idx++
					if !mc.Mine(idx) {
						continue
					}
					c := vxC18Case{Part: 1, Symlink: link, A: vcmd.PermState{Uid: uid, Gid: gid, Mode: os.FileMode(mode)}}
					e.run(c)
					n1++
				}
			}
		}
	}
	// parts 2 and 3: change between two executions
	core := vcmd.CoreStates()
	for _, a := range core {
		for _, b := range core {
			for _, link := range []bool{false, true} {
				idx++
				if !mc.Mine(idx) {
					continue
				}
				e.run(vxC18Case{Part: 2, Symlink: link, A: a, B: b})
				n2++
			}
			idx++
			if mc.Mine(idx) {
				e.run(vxC18Case{Part: 3, Symlink: true, A: a, B: b})
				n3++
			}
		}
		// part 4: the path reaches the file through "<symlinked directory>/.."
		idx++
		if mc.Mine(idx) {
			e.run(vxC18Case{Part: 4, A: a})
			n4++
		}
		// part 5: relative path with a directory part
		idx++
		if mc.Mine(idx) {
			e.run(vxC18Case{Part: 5, A: a})
			n4++
		}
		// part 6: bare command name found on $PATH only
		idx++
		if mc.Mine(idx) {
			e.run(vxC18Case{Part: 6, A: a})
			n4++
		}
	}
	// part 7: owner/mode change while a checked call may be waiting for another command (a few states: 1.2 s each)
	for _, a := range []vcmd.PermState{{Uid: 1234, Gid: 1234, Mode: 0o755}, {Uid: 0, Gid: 0, Mode: 0o757}, {Uid: 0, Gid: 1234, Mode: 0o775}} {
		idx++
		if mc.Mine(idx) {
			e.run(vxC18Case{Part: 7, A: a})
			n4++
		}
	}
	// part 8: the file is busy (open for writing) at the first start attempt and changes owner/mode before it is closed
	for _, a := range []vcmd.PermState{{Uid: 1234, Gid: 1234, Mode: 0o755}, {Uid: 0, Gid: 0, Mode: 0o757}, {Uid: 0, Gid: 1234, Mode: 0o775}} {
		idx++
		if mc.Mine(idx) {
			e.run(vxC18Case{Part: 8, A: a})
			n4++
		}
	}
	rep.Count("part4 paths through a symlinked directory and '..'", n4)
	rep.Count("part1 files (owner x group x 512 modes x direct/symlink)", n1)
	rep.Count("part2 change-between-executions pairs", n2)
	rep.Count("part3 symlink-retarget pairs", n3)
	rep.AddDistinct(n1 + n2 + n3) // every case enumerated once
	rep.Configs = n1 + n2 + n3
	if s, _ := mc.Shard(); s == 0 {
		rep.Sample(map[string]any{"part": 1, "file": "0:1234 0775 via symlink", "expect": "error, marker absent (group 1234 may write)"})
		rep.Sample(map[string]any{"part": 2, "file": "0:0 0755 -> chmod 0757 (direct)", "expect": "first call runs the script, second call refused"})
		rep.Sample(map[string]any{"part": 3, "file": "symlink from 0:0 0755 to 1234:0 0755", "expect": "first call runs the script, second call refused"})
		rep.Note("script = '#!/bin/sh; : > <marker>; echo ran'; executed <=> marker exists after the call. Allowed files without any x bit cannot be started by root " +
			"(the call panics today, see C19) and are counted under 'allowed: not started, call panicked'")
		rep.Note(fmt.Sprintf("core modes of the pairs: %04o; sandbox runs as uid %d", vcmd.CoreModes, os.Getuid()))
	}
}
