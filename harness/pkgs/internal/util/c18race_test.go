package util

// C18 under concurrency: the daemon checks and runs the commands of every cmd sensor and cmd fan from their own goroutines.
// Several goroutines call the real SafeCmdExecution / CheckFilePermissionsForExecution at once, each on its own executable
// (some root-controlled, some not). Oracles: (a) a file that is not root-controlled is never run and always refused, a
// root-controlled one always runs; (b) this binary is built with the race detector (happens-before oracle, GORACE writes
// to ./race.<pid>): any report whose top fan2go frame lies in internal/util means the permission check or the command
// execution keeps state that concurrent callers share without synchronisation.

import (
	"fmt"
	"os"
	"path/filepath"
	"regexp"
	"strings"
	"sync"
	"testing"
	"time"

	"github.com/markusressel/fan2go/internal/verifshim/mc"
	"github.com/markusressel/fan2go/internal/verifshim/vcmd"
)

// first fan2go frame of an access stack (function, file, line)
var vxRaceFrameU = regexp.MustCompile(`(?m)^  (github\.com/markusressel/fan2go/[^\s(]+(?:\([^)]*\))?[^\s(]*)\(\)?\n\s+(/[^\s:]+\.go):(\d+)`)

func TestVX_C18race(t *testing.T) {
	rep := mc.NewReport("C18", "util/exec-concurrent")
	defer rep.Write()
	var rc struct{ X int }
	if mc.ReplayCase(&rc) {
		// the scenario has no parameters: a replay re-runs it
	}
	sc := vcmd.NewScratch("c18r")
	defer sc.Close()
	type file struct {
		path, marker string
		st           vcmd.PermState
		allowed      bool
	}
	states := []vcmd.PermState{{Uid: 0, Gid: 0, Mode: 0o755}, {Uid: 1234, Gid: 1234, Mode: 0o777}, {Uid: 0, Gid: 0, Mode: 0o700}, {Uid: 0, Gid: 1234, Mode: 0o775}, {Uid: 0, Gid: 0, Mode: 0o757}, {Uid: 1234, Gid: 0, Mode: 0o755}}
	var files []file
	for i, st := range states {
		p := filepath.Join(sc.Dir, fmt.Sprintf("cmd%d", i))
		m := p + ".marker"
		if err := os.WriteFile(p, []byte("#!/bin/sh\n: > "+m+"\necho 42\n"), 0o700); err != nil {
			panic(err)
		}
		if err := st.Apply(p); err != nil {
			panic(err)
		}
		files = append(files, file{p, m, st, vcmd.Allowed(st.Uid, st.Gid, st.Mode)})
	}
	iters := 40
	if mc.Thorough() {
		iters = 400
	}
	var mu sync.Mutex
	var calls int64
	bad := func(sig, msg string) {
		mu.Lock()
		defer mu.Unlock()
		rep.Violate(mc.Violation{Signature: sig, Detail: msg, Replay: rc})
	}
	var wg sync.WaitGroup
	start := make(chan struct{})
	for _, f := range files {
		f := f
		// executor
		wg.Add(1)
		go func() {
			defer wg.Done()
			<-start
			for k := 0; k < iters; k++ {
				out, err := SafeCmdExecution(f.path, nil, 5*time.Second)
				mu.Lock()
				calls++
				mu.Unlock()
				_, merr := os.Stat(f.marker)
				switch {
				case !f.allowed && merr == nil:
					bad("C18 concurrent callers: a file that is not root-controlled was executed", fmt.Sprintf("%s (%v) ran while %d other goroutines were checking/running other commands; returned %q, %v", f.path, f.st, 2*len(files)-1, out, err))
					_ = os.Remove(f.marker)
					return
				case !f.allowed && err == nil:
					bad("C18 concurrent callers: no error for a file that is not root-controlled", fmt.Sprintf("%s (%v): returned %q", f.path, f.st, out))
					return
				case f.allowed && (err != nil || out != "42"):
					bad("C18 concurrent callers: a root-controlled command was refused or returned something else", fmt.Sprintf("%s (%v): returned %q, %v", f.path, f.st, out, err))
					return
				}
			}
		}()
		// checker only (many more iterations: no process is started)
		wg.Add(1)
		go func() {
			defer wg.Done()
			<-start
			for k := 0; k < iters*25; k++ {
				ok, err := CheckFilePermissionsForExecution(f.path)
				mu.Lock()
				calls++
				mu.Unlock()
				if ok != f.allowed || (err == nil) != f.allowed {
					bad("C18 concurrent callers: wrong verdict of the permission check", fmt.Sprintf("%s (%v, root-controlled=%v): verdict %v, %v", f.path, f.st, f.allowed, ok, err))
					return
				}
			}
		}()
	}
	close(start)
	wg.Wait()
	rep.Evaluations = calls
	rep.AddDistinct(int64(len(files)))
	// race reports of this process
	for site, r := range vxUtilRaceSites(rep) {
		bad("C18 permission check / command execution shares unsynchronised state between concurrent callers: "+site, "race detector report:\n"+clipU(r, 1800))
	}
	logs, _ := filepath.Glob("race.*")
	rep.Sample(map[string]any{"goroutines": 2 * len(files), "calls": calls, "files": fmt.Sprint(states), "race_logs": len(logs)})
	defer func() {
		// the testing package fails a test for ANY race report, also those inside the logging library (artefacts of this
		// build): the verdict is in the report, leave before testing looks
		sc.Close()
		rep.Write()
		os.Exit(0)
	}()
	rep.Note("concurrent callers of the real SafeCmdExecution / CheckFilePermissionsForExecution, one executable per goroutine pair (6 owner/mode states); race-instrumented build: verdicts per call plus happens-before race reports inside internal/util")
}

// vxUtilRaceSites parses the race detector logs of this process (GORACE log_path=race) and returns, per racy site inside
// internal/util ("function at `statement`"), one report.
func vxUtilRaceSites(rep *mc.Report) map[string]string {
	sites := map[string]string{}
	logs, _ := filepath.Glob("race.*")
	for _, l := range logs {
		b, _ := os.ReadFile(l)
		for _, r := range strings.Split(string(b), "WARNING: DATA RACE")[1:] {
			m := vxRaceFrameU.FindStringSubmatch(r)
			rep.Count("race_reports", 1)
			if m == nil {
				continue
			}
			site := strings.TrimPrefix(m[1], "github.com/markusressel/fan2go/")
			// the TOP fan2go frame of the current access decides: races inside the logging package are artefacts of this
			// build (its global mutex is a no-op here, see harness/nosync); harness frames are not fan2go's
			if !strings.HasPrefix(site, "internal/util.") || strings.Contains(site, ".TestVX") || strings.Contains(site, ".vx") {
				rep.Count("race_reports_outside_internal_util", 1)
				continue
			}
			if src, err := os.ReadFile(m[2]); err == nil {
				ls := strings.Split(string(src), "\n")
				n := 0
				fmt.Sscanf(m[3], "%d", &n)
				if n >= 1 && n <= len(ls) {
					site += " at `" + strings.Join(strings.Fields(ls[n-1]), " ") + "`"
				}
			}
			if _, ok := sites[site]; !ok {
				sites[site] = r
			}
		}
	}
	return sites
}

func clipU(s string, n int) string {
	if len(s) > n {
		return s[:n] + "..."
	}
	return s
}
