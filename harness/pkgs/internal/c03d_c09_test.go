package internal

import (
	"fmt"
	"os"
	"strings"
	"sync"
	"sync/atomic"
	"testing"
	"time"

	"github.com/markusressel/fan2go/internal/verifshim/mc"
)

// ---------------------------------------------------------------- C03 layer 2

type vxC03dCase struct {
	Job vxJob `json:"job"`
}

func vxC03dOracle(job vxJob, o vxOutcome) (sig, msg string) {
	nsig := 0
	for _, e := range o.Events {
		if strings.Contains(e, " signal ") {
			nsig++
		}
	}
	cls := fmt.Sprintf("%d signal(s)", nsig)
	if nsig > 2 {
		cls = "3+ signals"
	}
	bad := vxFansRestored(job, o)
	if o.Panic != "" {
		return "C03 daemon crashed during shutdown (" + cls + ")", fmt.Sprintf("%s\nfans afterwards: %v", o.Panic, bad)
	}
	if vxHas(o.Events, "default-disposition") {
		if len(bad) > 0 {
			return "C03 daemon killed by a later signal before fans were restored (" + cls + ")", strings.Join(bad, "; ")
		}
		return "", ""
	}
	if vxHas(o.Events, "still running one minute after") {
		return "C03 daemon does not exit after SIGTERM", strings.Join(o.Events, " | ")
	}
	if len(bad) > 0 {
		return "C03 fan left in manual mode at reduced speed after daemon exit (" + cls + ")", strings.Join(bad, "; ")
	}
	if o.Exit != 0 {
		return "C03 daemon exit status non-zero", fmt.Sprintf("exit %d stderr tail: %s", o.Exit, tail(o.Stderr, 600))
	}
	return "", ""
}

func tail(s string, n int) string {
	if len(s) > n {
		return s[len(s)-n:]
	}
	return s
}

func TestVX_C03daemon(t *testing.T) {
	rep := mc.NewReport("C03", "internal/daemon-signals")
	defer rep.Write()
	scratch := vxScratch("c03d")
	defer os.RemoveAll(scratch)
	var rc vxC03dCase
	if mc.ReplayCase(&rc) {
		if rc.Job.Fans == nil {
			return
		}
		o := vxRunJob(scratch, rc.Job, 1)
		if sig, msg := vxC03dOracle(rc.Job, o); sig != "" {
			rep.Violate(mc.Violation{Signature: sig, Detail: msg + "\n" + vxOutcomeString(rc.Job, o), Replay: rc})
		}
		rep.Evaluations = 1
		return
	}
	var jobs []vxJob
	for _, m := range []int{0, 1, 2} {
		for _, p := range []int{40, 255} {
			jobs = append(jobs, vxJob{Fans: []vxJobFan{{ID: "fanA", Kind: "hwmon", OrigMode: m, OrigPwm: p, Stored: true}}, Sensor: "hwmon", Curve: "linear", OpChoices: true, Cycles: 3})
		}
	}
	jobs = append(jobs,
		// regulation range ends below 255 (configured maxPwm): fail-safe must still be 255
		vxJob{Fans: []vxJobFan{{ID: "fanA", Kind: "hwmon", OrigMode: 1, OrigPwm: 60, Stored: true, MaxPwm: 120}}, Sensor: "hwmon", Curve: "linear", OpChoices: true, Cycles: 3},
		vxJob{Fans: []vxJobFan{{ID: "fanA", Kind: "file", OrigMode: -1, OrigPwm: 127, Stored: true}}, Sensor: "file", Curve: "linear", OpChoices: true, Cycles: 3},
		vxJob{Fans: []vxJobFan{{ID: "fanA", Kind: "hwmon", OrigMode: -1, OrigPwm: 90, NoEnable: true, Stored: true}}, Sensor: "file", Curve: "pid", OpChoices: true, Cycles: 3},
		// a fan driven through external commands (its restore path runs those commands while the daemon shuts down); time-based points
		vxJob{Fans: []vxJobFan{{ID: "fanA", Kind: "cmd", OrigMode: -1, OrigPwm: 90, Stored: true}}, Sensor: "file", Curve: "linear", OpChoices: false, Cycles: 3},
		// two fans: op-level points would depend on the tie order of simultaneously woken controllers, so only time-based points
		vxJob{Fans: []vxJobFan{{ID: "fanA", Kind: "hwmon", OrigMode: 2, OrigPwm: 60, Stored: true}, {ID: "fanB", Kind: "file", OrigMode: -1, OrigPwm: 127, Stored: true}}, Sensor: "hwmon", Curve: "linear", OpChoices: false, Cycles: 3},
		vxJob{Fans: []vxJobFan{{ID: "fanA", Kind: "hwmon", OrigMode: 2, OrigPwm: 60, Stored: true}, {ID: "fanB", Kind: "hwmon", OrigMode: 0, OrigPwm: 200, Stored: true}}, Sensor: "file", Curve: "func-linear", OpChoices: false, Cycles: 3},
	)
	// signals while a fan is still being analysed (PWM sweep at ~2.4..3.7 s, RPM-curve measurement for minutes afterwards),
	// alone and next to a fan that is already regulating
	initInstants := []int{1000, 2500, 3000, 3650, 4200, 15000, 60000, 300000, 520000}
	jobs = append(jobs,
		vxJob{Fans: []vxJobFan{{ID: "fanA", Kind: "hwmon", OrigMode: 2, OrigPwm: 60, Stored: false}}, Sensor: "file", Curve: "linear", OpChoices: false, InstantsMs: initInstants, FinalAtMs: 540000},
		vxJob{Fans: []vxJobFan{{ID: "fanA", Kind: "hwmon", OrigMode: 0, OrigPwm: 200, Stored: false}, {ID: "fanB", Kind: "file", OrigMode: -1, OrigPwm: 127, Stored: true}}, Sensor: "hwmon", Curve: "linear", OpChoices: false, InstantsMs: initInstants, FinalAtMs: 540000},
		vxJob{Fans: []vxJobFan{{ID: "fanA", Kind: "file", OrigMode: -1, OrigPwm: 90, Stored: false}}, Sensor: "file", Curve: "pid", OpChoices: false, InstantsMs: []int{1000, 2500, 3000, 3650, 4200, 5000}, FinalAtMs: 8000},
	)
	bound := 2
	if mc.Thorough() {
		bound = 3
	}
	deadline := mc.Deadline(70*time.Second, 13*time.Minute)
	for ji, job := range jobs {
		if !mc.Mine(ji) {
			continue
		}
		job.MaxSignals = bound
		var sample atomic.Value
		st := mc.Explore(rep, mc.ExploreOpts{Bound: bound, Deadline: deadline, RecheckN: 150, Workers: 4, OnExec: func(tape []int, e mc.Exec) {
			nd := 0
			for _, c := range tape {
				if c != 0 {
					nd++
				}
			}
			if nd == bound && sample.Load() == nil {
				sample.Store(map[string]any{"job": job.Describe(), "tape": tape, "outcome": e.Outcome})
			}
		}}, func(prefix []int) mc.Exec {
			j := job
			j.Tape = prefix
			o := vxRunJob(scratch, j, atomic.AddInt64(&vxJobSeq, 1))
			var viol []mc.Violation
			if sig, msg := vxC03dOracle(j, o); sig != "" {
				viol = append(viol, mc.Violation{Property: "C03", Signature: sig, Detail: msg + "\njob: " + j.Describe() + "\n" + vxOutcomeString(j, o), Replay: vxC03dCase{j}})
			}
			return mc.Exec{Points: o.Points, Outcome: job.Describe() + " | " + vxOutcomeString(j, o), Viol: viol}
		})
		rep.Configs++
		if st.Capped {
			rep.Cap(fmt.Sprintf("deadline reached for %s: signal bound %d completed", job.Describe(), st.BoundDone))
		}
		if b, ok := rep.BoundDone["signals"]; !ok || st.BoundDone < b {
			rep.BoundDone["signals"] = st.BoundDone
		}
		if s := sample.Load(); s != nil {
			rep.Sample(s)
		}
	}
	rep.Note("one OS process per execution; deviations = SIGTERM/SIGINT delivered before a file operation (single-fan jobs) or at an idle instant, in addition to the final SIGTERM; fan state read from the mirrored device files after the process is gone")
}

// ---------------------------------------------------------------- C09

type vxC09Case struct {
	Job vxJob `json:"job"`
}

func vxC09Oracle(job vxJob, o vxOutcome) (sig, msg string) {
	cls := func() string {
		var parts []string
		for _, f := range job.Faults {
			p := f.Component + ":" + f.Kind
			if f.Persist {
				p += "(persistent)"
			}
			parts = append(parts, p)
		}
		fk := "no fault"
		if len(parts) > 0 {
			fk = strings.Join(parts, "+")
		}
		return fmt.Sprintf("curve=%s fault=%s", job.Curve, fk)
	}
	finalSeen := vxHas(o.Events, "(final)")
	if o.Panic != "" {
		site := "other"
		if strings.Contains(o.Stderr, "calculateTargetPwm") && strings.Contains(o.Stderr, "ui.Fatal") {
			site = "controller.calculateTargetPwm:ui.Fatal"
		} else if strings.Contains(o.Stderr, "ui.Fatal") {
			site = "ui.Fatal"
		} else if i := strings.Index(o.Stderr, "panic: "); i >= 0 {
			// first fan2go (non-harness) frame of the panicking goroutine
			for _, l := range strings.Split(o.Stderr[i:], "\n") {
				if strings.HasPrefix(l, "github.com/markusressel/fan2go/") && !strings.Contains(l, "verifshim") && !strings.Contains(l, ".vx") && !strings.Contains(l, "TestVX") {
					site = strings.TrimPrefix(l, "github.com/markusressel/fan2go/")
					if k := strings.LastIndex(site, "("); k > 0 {
						site = site[:k]
					}
					break
				}
			}
		}
		return "C09 daemon crashed (site=" + site + ")", fmt.Sprintf("%s (%s)\nbefore the final SIGTERM: %v\nfans afterwards: %v", o.Panic, cls(), !finalSeen, vxFansRestored(job, o))
	}
	if !finalSeen {
		return "C09 daemon exited before the final SIGTERM", fmt.Sprintf("%s: exit %d; stderr tail: %s", cls(), o.Exit, tail(o.Stderr, 500))
	}
	if vxHas(o.Events, "still running one minute after") {
		return "C09 daemon does not exit after SIGTERM", cls()
	}
	if o.Exit != 0 {
		return "C09 daemon exit status non-zero", fmt.Sprintf("%s: exit %d; stderr tail: %s", cls(), o.Exit, tail(o.Stderr, 500))
	}
	// the driver refused / ignored the full-speed fallback write itself: nothing fan2go does could restore the fan
	fallbackFaulted := false
	for _, e := range o.Events {
		if strings.Contains(e, " fault pwmwrite") && (strings.HasSuffix(e, "pwm=255") || strings.HasSuffix(e, "pwm1=255")) {
			fallbackFaulted = true
		}
	}
	// non-vacuity: without faults the daemon must have been regulating (fan moved away from its original PWM)
	if len(job.Faults) == 0 {
		for _, f := range job.Fans {
			if vxHas(o.Events, fmt.Sprintf("regulating %s pwm=%d", f.ID, f.OrigPwm)) || !vxHas(o.Events, "regulating "+f.ID) {
				return "C09 harness: fault-free daemon run did not regulate the fan", strings.Join(o.Events, " | ")
			}
		}
	}
	if bad := vxFansRestored(job, o); len(bad) > 0 && !fallbackFaulted {
		return "C09 fan not restored when regulation ended", cls() + ": " + strings.Join(bad, "; ")
	}
	// "keeps regulating": with a moving target and nothing but failing PWM READS, the fan must be where the fault-free run has it
	if job.TempStepTo > 0 && len(job.Faults) > 0 {
		if got, ok := vxFinalRegulating(o, job.Fans[0].ID); !ok {
			return "C09 harness: no final PWM sample", strings.Join(o.Events, " | ")
		} else if got != job.ExpectFinalPwm {
			return "C09 fan2go stops following the curve while PWM reads fail", fmt.Sprintf("%s: just before the final SIGTERM the fan is at PWM %d, the fault-free run of the same job has it at %d (sensor jumped from 60000 to %d during window 1)", cls(), got, job.ExpectFinalPwm, job.TempStepTo)
		}
	}
	return "", ""
}

// vxFinalRegulating: device PWM of the fan sampled just before the final SIGTERM.
func vxFinalRegulating(o vxOutcome, id string) (int, bool) {
	for _, e := range o.Events {
		if i := strings.Index(e, " regulating "+id+" pwm="); i >= 0 {
			v := 0
			if _, err := fmt.Sscanf(e[i+len(" regulating "+id+" pwm="):], "%d", &v); err == nil {
				return v, true
			}
		}
	}
	return 0, false
}

func TestVX_C09(t *testing.T) {
	rep := mc.NewReport("C09", "internal/daemon-faults")
	defer rep.Write()
	scratch := vxScratch("c09")
	defer os.RemoveAll(scratch)
	var rc vxC09Case
	if mc.ReplayCase(&rc) {
		o := vxRunJob(scratch, rc.Job, 1)
		if sig, msg := vxC09Oracle(rc.Job, o); sig != "" {
			rep.Violate(mc.Violation{Signature: sig, Detail: msg + "\n" + vxOutcomeString(rc.Job, o), Replay: rc})
		}
		rep.Evaluations = 1
		return
	}
	type comp struct {
		c     string
		kinds []string
	}
	readKinds := []string{"error", "garbage", "blank", "empty"}
	comps := []comp{{"sensor", readKinds}, {"rpm", readKinds}, {"pwmread", readKinds}, {"pwmwrite", []string{"error", "ignored"}}, {"modewrite", []string{"error", "ignored"}},
		{"moderead", []string{"error", "garbage"}}} // moderead: the read-back of pwm_enable after a successful mode write fails
	var singles []vxFault
	for _, c := range comps {
		for _, k := range c.kinds {
			for w := 0; w < 5; w++ {
				singles = append(singles, vxFault{Component: c.c, Kind: k, Window: w})
			}
		}
	}
	// the RPM monitor starts ticking when the closed loop starts, one second (plus one tick) before the first control cycle:
	// windows -1 and -2 cover the monitor's first tick and the instant before it
	for _, c := range comps[:3] {
		for _, k := range []string{"error", "garbage"} {
			// -18: the fault is present when the daemon starts (first read of every sensor / of the fan's PWM and mode) and
			// clears 200 ms later
			for _, w := range []int{-18, -2, -1} {
				singles = append(singles, vxFault{Component: c.c, Kind: k, Window: w})
			}
		}
	}
	// well-formed integers far outside the register's range read from the PWM / RPM file (a driver glitch), incl. at start-up
	// and in the first control cycle
	for _, c := range comps[1:3] {
		for _, k := range []string{"absurd", "absurd-negative"} {
			for _, w := range []int{-18, -1, 0, 1, 3} {
				singles = append(singles, vxFault{Component: c.c, Kind: k, Window: w})
			}
		}
	}
	var jobs []vxJob
	ci := 0
	for _, fk := range []string{"hwmon", "file", "cmd"} {
		for _, sk := range []string{"hwmon", "file", "cmd"} {
			for _, cv := range []string{"linear", "pid", "func-linear", "func-pid", "func2pid-sum", "func2pid-difference", "func2pid-average", "func2pid-delta", "func2pid-minimum", "func2pid-maximum"} {
				if strings.HasPrefix(cv, "func2pid-") && !mc.Thorough() && (fk != "hwmon" || sk == "cmd") {
					continue // quick: the six function types over PID members on hwmon fans with hwmon/file sensors
				}
				ci++
				base := vxJob{Fans: []vxJobFan{{ID: "fanA", Kind: fk, OrigMode: 2, OrigPwm: 70, Stored: true}}, Sensor: sk, Curve: cv, Cycles: 7}
				if fk != "hwmon" {
					base.Fans[0].OrigMode = -1
				}
				add := func(fs ...vxFault) {
					j := base
					j.Faults = fs
					for _, f := range fs {
						if (f.Component == "modewrite" || f.Component == "moderead") && fk != "hwmon" {
							return
						}
					}
					jobs = append(jobs, j)
				}
				add()
				heavy := fk == "cmd" || sk == "cmd"
				for si, f := range singles {
					if heavy && !mc.Thorough() && f.Window%2 == 1 && f.Window > 0 {
						continue // quick: cmd back-ends spawn hundreds of processes per execution; windows 0,2,4 only
					}
					_ = si
					add(f)
				}
				// cmd back-ends: the command of a component cannot be started at all (lost its x bit) during one window
				if heavy {
					for _, c := range comps[:4] {
						for _, w := range []int{0, 2} {
							add(vxFault{Component: c.c, Kind: "nostart", Window: w})
						}
					}
				}
				// faults that are still active when the daemon is told to stop
				for _, c := range comps {
					for _, k := range c.kinds {
						if heavy && !mc.Thorough() && k != c.kinds[0] {
							continue
						}
						add(vxFault{Component: c.c, Kind: k, Window: 2, Persist: true})
					}
				}
				// a read-side fault (control error candidates) together with a write-side fault in the SAME control period:
				// the restoration that follows a control error then fails as well
				for _, rc := range comps[:3] {
					for _, rk := range rc.kinds {
						for _, wc := range comps[3:] {
							for _, wk := range wc.kinds {
								for _, w := range []int{0, 2} {
									if !mc.Thorough() && (heavy || (rk != "error" && rk != "blank")) {
										continue
									}
									add(vxFault{Component: rc.c, Kind: rk, Window: w}, vxFault{Component: wc.c, Kind: wk, Window: w})
								}
							}
						}
					}
				}
				// pairs: every pair of single faults (thorough: on all combos; quick: on 4 representative combos, windows 0..2)
				pairCombo := (mc.Thorough() && !strings.HasPrefix(cv, "func2pid-")) || (ci%9 == 2 && !heavy) || (cv == "func2pid-delta" && fk == "hwmon" && sk == "file")
				if pairCombo {
					for a := 0; a < len(singles); a++ {
						for b := a + 1; b < len(singles); b++ {
							fa, fb := singles[a], singles[b]
							if fa.Component == fb.Component && fa.Window == fb.Window {
								continue
							}
							if !mc.Thorough() && (fa.Window > 1 || fb.Window > 2 || fa.Window < 0 || fb.Window < 0) {
								continue
							}
							if mc.Thorough() && heavy && (fa.Window > 1 || fb.Window > 2) {
								continue
							}
							add(fa, fb)
						}
					}
				}
			}
		}
	}
	// "keeps regulating": moving target (sensor step) and PWM-read faults only; expected value = the fault-free run of the same job
	for _, fk := range []string{"hwmon", "file", "cmd"} {
		base := vxJob{Fans: []vxJobFan{{ID: "fanA", Kind: fk, OrigMode: 2, OrigPwm: 70, Stored: true}}, Sensor: "hwmon", Curve: "linear", Cycles: 7, TempStepTo: 75000}
		if fk != "hwmon" {
			base.Fans[0].OrigMode = -1
		}
		var fam []vxJob
		for _, k := range []string{"error", "garbage"} {
			for _, w := range []int{1, 2, 4} {
				j := base
				j.Faults = []vxFault{{Component: "pwmread", Kind: k, Window: w}}
				fam = append(fam, j)
			}
			j := base
			j.Faults = []vxFault{{Component: "pwmread", Kind: k, Window: 2, Persist: true}}
			fam = append(fam, j)
		}
		mineAny := false
		for i := range fam {
			if mc.Mine(len(jobs) + i) {
				mineAny = true
			}
		}
		if mineAny {
			ref := vxRunJob(scratch, base, atomic.AddInt64(&vxJobSeq, 1))
			v, ok := vxFinalRegulating(ref, "fanA")
			if !ok || v <= 127 {
				rep.HarnessError(fmt.Sprintf("keeps-regulating reference run (%s fan) did not follow the sensor step: final PWM %d ok=%v events %v", fk, v, ok, ref.Events))
			}
			if sig, msg := vxC09Oracle(base, ref); sig != "" {
				rep.Violate(mc.Violation{Property: "C09", Signature: sig, Detail: msg + "\njob: " + base.Describe(), Replay: vxC09Case{base}})
			}
			for i := range fam {
				fam[i].ExpectFinalPwm = v
			}
			rep.Sample(map[string]any{"keeps_regulating_reference": base.Describe(), "final_pwm_fault_free": v})
		}
		jobs = append(jobs, fam...)
	}
	rep.Count("jobs_total", int64(len(jobs)))
	deadline := mc.Deadline(4*time.Minute, 13*time.Minute)
	var wg sync.WaitGroup
	work := make(chan vxJob)
	var capped atomic.Bool
	for k := 0; k < 3; k++ {
		wg.Add(1)
		go func() {
			defer wg.Done()
			for j := range work {
				o := vxRunJob(scratch, j, atomic.AddInt64(&vxJobSeq, 1))
				rep.Count("executions", 1)
				rep.Outcome(j.Describe() + vxOutcomeString(j, o))
				if sig, msg := vxC09Oracle(j, o); sig != "" {
					rep.Violate(mc.Violation{Property: "C09", Signature: sig, Detail: msg + "\njob: " + j.Describe() + "\n" + vxOutcomeString(j, o), Replay: vxC09Case{j}})
				} else if len(j.Faults) == 2 {
					rep.Sample(map[string]any{"job": j.Describe(), "exit": o.Exit, "fans_after_exit": o.Fans, "events": o.Events})
				}
			}
		}()
	}
	n := 0
	// dispatch order: the small families first (keeps-regulating runs, fault pairs, persistent faults), then the bulk of single
	// faults, so that a deadline hit on a slow machine cuts the bulk and not a whole family
	var order []int
	for pass := 0; pass < 2; pass++ {
		for ji, j := range jobs {
			small := j.TempStepTo != 0 || len(j.Faults) != 1 || j.Faults[0].Persist
			if small == (pass == 0) {
				order = append(order, ji)
			}
		}
	}
	for _, ji := range order {
		j := jobs[ji]
		if !mc.Mine(ji) {
			continue
		}
		if mc.RealNow().After(deadline) {
			capped.Store(true)
			break
		}
		work <- j
		n++
	}
	close(work)
	wg.Wait()
	rep.Evaluations = int64(n)
	if capped.Load() {
		rep.Cap("deadline reached before all fault combinations were run")
	}
	rep.Note("fault = every read/write of one component fails (error / garbage / silently ignored) during one control-cycle window (0..4) after regulation began; single faults on all 36 fan x sensor x curve combinations, pairs on 4 combinations in quick and on all in thorough; the daemon gets one SIGTERM after 7 cycles")
}
