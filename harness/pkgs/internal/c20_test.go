package internal

// C20: the daemon's concurrent activities are free of data races. The harness binary is built with
// -race; every activity runs as its real goroutine inside a virtual-time bubble (real RunDaemon: sensor
// monitors, per-fan RPM monitors and control loops; REST handlers and a Prometheus gather driven on
// their own tickers). The enumerated schedule space is the phase-offset / period vector of the API and
// metrics activities x scenario (regulation, initialisation in progress, stall raises, shutdown).
// Oracle per execution: happens-before race reports of the Go race detector (GORACE log), attributed
// to the top fan2go frames of both accesses. Device files are REAL tmpfs files (no harness-side locks,
// hence no harness-made happens-before edges).

import (
	"io"
	"os/user"

	"encoding/json"
	"fmt"
	"github.com/pterm/pterm"
	"net/http"
	"net/http/httptest"
	"os"
	"os/exec"
	"path/filepath"
	"regexp"
	"sort"
	"strings"
	"sync"
	"sync/atomic"
	"syscall"
	"testing"
	"testing/synctest"
	"time"

	"github.com/markusressel/fan2go/internal/api"
	"github.com/markusressel/fan2go/internal/configuration"
	"github.com/markusressel/fan2go/internal/fans"
	"github.com/markusressel/fan2go/internal/persistence"
	"github.com/markusressel/fan2go/internal/util"
	"github.com/markusressel/fan2go/internal/verifshim/mc"
	"github.com/markusressel/fan2go/internal/verifshim/vsignal"
	"github.com/md14454/gosensors"
	"github.com/prometheus/client_golang/prometheus"
	"github.com/spf13/viper"
)

type vxC20Job struct {
	Dir         string `json:"dir"`
	Scenario    string `json:"scenario"` // regulate | init | stall
	ApiPeriodMs int    `json:"apiPeriodMs"`
	ApiOffsetUs int    `json:"apiOffsetUs"`
	MetPeriodMs int    `json:"metPeriodMs"`
	MetOffsetUs int    `json:"metOffsetUs"`
	RunMs       int    `json:"runMs"`
}

func (j vxC20Job) String() string {
	return fmt.Sprintf("%s api every %dms+%dus metrics every %dms+%dus run %dms", j.Scenario, j.ApiPeriodMs, j.ApiOffsetUs, j.MetPeriodMs, j.MetOffsetUs, j.RunMs)
}

func vxWriteInt(path string, v int) {
	os.MkdirAll(filepath.Dir(path), 0755)
	if err := os.WriteFile(path, []byte(fmt.Sprint(v)), 0644); err != nil {
		panic(err)
	}
}

func TestVX_raceChild(t *testing.T) {
	jobFile := os.Getenv("VX_RACE_JOB")
	if jobFile == "" {
		t.Skip("child only")
	}
	var job vxC20Job
	b, _ := os.ReadFile(jobFile)
	if err := json.Unmarshal(b, &job); err != nil {
		panic(err)
	}
	events := filepath.Join(job.Dir, "events.log")
	// Log lines go nowhere: every write to os.Stdout passes through the file's fdmutex (atomic operations), which the
	// race detector counts as synchronisation between ALL logging goroutines and which would hide races between them.
	pterm.SetDefaultOutput(io.Discard)
	synctest.Test(t, func(t *testing.T) {
		hw := filepath.Join(job.Dir, "sys", "hwmon0")
		for ch := 1; ch <= 2; ch++ {
			vxWriteInt(filepath.Join(hw, fmt.Sprintf("pwm%d", ch)), 80)
			vxWriteInt(filepath.Join(hw, fmt.Sprintf("pwm%d_enable", ch)), 2)
			vxWriteInt(filepath.Join(hw, fmt.Sprintf("fan%d_input", ch)), 1500)
		}
		if job.Scenario == "stall" {
			vxWriteInt(filepath.Join(hw, "fan2_input"), 0)
		}
		vxWriteInt(filepath.Join(hw, "temp1_input"), 61000)
		filePwm := filepath.Join(job.Dir, "sys", "filefan", "pwm")
		fileRpm := filepath.Join(job.Dir, "sys", "filefan", "rpm")
		vxWriteInt(filePwm, 80)
		vxWriteInt(fileRpm, 1200)
		// fanF: a second fan (besides fanA) that uses the built-in default control algorithm
		filePwmF := filepath.Join(job.Dir, "sys", "filefanF", "pwm")
		fileRpmF := filepath.Join(job.Dir, "sys", "filefanF", "rpm")
		vxWriteInt(filePwmF, 90)
		vxWriteInt(fileRpmF, 1300)
		// fanF's paths are written home-relative ("~/../..<absolute path>"), a documented form of the file back-end: every
		// access resolves "~" first
		if u, err := user.Current(); err == nil {
			up := ""
			for _, part := range strings.Split(strings.Trim(u.HomeDir, "/"), "/") {
				if part != "" {
					up += "/.."
				}
			}
			filePwmF, fileRpmF = "~"+up+filePwmF, "~"+up+fileRpmF
		}
		// two more file fans; in scenario "nopwm" their PWM files are unreadable at start (no PWM read-back -> default map)
		// and nothing is stored for them
		var extraFans string
		parallel := "true"
		if strings.HasPrefix(job.Scenario, "nopwm") {
			if job.Scenario != "nopwm-parallel" {
				parallel = "false"
			}
			for _, id := range []string{"fanD", "fanE"} {
				pp := filepath.Join(job.Dir, "sys", id, "pwm")
				os.MkdirAll(filepath.Dir(pp), 0755)
				os.WriteFile(pp, []byte("n/a\n"), 0644)
				extraFans += fmt.Sprintf("  - id: %s\n    curve: lin\n    controlAlgorithm: direct\n    file: {path: %s}\n", id, pp)
			}
		}
		// scenario "window0": tempRollingWindowSize 0 (not rejected by validation) and three sensors, each with its own monitor
		extraGlobals, extraSensors, fanFCurve := "", "", "lin"
		if job.Scenario == "window0" {
			extraGlobals = "tempRollingWindowSize: 0\n"
			for _, id := range []string{"s2", "s3"} {
				sp := filepath.Join(job.Dir, "sys", id, "temp")
				vxWriteInt(sp, 55000)
				extraSensors += fmt.Sprintf("  - id: %s\n    file: {path: %s}\n", id, sp)
			}
			extraSensors += "" // curves on the extra sensors are declared below via lin3
			fanFCurve = "lin2"
		}
		gosensors.VerifSetSpec([]gosensors.ChipSpec{{Prefix: "vxchip", BusType: 1, Addr: 0x290, Path: hw, Fans: []int{1, 2}, Temps: []int{1}}})
		db := filepath.Join(job.Dir, "fan2go.db")
		cfg := filepath.Join(job.Dir, "fan2go.yaml")
		yaml := fmt.Sprintf(`dbPath: %s
runFanInitializationInParallel: %s
tempSensorPollingRate: %s
rpmPollingRate: %s
controllerAdjustmentTickRate: %s
rpmRollingWindowSize: 1
%sfans:
  - id: fanA
    curve: shared
    hwmon: {platform: vxchip, rpmChannel: 1}
  - id: fanB
    curve: shared
    neverStop: true
    minPwm: 30
    maxPwm: 40
    controlAlgorithm: direct
    hwmon: {platform: vxchip, rpmChannel: 2}
  - id: fanC
    curve: pidsolo
    controlAlgorithm: {direct: {maxPwmChangePerCycle: 10}}
    file: {path: %s, rpmPath: %s}
  - id: fanF
    curve: %s
    file: {path: %s, rpmPath: %s}
%ssensors:
  - id: s
    hwmon: {platform: vxchip, index: 1}
%scurves:
  - id: lin
    linear: {sensor: s, min: 40, max: 80}
  - id: lin2
    linear: {sensor: s, min: 30, max: 90}
  - id: pidc
    pid: {sensor: s, setPoint: 60, p: -0.05, i: -0.005, d: -0.005}
  - id: pidsolo
    pid: {sensor: s, setPoint: 55, p: -0.04, i: -0.004, d: -0.004}
  - id: shared
    function: {type: maximum, curves: [lin, pidc]}
`, db, parallel, vxTempRate, vxRpmRate, vxTick, extraGlobals, filePwm, fileRpm, fanFCurve, filePwmF, fileRpmF, extraFans, extraSensors)
		os.WriteFile(cfg, []byte(yaml), 0644)
		pers := persistence.NewPersistence(db)
		for _, id := range []string{"fanA", "fanB", "fanC", "fanF"} {
			if (job.Scenario == "init" || strings.HasPrefix(job.Scenario, "nopwm")) && id == "fanA" {
				continue // fanA runs its initialisation sequence while the API is polled
			}
			data := map[int]float64{}
			m := map[int]int{}
			for p := 0; p <= 255; p++ {
				data[p] = float64(300 + p*10)
				m[p] = p
			}
			hf := &fans.HwMonFan{Config: configuration.FanConfig{ID: id}, FanCurveData: &data}
			pers.SaveFanPwmData(hf)
			pers.SaveFanPwmMap(id, m)
		}
		t0 := time.Now()
		stamp := func() string { return fmt.Sprintf("%.6f", time.Since(t0).Seconds()) }
		vsignal.VerifReset()
		vsignal.DefaultAction = func(sig os.Signal) { os.Exit(143) }
		var nApi, nMet int64
		rest := api.CreateRestService()
		paths := []string{"/fan/", "/fan/fanA/", "/fan/fanB/", "/fan/fanC/", "/fan/fanF/", "/sensor/", "/sensor/s/", "/curve/", "/curve/shared/", "/curve/lin/", "/curve/pidc/", "/curve/pidsolo/", "/alive/"}
		go func() {
			time.Sleep(time.Duration(job.ApiOffsetUs) * time.Microsecond)
			for {
				for _, p := range paths {
					rec := httptest.NewRecorder()
					req := httptest.NewRequest(http.MethodGet, p, nil)
					rest.ServeHTTP(rec, req)
					if rec.Code >= 500 {
						vxAppend(events, fmt.Sprintf("%s api %s -> %d %s", stamp(), p, rec.Code, firstLine(rec.Body.String())))
					}
					atomic.AddInt64(&nApi, 1)
				}
				time.Sleep(time.Duration(job.ApiPeriodMs) * time.Millisecond)
			}
		}()
		go func() {
			time.Sleep(time.Duration(job.MetOffsetUs) * time.Microsecond)
			for {
				if _, err := prometheus.DefaultGatherer.Gather(); err != nil {
					vxAppend(events, stamp()+" gather error: "+err.Error())
				}
				atomic.AddInt64(&nMet, 1)
				time.Sleep(time.Duration(job.MetPeriodMs) * time.Millisecond)
			}
		}()
		if job.Scenario == "sensorflap" {
			// the temperature input disappears for 250 ms out of every 900 ms (driver reload, flaky bus) while TWO metric
			// scrapers are active: the error paths of the sensor monitor, the curves and the collectors run concurrently
			tin := filepath.Join(hw, "temp1_input")
			go func() {
				time.Sleep(1200*time.Millisecond + 7*time.Microsecond)
				for {
					os.Rename(tin, tin+".gone")
					time.Sleep(250 * time.Millisecond)
					os.Rename(tin+".gone", tin)
					time.Sleep(650 * time.Millisecond)
				}
			}()
			go func() {
				time.Sleep(time.Duration(job.MetOffsetUs+29) * time.Microsecond)
				for {
					if _, err := prometheus.DefaultGatherer.Gather(); err != nil {
						vxAppend(events, stamp()+" gather error: "+err.Error())
					}
					atomic.AddInt64(&nMet, 1)
					time.Sleep(time.Duration(job.MetPeriodMs) * time.Millisecond)
				}
			}()
		}
		go func() {
			time.Sleep(time.Duration(job.RunMs)*time.Millisecond + 91*time.Microsecond)
			vxAppend(events, fmt.Sprintf("%s final SIGTERM; api requests %d, metric gathers %d", stamp(), atomic.LoadInt64(&nApi), atomic.LoadInt64(&nMet)))
			vsignal.Deliver(syscall.SIGTERM)
			time.Sleep(30 * time.Minute)
			vxAppend(events, stamp()+" daemon still running 30 virtual minutes after SIGTERM")
			os.Exit(99)
		}()
		if job.Scenario == "nopwm-late" {
			// start-up stagger (replay/experiments only, not part of the enumerated schedules): the controllers of fanD and
			// fanE get going 700 virtual ms after the others (their first file accesses are delayed). No shared state and
			// no synchronisation in the hook: it must not add happens-before edges. It turned out not to widen what the
			// race detector sees: consecutive bolt sessions synchronise through syscall's global mmap mutex.
			util.VerifFileOp = func(op string, path string, value int) (bool, int, error) {
				if (strings.Contains(path, "/fanD/") || strings.Contains(path, "/fanE/")) && time.Since(t0) < 1500*time.Millisecond {
					time.Sleep(700 * time.Millisecond)
				}
				return false, 0, nil
			}
		}
		viper.Reset()
		configuration.InitConfig(cfg)
		p := configuration.DetectAndReadConfigFile()
		configuration.LoadConfig()
		if err := configuration.Validate(p); err != nil {
			vxAppend(events, "config rejected: "+err.Error())
			os.Exit(98)
		}
		RunDaemon()
	})
}

var vxRaceFrame = regexp.MustCompile(`^  (github\.com/markusressel/fan2go/[^\s(]+(?:\([^)]*\))?[^\s(]*)\(`)
var vxRaceLoc = regexp.MustCompile(`^\s+(/[^\s:]+\.go):(\d+)`)
var vxClosureSuffix = regexp.MustCompile(`\.func\d+(\.\d+)*$`)
var vxSrcCache = map[string][]string{}
var vxSrcMu sync.Mutex

// vxSrcLine returns the trimmed source text of file:line (the racy statement), "" if unavailable.
func vxSrcLine(file string, line int) string {
	vxSrcMu.Lock()
	defer vxSrcMu.Unlock()
	ls, ok := vxSrcCache[file]
	if !ok {
		b, err := os.ReadFile(file)
		if err == nil {
			ls = strings.Split(string(b), "\n")
		}
		vxSrcCache[file] = ls
	}
	if line-1 < len(ls) && line >= 1 {
		return strings.Join(strings.Fields(ls[line-1]), " ")
	}
	return ""
}

// vxParseRaces extracts, per report, the racy SITE of each of the two accesses: the top fan2go (non-harness) frame,
// as "<function> at `<source statement>`" (the statement text makes the site independent of line numbers and of
// closure numbering, and distinguishes different variables accessed by the same function).
func vxParseRaces(text string) (pairs [][2]string, fatal []string) {
	for _, l := range strings.Split(text, "\n") {
		if strings.HasPrefix(l, "fatal error:") {
			fatal = append(fatal, l)
		}
	}
	reports := strings.Split(text, "WARNING: DATA RACE")
	secRe := regexp.MustCompile(`(?m)^(Read at|Write at|Previous read at|Previous write at|Goroutine \d+ \(|\[failed to restore the stack\])`)
	for _, r := range reports[1:] {
		if i := strings.Index(r, "=================="); i >= 0 {
			r = r[:i]
		}
		var tops []string
		sections := secRe.FindAllStringIndex(r, -1)
		for si, loc := range sections {
			head := r[loc[0]:loc[1]]
			if strings.HasPrefix(head, "Goroutine") {
				break
			}
			end := len(r)
			if si+1 < len(sections) {
				end = sections[si+1][0]
			}
			top := "<no fan2go frame>"
			if strings.HasPrefix(head, "[failed") {
				top = "<stack not restored>"
			}
			lines := strings.Split(r[loc[0]:end], "\n")
			for li, l := range lines {
				if m := vxRaceFrame.FindStringSubmatch(l); m != nil {
					fn := m[1]
					if strings.Contains(fn, "/verifshim/") || strings.Contains(fn, ".vx") || strings.Contains(fn, ".TestVX") {
						continue
					}
					fn = strings.TrimPrefix(fn, "github.com/markusressel/fan2go/")
					fn = vxClosureSuffix.ReplaceAllString(fn, "")
					top = fn
					if li+1 < len(lines) {
						if lm := vxRaceLoc.FindStringSubmatch(lines[li+1]); lm != nil {
							n := 0
							fmt.Sscanf(lm[2], "%d", &n)
							if src := vxSrcLine(lm[1], n); src != "" {
								top = fn + " at `" + src + "`"
							}
						}
					}
					// internal/util holds shared helpers (PidLoop, ...): the state belongs to the caller, so the site of the
					// CURRENT access (its stack is exact; the stack of the previous access is restored from a bounded
					// history and is not used for this) is qualified with the first caller outside internal/util.
					if si == 0 && strings.HasPrefix(fn, "internal/util.") {
						for _, l2 := range lines[li+1:] {
							m2 := vxRaceFrame.FindStringSubmatch(l2)
							if m2 == nil {
								continue
							}
							c := strings.TrimPrefix(m2[1], "github.com/markusressel/fan2go/")
							if strings.HasPrefix(c, "internal/util.") || strings.Contains(c, "/verifshim/") {
								continue
							}
							top += " (called from " + vxClosureSuffix.ReplaceAllString(c, "") + ")"
							break
						}
						// ... and with the activity it runs in (outermost fan2go frame of the goroutine: a controller's Run,
						// a metrics collector, an API handler): the same helper state touched from a new activity is a new site
						root := ""
						for _, l2 := range lines[li+1:] {
							if m2 := vxRaceFrame.FindStringSubmatch(l2); m2 != nil {
								c := strings.TrimPrefix(m2[1], "github.com/markusressel/fan2go/")
								if strings.Contains(c, "/verifshim/") || strings.Contains(c, ".vx") || strings.Contains(c, ".TestVX") {
									continue
								}
								root = vxClosureSuffix.ReplaceAllString(c, "")
							}
						}
						if root != "" {
							top += " [in " + root + "]"
						}
					}
					break
				}
			}
			tops = append(tops, top)
		}
		if len(tops) >= 2 {
			pairs = append(pairs, [2]string{tops[0], tops[1]})
		} else if len(tops) == 1 {
			pairs = append(pairs, [2]string{tops[0], "<stack not restored>"})
		}
	}
	return
}

type vxC20Case struct {
	Job vxC20Job `json:"job"`
}

func vxC20Run(scratch string, job vxC20Job, id int64) (pairs [][2]string, fatal []string, events []string, exit int, raw string) {
	job.Dir = filepath.Join(scratch, fmt.Sprintf("race%d", id))
	os.MkdirAll(job.Dir, 0755)
	defer os.RemoveAll(job.Dir)
	jb, _ := json.Marshal(job)
	jf := filepath.Join(job.Dir, "job.json")
	os.WriteFile(jf, jb, 0644)
	cmd := exec.Command(os.Args[0], "-test.run", "^TestVX_raceChild$", "-test.timeout", "300s")
	cmd.Env = append(os.Environ(), "VX_RACE_JOB="+jf, "VERIF_OUT=", "GORACE=log_path="+filepath.Join(job.Dir, "race")+" halt_on_error=0 history_size=5", "GOMAXPROCS=2")
	cmd.Dir = job.Dir
	var out strings.Builder
	cmd.Stdout, cmd.Stderr = &out, &out
	err := cmd.Run()
	if ee, ok := err.(*exec.ExitError); ok {
		exit = ee.ExitCode()
	}
	var sb strings.Builder
	files, _ := filepath.Glob(filepath.Join(job.Dir, "race.*"))
	for _, f := range files {
		b, _ := os.ReadFile(f)
		sb.Write(b)
	}
	raw = sb.String() + "\n" + out.String()
	pairs, fatal = vxParseRaces(raw)
	if b, err := os.ReadFile(filepath.Join(job.Dir, "events.log")); err == nil {
		events = strings.Split(strings.TrimSpace(string(b)), "\n")
	}
	return
}

func TestVX_C20(t *testing.T) {
	rep := mc.NewReport("C20", "internal/daemon-race")
	defer rep.Write()
	scratch := vxScratch("c20")
	defer os.RemoveAll(scratch)
	handle := func(job vxC20Job, id int64) {
		pairs, fatal, events, exit, raw := vxC20Run(scratch, job, id)
		rep.Count("executions", 1)
		rep.Count("race_reports", int64(len(pairs)))
		ok := false
		for _, e := range events {
			if strings.Contains(e, "final SIGTERM") {
				ok = true
			}
			if job.Scenario == "window0" && strings.Contains(e, " api /sensor") && strings.Contains(e, "-> 500") {
				// tempRollingWindowSize 0 makes the smoothed values NaN/Inf, which JSON cannot encode: the sensor endpoints
				// answer 500 in this degenerate configuration (an error response, not a crash)
				rep.Count("sensor_endpoint_500_with_window_0", 1)
				continue
			}
			if strings.Contains(e, " api /") || strings.Contains(e, "gather error") || strings.Contains(e, "still running") {
				rep.Violate(mc.Violation{Signature: "C20 API/metrics request failed or daemon hung", Detail: e + "\njob: " + job.String(), Replay: vxC20Case{job}})
			}
		}
		for _, f := range fatal {
			rep.Violate(mc.Violation{Signature: "C20 runtime fatal error (" + strings.TrimPrefix(f, "fatal error: ") + ")", Detail: f + "\njob: " + job.String() + "\n" + tail(raw, 3000), Replay: vxC20Case{job}})
		}
		if !ok && len(fatal) == 0 {
			rep.Violate(mc.Violation{Signature: "C20 daemon died before the final SIGTERM", Detail: fmt.Sprintf("exit %d\njob: %s\n%s", exit, job, tail(raw, 3000)), Replay: vxC20Case{job}})
		}
		seen := map[string]bool{}
		for _, p := range pairs {
			a, b := p[0], p[1]
			// the logging mutex is a no-op in this build (harness/nosync): races inside the logging library are artefacts
			if strings.HasPrefix(a, "internal/ui.") || strings.HasPrefix(b, "internal/ui.") {
				rep.Count("ignored_reports_inside_logging", 1)
				continue
			}
			if a > b {
				a, b = b, a
			}
			rep.Outcome(a + " | " + b)
			rep.Count("pair: "+a+" | "+b, 1)
			for _, fn := range []string{a, b} {
				if seen[fn] {
					continue
				}
				seen[fn] = true
				other := b
				if fn == b {
					other = a
				}
				rep.Violate(mc.Violation{Signature: "C20 unsynchronised access: " + fn, Detail: fmt.Sprintf("data race reported between\n  %s\nand\n  %s\njob: %s", fn, other, job), Replay: vxC20Case{job}})
			}
		}
	}
	var rc vxC20Case
	if mc.ReplayCase(&rc) {
		handle(rc.Job, 1)
		rep.Evaluations = 1
		return
	}
	var jobs []vxC20Job
	offsets := []int{0, 37, 100011, 3500017}
	periods := [][2]int{{170, 230}, {1003, 517}}
	if mc.Thorough() {
		offsets = []int{0, 37, 50003, 100011, 150029, 2400031, 3400027, 3500017, 3600023}
		periods = [][2]int{{170, 230}, {1003, 517}, {53, 71}}
	}
	for _, sc := range []string{"regulate", "stall", "sensorflap", "init", "nopwm", "nopwm-parallel", "window0"} {
		for pi, per := range periods {
			for ai, ao := range offsets {
				for mi, mo := range offsets {
					if !mc.Thorough() && ao != mo && (ai+mi)%2 == 0 {
						continue
					}
					run := 6500
					if sc == "nopwm-parallel" || sc == "window0" || sc == "sensorflap" {
						// the fans without PWM read-back start together with everything else; a short run is enough
						if pi != 0 {
							continue
						}
					}
					if sc == "init" || sc == "nopwm" || sc == "nopwm-late" {
						// the initialisation sequence takes about 9 virtual minutes: fewer, slower pollers
						run = 9*60*1000 + 30000
						if per[0] < 1000 || (!mc.Thorough() && (ai != mi || ai%2 == 1)) {
							continue
						}
					}
					_ = pi
					jobs = append(jobs, vxC20Job{Scenario: sc, ApiPeriodMs: per[0], ApiOffsetUs: ao, MetPeriodMs: per[1], MetOffsetUs: mo + 13, RunMs: run})
				}
			}
		}
	}
	deadline := mc.Deadline(75*time.Second, 13*time.Minute)
	var wg sync.WaitGroup
	work := make(chan vxC20Job)
	var n int64
	for k := 0; k < 4; k++ {
		wg.Add(1)
		go func() {
			defer wg.Done()
			for j := range work {
				handle(j, atomic.AddInt64(&vxJobSeq, 1))
				atomic.AddInt64(&n, 1)
			}
		}()
	}
	for ji, j := range jobs {
		if !mc.Mine(ji) {
			continue
		}
		if mc.RealNow().After(deadline) {
			rep.Cap("deadline reached before all schedules were run")
			break
		}
		work <- j
	}
	close(work)
	wg.Wait()
	rep.Evaluations = n
	var fns []string
	for k := range rep.Counters {
		if strings.HasPrefix(k, "pair: ") {
			fns = append(fns, k)
		}
	}
	sort.Strings(fns)
	if len(fns) > 4 {
		fns = fns[:4]
	}
	rep.Sample(map[string]any{"schedule_example": jobs[0].String(), "race_pairs_seen_example": fns})
	rep.Note("one race-instrumented OS process per schedule; activities: 1 sensor monitor, 4 controllers (RPM monitor + control loop each; two of them with the default control algorithm; shared function/pid/linear curves and sensor), REST list+item endpoints, Prometheus gather; distinct_nontrivial = distinct unordered pairs of top fan2go frames in race reports")
}
