package controller

// C16: with runFanInitializationInParallel=false no two fans are in their initial analysis
// (PWM sweep or RPM-curve measurement) at the same time. 2..4 real controllers Run in one
// synctest bubble on separate fake hwmon fans that all need analysis; the enumerated schedule
// space is start order x start-delay vector x per-fan settle model.

import (
	"context"
	"fmt"
	"os"
	"path/filepath"
	"sort"
	"sync"
	"testing"
	"testing/synctest"
	"time"

	"github.com/markusressel/fan2go/internal/configuration"
	"github.com/markusressel/fan2go/internal/fans"
	"github.com/markusressel/fan2go/internal/persistence"
	"github.com/markusressel/fan2go/internal/verifshim/env"
	"github.com/markusressel/fan2go/internal/verifshim/mc"
)

type vxC16Case struct {
	Parallel bool  `json:"parallel"`
	Delays   []int `json:"delaysMs"` // start delay of fan i relative to the previous start (-1 = when the previous fan finished its analysis)
	Settle   []int `json:"settle"`   // per fan: 0 steady at once, 1 settles after 15 s, 2 after 40 s
	Kinds    []int `json:"kinds"`    // per fan: 0 nothing stored, 1 nothing stored + pwmMap configured (no sweep, measurement only), 2 only the RPM curve stored (sweep only), 3 file fan (sweep only), 4 everything stored (needs no analysis: a bystander that must not disturb the queue), 5 hwmon fan whose PWM cannot be read back (no sweep, measurement only)
	// RespDelay: fanResponseDelay in seconds (-1 = the default 2); 0 makes a whole analysis take ~13 s instead of ~9 min
	RespDelay int `json:"respDelay"`
	// CancelAtMs > 0: the controllers' context is cancelled at this time (shutdown request, or another actor of the daemon
	// gave up) while analyses are in progress / queued; a queued fan must still wait for its turn (or not start at all)
	CancelAtMs int `json:"cancelAtMs,omitempty"`
}

// vxPersRec records when a controller stores analysis results (end of sweep / of measurement).
type vxPersRec struct {
	persistence.Persistence
	onSave func()
}

func (p *vxPersRec) SaveFanPwmData(fan fans.Fan) error {
	err := p.Persistence.SaveFanPwmData(fan)
	p.onSave()
	return err
}

func (p *vxPersRec) SaveFanPwmMap(fanId string, pwmMap map[int]int) error {
	err := p.Persistence.SaveFanPwmMap(fanId, pwmMap)
	p.onSave()
	return err
}

func (c vxC16Case) String() string {
	return fmt.Sprintf("parallel=%v delaysMs=%v settle=%v kinds=%v respDelay=%d cancelAtMs=%d", c.Parallel, c.Delays, c.Settle, c.Kinds, c.RespDelay, c.CancelAtMs)
}

type vxIv struct {
	Fan        int
	Start, End time.Duration
	Done       bool
}

func vxC16Exec(t *testing.T, c vxC16Case) (ivs []vxIv, fail [2]string) {
	fs := vxFS("run")
	k := len(c.Settle)
	vxRunSeq++
	db := filepath.Join(vxRunScratch(), fmt.Sprintf("c16-%d.db", vxRunSeq))
	defer os.Remove(db)
	synctest.Test(t, func(t *testing.T) {
		vxRunConfigGlobals(c.Parallel, 1, 10)
		if c.RespDelay >= 0 {
			configuration.CurrentConfig.FanResponseDelay = c.RespDelay
		}
		t0 := time.Now()
		ivs = make([]vxIv, k)
		worlds := make([]*vxRunWorld, k)
		firstWrite := make([]time.Duration, k)
		lastOp := make([]time.Duration, k)
		lastSave := make([]time.Duration, k)
		for i := range firstWrite {
			firstWrite[i] = -1
		}
		for i := 0; i < k; i++ {
			cfg := vxRunCfg{Kind: "hwmon", OrigMode: 2, OrigPwm: 120, Scenario: "signal"}
			unreadable := false
			if i < len(c.Kinds) {
				switch c.Kinds[i] {
				case 1:
					cfg.ConfMap = true
				case 2:
					cfg.Stored, cfg.CurveOnly = true, true
				case 3:
					cfg.Kind = "file"
				case 4:
					cfg.Stored = true
				case 5:
					unreadable = true
				}
			}
			w := vxRunBuild(cfg, fmt.Sprintf("fan%d", i), fs, fmt.Sprintf("hwmon%d", i), db, false)
			worlds[i] = w
			i := i
			w.ctl.persistence = &vxPersRec{Persistence: w.ctl.persistence, onSave: func() { lastSave[i] = time.Since(t0) }}
			var started time.Time
			w.dev.RpmOf = func(pwm int) int {
				base := pwm * 10
				hold := []time.Duration{0, 15 * time.Second, 40 * time.Second}[c.Settle[i]]
				if started.IsZero() {
					return base
				}
				if el := time.Since(started); el < hold {
					return base + int(el/time.Second)*45 // still accelerating: RPM differs by 45 per second
				}
				return base
			}
			_ = started
			worlds[i].curve.Value = 100
			// mark analysis start for the settle model
			defer func() {}()
			wi := w
			prevIntercept := fs.Intercept
			fs.Intercept = func(kind, path string, value int) *env.Result {
				if prevIntercept != nil {
					if r := prevIntercept(kind, path, value); r != nil {
						return r
					}
				}
				if filepath.Dir(path) == filepath.Dir(wi.dev.Pwm) {
					if unreadable && kind == "read" && path == wi.dev.Pwm {
						// a fan whose PWM value cannot be read back (write-only pwmN): no PWM sensor feature, default PWM map,
						// but its RPM curve is still measured
						return &env.Result{Val: -1, Err: env.ErrIO}
					}
					now := time.Since(t0)
					if wi.curve.Evals == 0 {
						if kind != "read" && firstWrite[i] < 0 {
							firstWrite[i] = now
							started = time.Now()
						}
						// interval end = last WRITE before the first regulation cycle (the RPM monitor of a finished
						// fan only reads; counting its reads would stretch the interval past the real end of the analysis)
						if kind != "read" {
							lastOp[i] = now
						}
					}
				}
				return nil
			}
		}
		ctx, cancel := context.WithCancel(context.Background())
		var wg sync.WaitGroup
		if c.CancelAtMs > 0 {
			wg.Add(1)
			go func() {
				defer wg.Done()
				time.Sleep(time.Duration(c.CancelAtMs)*time.Millisecond + 41*time.Microsecond)
				cancel()
			}()
		}
		finished := make([]chan struct{}, k)
		for i := range finished {
			finished[i] = make(chan struct{})
		}
		errs := make([]string, k)
		// a fan's analysis is finished when its first regulation cycle evaluates the curve
		for i := 0; i < k; i++ {
			i := i
			wg.Add(1)
			go func() {
				defer wg.Done()
				for worlds[i].curve.Evals == 0 && ctx.Err() == nil {
					time.Sleep(100*time.Millisecond + 300*time.Microsecond)
				}
				close(finished[i])
			}()
		}
		for i := 0; i < k; i++ {
			i := i
			wg.Add(1)
			go func() {
				defer wg.Done()
				// start time of fan i
				for j := 1; j <= i; j++ {
					d := c.Delays[j-1]
					if d >= 0 {
						time.Sleep(time.Duration(d) * time.Millisecond)
					} else {
						<-finished[j-1]
					}
				}
				p := vxGuard(func() {
					if err := worlds[i].ctl.Run(ctx); err != nil {
						errs[i] = err.Error()
					}
				})
				if p != "" {
					errs[i] = "panic: " + p
				}
			}()
		}
		// wait for all analyses (or a generous horizon), then shut down
		allDone := make(chan struct{})
		go func() {
			for i := 0; i < k; i++ {
				<-finished[i]
			}
			close(allDone)
		}()
		select {
		case <-allDone:
		case <-time.After(3 * time.Hour):
		}
		time.Sleep(500*time.Millisecond + 100*time.Microsecond)
		cancel()
		wg.Wait()
		<-allDone
		fs.Intercept = nil
		for i := 0; i < k; i++ {
			ivs[i] = vxIv{Fan: i, Start: firstWrite[i], End: lastOp[i], Done: worlds[i].curve.Evals > 0}
			if c.CancelAtMs > 0 {
				// a cancelled controller never regulates; its analysis ends with the last result it stored (what it writes
				// afterwards is the restoration of the fan, which may well happen while the next fan is analysed)
				ivs[i].Done = true
				if lastSave[i] > 0 {
					ivs[i].End = lastSave[i]
				}
				if firstWrite[i] >= 0 && ivs[i].End < firstWrite[i] {
					ivs[i].End = firstWrite[i]
				}
			}
			if errs[i] != "" {
				fail = [2]string{"C16 controller failed during initialisation", fmt.Sprintf("fan %d: %s", i, errs[i])}
			}
		}
	})
	return
}

func allSteady(s []int) bool {
	for _, x := range s {
		if x != 0 {
			return false
		}
	}
	return true
}

func vxOverlap(ivs []vxIv) (int, int, bool) {
	s := append([]vxIv{}, ivs...)
	sort.Slice(s, func(i, j int) bool { return s[i].Start < s[j].Start })
	for i := 0; i+1 < len(s); i++ {
		for j := i + 1; j < len(s); j++ {
			if s[i].Start < 0 || s[j].Start < 0 {
				continue // a fan that was not analysed at all has no interval
			}
			if s[j].Start < s[i].End {
				return s[i].Fan, s[j].Fan, true
			}
		}
	}
	return 0, 0, false
}

func TestVX_C16(t *testing.T) {
	rep := mc.NewReport("C16", "controller/serial-init")
	defer rep.Write()
	defer vxCleanup()
	defer func() {
		if vxRunDir != "" {
			os.RemoveAll(vxRunDir)
		}
	}()
	run := func(c vxC16Case) {
		ivs, fail := vxC16Exec(t, c)
		rep.Evaluations++
		desc := ""
		for _, iv := range ivs {
			desc += fmt.Sprintf(" fan%d:[%v..%v done=%v]", iv.Fan, iv.Start, iv.End, iv.Done)
		}
		rep.Outcome(c.String() + desc)
		if os.Getenv("VERIF_REPLAY") != "" {
			fmt.Println("C16 replay:", c.String(), "intervals:", desc)
		}
		if fail[0] != "" {
			rep.Violate(mc.Violation{Signature: fail[0], Detail: fail[1] + "\ncase: " + c.String(), Replay: c})
			return
		}
		for i, iv := range ivs {
			if c.CancelAtMs > 0 {
				continue
			}
			if i < len(c.Kinds) && c.Kinds[i] == 4 {
				if !iv.Done {
					rep.Violate(mc.Violation{Signature: "C16 an already analysed fan never started regulating", Detail: fmt.Sprintf("fan %d: %+v\ncase: %s\nintervals:%s", iv.Fan, iv, c, desc), Replay: c})
					return
				}
				continue
			}
			if !iv.Done || iv.Start < 0 {
				rep.Violate(mc.Violation{Signature: "C16 a fan never completed its analysis", Detail: fmt.Sprintf("fan %d: %+v\ncase: %s\nintervals:%s", iv.Fan, iv, c, desc), Replay: c})
				return
			}
		}
		a, b, ov := vxOverlap(ivs)
		if c.Parallel {
			if ov {
				rep.Count("parallel_schedules_with_overlap", 1)
			}
			return
		}
		if ov {
			rep.Violate(mc.Violation{Signature: "C16 analyses overlap although runFanInitializationInParallel=false", Detail: fmt.Sprintf("fans %d and %d are analysed at the same time\ncase: %s\nanalysis intervals (virtual time):%s", a, b, c, desc), Replay: c})
			return
		}
		rep.Count("serial_schedules_disjoint", 1)
		if rep.Counters["serial_schedules_disjoint"]%40 == 1 {
			rep.Sample(map[string]any{"case": c.String(), "analysis_intervals": desc})
		}
	}
	var rc vxC16Case
	if mc.ReplayCase(&rc) {
		run(rc)
		return
	}
	delaySet := []int{0, 1, 3, 700, 1400, 20000, -1}
	var cases []vxC16Case
	var gen func(k int, delays []int, settle []int, nsettle int)
	gen = func(k int, delays []int, settle []int, nsettle int) {
		if len(settle) < k {
			for s := 0; s < nsettle; s++ {
				gen(k, delays, append(append([]int{}, settle...), s), nsettle)
			}
			return
		}
		if len(delays) < k-1 {
			for _, d := range delaySet {
				gen(k, append(append([]int{}, delays...), d), settle, nsettle)
			}
			return
		}
		cases = append(cases, vxC16Case{Parallel: false, Delays: delays, Settle: settle, RespDelay: -1})
		if allSteady(settle) {
			// short analyses (fanResponseDelay 0): waiting times are long relative to one analysis
			cases = append(cases, vxC16Case{Parallel: false, Delays: delays, Settle: settle, RespDelay: 0})
		}
		// the same schedule with mixed fan kinds: a configured pwmMap (measurement without sweep) and a fan whose RPM curve is
		// stored but whose PWM map is not (sweep without measurement); every assignment for 2 fans, rotations of (1,2,0) beyond
		if allSteady(settle) || mc.Thorough() {
			n := len(settle)
			if n == 2 {
				for _, a := range []int{0, 1, 2, 3, 5} {
					for _, b := range []int{0, 1, 2, 3, 5} {
						if a+b > 0 {
							cases = append(cases, vxC16Case{Parallel: false, Delays: delays, Settle: settle, Kinds: []int{a, b}, RespDelay: -1})
						}
					}
				}
			} else {
				for r := 0; r < 3; r++ {
					kinds := make([]int, n)
					for i := range kinds {
						kinds[i] = []int{1, 2, 0, 3}[(i+r)%4]
					}
					cases = append(cases, vxC16Case{Parallel: false, Delays: delays, Settle: settle, Kinds: kinds, RespDelay: -1})
				}
				kinds := make([]int, n)
				for i := range kinds {
					kinds[i] = []int{5, 0, 5, 2}[i%4]
				}
				cases = append(cases, vxC16Case{Parallel: false, Delays: delays, Settle: settle, Kinds: kinds, RespDelay: -1})
			}
		}
	}
	gen(2, nil, nil, 3)
	if mc.Thorough() {
		gen(3, nil, nil, 3)
		delaySet = []int{0, 3, 1400, -1}
		gen(4, nil, nil, 2)
	} else {
		delaySet = []int{0, 3, 1400, -1}
		gen(3, nil, nil, 2)
	}
	// an already analysed fan starts while one fan is analysed and another one is queued: it must not disturb the queue
	for _, kinds := range [][]int{{0, 0, 4}, {0, 4, 0}, {4, 0, 0}, {0, 2, 4}, {0, 3, 4}, {0, 0, 0, 4}} {
		for _, d := range []int{0, 1, 3000, 8000} {
			delays := make([]int, len(kinds)-1)
			for i := range delays {
				delays[i] = 1
			}
			delays[len(delays)-1] = d
			cases = append(cases, vxC16Case{Parallel: false, Delays: delays, Settle: make([]int, len(kinds)), Kinds: kinds, RespDelay: 0})
		}
	}
	// shutdown request while one fan is analysed and others are queued (short analyses: fanResponseDelay 0)
	for _, kinds := range [][]int{{0, 0}, {0, 2}, {0, 3}, {2, 0}, {0, 0, 0}, {0, 2, 3}} {
		for _, d := range []int{0, 3, 700} {
			for _, at := range []int{4000, 8000, 12000, 20000} {
				delays := []int{d}
				if len(kinds) == 3 {
					delays = []int{d, 1}
				}
				cases = append(cases, vxC16Case{Parallel: false, Delays: delays, Settle: make([]int, len(kinds)), Kinds: kinds, RespDelay: 0, CancelAtMs: at})
			}
		}
	}
	// start orders: fans are symmetric except for their settle model, and every assignment of settle models to
	// start positions is enumerated, so all start orders are covered by construction.
	// non-vacuity: the same schedules with the option on must be able to overlap
	// Half of them run BEFORE the option-off schedules of the same process and half after them: the option may change
	// between two analyses of one process, and the decision taken for an earlier analysis must not stick.
	np := len(cases)
	var before, after []vxC16Case
	for i := 0; i < np && i < 40; i++ {
		c := cases[i]
		c.Parallel = true
		if i%2 == 0 {
			before = append(before, c)
		} else {
			after = append(after, c)
		}
	}
	cases = append(append(before, cases...), after...)
	deadline := mc.Deadline(70*time.Second, 13*time.Minute)
	for i, c := range cases {
		if !mc.Mine(i) {
			continue
		}
		if mc.RealNow().After(deadline) {
			rep.Cap("deadline reached before all schedules were run")
			break
		}
		run(c)
	}
	rep.Note("a fan's analysis interval = [first write to its PWM/mode file, last write before its first regulation cycle], in virtual time (an under-approximation by at most the final response delay)")
}
