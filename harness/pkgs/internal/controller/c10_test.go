package controller

// C10: a stalled never-stop fan is noticed and pushed within a bounded number of RPM polls
// (proportional to rpmRollingWindowSize), step by step, until it spins or its maximum is reached,
// where the stall is reported as an error. Deterministic closed-loop simulation of the real
// measureRpm + UpdateFanSpeed against a threshold fan model; the enumerated space is the full
// parameter grid (one execution per tuple).

import (
	"fmt"
	"testing"

	"github.com/markusressel/fan2go/internal/verifshim/mc"
)

type vxC10Case struct {
	Kind   string `json:"kind"`
	Min    int    `json:"min"`
	Max    int    `json:"max"`
	Theta  int    `json:"theta"`  // fan spins iff device pwm >= theta (999 = never)
	R0     int    `json:"r0"`     // RPM the fan was running at before it stalled
	Window int    `json:"window"` // rpmRollingWindowSize
	Ratio  string `json:"ratio"`  // control cycles per RPM poll: "5:1" | "1:1" | "1:5"
	Curve  int    `json:"curve"`
	Map    string `json:"map"` // PWM map ("" = identity)
	// DevQuant > 1: the PWM register is coarser than the map assumes (stores value/q*q), so the read-back differs from what was written
	DevQuant int `json:"devQuant,omitempty"`
	// Meddler: another actor (BIOS/EC) rewrites the PWM register to 7 after every control cycle
	Meddler bool `json:"meddler,omitempty"`
}

func (c vxC10Case) String() string {
	return fmt.Sprintf("%s limits[%d,%d] theta=%d r0=%d window=%d cycles:polls=%s curve=%d map=%s devQuant=%d meddler=%v", c.Kind, c.Min, c.Max, c.Theta, c.R0, c.Window, c.Ratio, c.Curve, c.Map, c.DevQuant, c.Meddler)
}

type vxC10Res struct {
	FirstRaisePolls int // polls between first 0 reading and first raise (-1 = none)
	MaxGapPolls     int // worst poll gap between consecutive raises while stalled
	Raises          int
	Requests        []int // request at each raise
	Outcome         string
}

func vxC10Run(c vxC10Case) (res vxC10Res, fail [2]string) {
	mp := c.Map
	if mp == "" {
		mp = "identity"
	}
	cfg := vxCfg{Kind: c.Kind, NeverStop: true, Min: c.Min, Max: c.Max, Map: mp, Algo: "direct", Window: c.Window, StartPwm: c.Max, StartMode: 1}
	if c.Kind == "file~" {
		cfg.Kind, cfg.HomeRel = "file", true // file fan configured with home-relative paths
	}
	if cfg.Kind == "file" {
		cfg.Min, cfg.Max = -1, -1
	}
	fx := vxNewFixRole(cfg, "search")
	if c.DevQuant > 1 {
		q := c.DevQuant
		fx.fs.F(fx.dev.Pwm).OnWrite = func(v int) (int, bool, error) { return v / q * q, true, nil }
	}
	stalledPhase := false
	fx.dev.RpmOf = func(pwm int) int {
		if !stalledPhase {
			return c.R0
		}
		if pwm >= c.Theta {
			return 800 + pwm
		}
		return 0
	}
	if cfg.Kind == "file" {
		fx.fs.F(fx.dev.Rpm).OnRead = func() (int, error) { return fx.dev.RpmOf(fx.fs.Val(fx.dev.Pwm)), nil }
	}
	cyclesPerPoll, pollsPerCycle := 1, 1
	switch c.Ratio {
	case "5:1":
		cyclesPerPoll = 5
	case "1:5":
		pollsPerCycle = 5
	}
	bound := 50*c.Window + 50
	horizon := (60*c.Window + 200) * (fx.fan.GetMaxPwm() - fx.fan.GetMinPwm() + 2)
	polls := 0
	poll := func() {
		fx.ctl.measureRpm(fx.fan)
		polls++
	}
	var cycErr error
	cycle := func() bool {
		fx.curve.Value = c.Curve
		p := vxGuard(func() { cycErr = fx.ctl.UpdateFanSpeed() })
		if p != "" {
			fail = [2]string{"C10 panic in control cycle", p}
			return false
		}
		if c.Meddler && stalledPhase {
			fx.fs.F(fx.dev.Pwm).Val = 7
		}
		return cycErr == nil
	}
	// phase 1: prior history — the fan was running with RPM average r0 (injected), one poll + cycle at that speed
	fx.fan.SetRpmAvg(float64(c.R0))
	poll()
	for k := 0; k < 2; k++ {
		if !cycle() {
			if c.R0 == 0 {
				break
			}
			fail = [2]string{"C10 control error while the fan was spinning", fmt.Sprint(cycErr)}
			return
		}
	}
	// phase 2: the fan follows the threshold model
	stalledPhase = true
	firstZeroPoll := -1
	lastRaisePoll := -1
	raises0 := fx.ctl.stats.IncreasedMinPwmCount
	lastRaises := raises0
	res.FirstRaisePolls = -1
	prevReqAtRaise := -1
	step := func() (done bool) {
		for k := 0; k < pollsPerCycle; k++ {
			before := polls
			poll()
			if firstZeroPoll < 0 && fx.dev.RpmOf(fx.fs.Val(fx.dev.Pwm)) == 0 {
				firstZeroPoll = before
			}
		}
		for k := 0; k < cyclesPerPoll; k++ {
			reqBeforeCycle := vxLast(fx.ctl)
			ok := cycle()
			if fail[0] != "" {
				return true
			}
			if !ok {
				if cycErr == ErrFanStalledAtMaxPwm {
					res.Outcome = "stalled-at-max"
				} else {
					fail = [2]string{"C10 unexpected control error", fmt.Sprint(cycErr)}
				}
				return true
			}
			if req := vxLast(fx.ctl); req > fx.fan.GetMaxPwm() {
				fail = [2]string{"C10 request above the fan's maximum instead of reporting the stall", fmt.Sprintf("request %d, maximum %d", req, fx.fan.GetMaxPwm())}
				return true
			}
			if r := fx.ctl.stats.IncreasedMinPwmCount; r > lastRaises {
				req := vxLast(fx.ctl)
				// with a curve value > 0 the rescaled part of the request shrinks as the floor rises, so the
				// request at consecutive raises may repeat; it must never drop, and it must exceed the stalled request
				if (prevReqAtRaise >= 0 && req < prevReqAtRaise) || req <= reqBeforeCycle {
					fail = [2]string{"C10 raise does not increase the request", fmt.Sprintf("request %d after raise, %d before this cycle, %d at previous raise", req, reqBeforeCycle, prevReqAtRaise)}
					return true
				}
				prevReqAtRaise = req
				res.Requests = append(res.Requests, req)
				ref := lastRaisePoll
				if ref < 0 {
					ref = firstZeroPoll
					res.FirstRaisePolls = polls - ref
				}
				if g := polls - ref; g > res.MaxGapPolls {
					res.MaxGapPolls = g
				}
				lastRaisePoll = polls
				lastRaises = r
			}
		}
		return false
	}
	for i := 0; i < horizon; i++ {
		if step() {
			break
		}
		spinning := fx.dev.RpmOf(fx.fs.Val(fx.dev.Pwm)) > 0
		if spinning {
			res.Outcome = "spinning"
			break
		}
		// stalled: the next raise must come within the bound
		ref := lastRaisePoll
		if ref < 0 {
			ref = firstZeroPoll
		}
		if ref >= 0 && polls-ref > bound {
			res.Outcome = "no-raise-within-bound"
			break
		}
	}
	res.Raises = fx.ctl.stats.IncreasedMinPwmCount - raises0
	if fail[0] != "" {
		return
	}
	switch res.Outcome {
	case "spinning":
		// fine: either never stalled, or pushed until rotation
	case "stalled-at-max":
		if vxLast(fx.ctl) < fx.fan.GetMaxPwm() && fx.fs.Val(fx.dev.Pwm) < fx.fan.GetMaxPwm() {
			fail = [2]string{"C10 stall reported before the maximum was reached", fmt.Sprintf("last request %d, max %d", vxLast(fx.ctl), fx.fan.GetMaxPwm())}
		}
	case "no-raise-within-bound":
		cls := "float RPM average"
		if c.Kind != "hwmon" {
			cls = "integer RPM average"
		}
		fail = [2]string{"C10 stalled fan not pushed within 50*window+50 polls (" + cls + ")",
			fmt.Sprintf("fan reports 0 RPM at request %d (device pwm %d) since poll %d; no raise after %d polls (window %d, bound %d); rpm average now %g; raises so far %d",
				vxLast(fx.ctl), fx.fs.Val(fx.dev.Pwm), firstZeroPoll, polls-firstZeroPoll, c.Window, bound, fx.fan.GetRpmAvg(), res.Raises)}
	default:
		fail = [2]string{"C10 simulation horizon reached", fmt.Sprintf("outcome %q after %d polls", res.Outcome, polls)}
	}
	return
}

func TestVX_C10(t *testing.T) {
	rep := mc.NewReport("C10", "controller/stall")
	defer rep.Write()
	defer vxCleanup()
	var rcmd struct {
		Cmd *vxC10CmdCase `json:"cmd"`
	}
	if mc.ReplayCase(&rcmd) && rcmd.Cmd != nil {
		if _, _, _, f := vxC10RunCmd(*rcmd.Cmd); f[0] != "" {
			rep.Violate(mc.Violation{Signature: f[0], Detail: f[1] + "\ncase: " + rcmd.Cmd.String(), Replay: rcmd})
		}
		rep.Evaluations = 1
		return
	}
	var rc vxC10Case
	if mc.ReplayCase(&rc) {
		_, f := vxC10Run(rc)
		if f[0] != "" {
			rep.Violate(mc.Violation{Signature: f[0], Detail: f[1] + "\ncase: " + rc.String(), Replay: rc})
		}
		rep.Evaluations = 1
		return
	}
	limits := [][2]int{{0, 255}, {50, 100}, {30, 40}, {100, 100}, {250, 255}}
	windows := []int{1, 2, 10, 50}
	r0s := []int{0, 1, 500, 5000}
	ratios := []string{"5:1", "1:1", "1:5"}
	thetaStep := 16
	if mc.Thorough() {
		limits = append(limits, [2]int{0, 100}, [2]int{20, 235}, [2]int{0, 1}, [2]int{128, 255})
		windows = []int{1, 2, 5, 10, 20, 50}
		thetaStep = 8
	}
	var cases []vxC10Case
	for _, kind := range []string{"hwmon", "file", "file~"} {
		for _, l := range limits {
			if kind != "hwmon" && (l[0] != 0 || l[1] != 255) {
				continue
			}
			var thetas []int
			for th := 0; th <= l[1]; th += thetaStep {
				thetas = append(thetas, th)
			}
			thetas = append(thetas, l[0], l[0]+1, l[1], 999)
			for _, th := range thetas {
				for _, w := range windows {
					for _, r0 := range r0s {
						for _, ra := range ratios {
							for _, cv := range []int{0, 128, 255} {
								if cv != 0 && (ra != "5:1" || w > 10) {
									continue
								}
								cases = append(cases, vxC10Case{kind, l[0], l[1], th, r0, w, ra, cv, "", 0, false})
								// a register coarser than the map, and a second actor rewriting the register between cycles:
								// the read-back never matches what fan2go wrote, the stall must be noticed all the same
								if w <= 2 && r0 >= 500 && ra == "5:1" && cv == 0 && kind == "hwmon" {
									cases = append(cases, vxC10Case{kind, l[0], l[1], th, r0, w, ra, cv, "", 4, false})
									if th == 999 {
										cases = append(cases, vxC10Case{kind, l[0], l[1], th, r0, w, ra, cv, "", 0, true})
									}
								}
								// sparse / quantising PWM maps: the request is usually not itself a supported input
								if w <= 2 && r0 >= 500 && ra == "5:1" {
									maps := []string{"readme", "three"}
									if mc.Thorough() {
										maps = []string{"readme", "three", "compress", "quant5"}
									}
									for _, mp := range maps {
										cases = append(cases, vxC10Case{kind, l[0], l[1], th, r0, w, ra, cv, mp, 0, false})
									}
								}
							}
						}
					}
				}
			}
		}
	}
	// cmd fans (real scripts; a handful of tuples because every poll spawns processes)
	var cmdCases []vxC10CmdCase
	for _, th := range []int{4, 999} {
		for _, w := range []int{1, 2} {
			for _, r0 := range []int{0, 1200} {
				cmdCases = append(cmdCases, vxC10CmdCase{Theta: th, R0: r0, Window: w})
				if th == 4 && w == 1 {
					cmdCases = append(cmdCases, vxC10CmdCase{Theta: th, R0: r0, Window: w, Decimals: true})
				}
				if th == 4 {
					cmdCases = append(cmdCases, vxC10CmdCase{Theta: th, R0: r0, Window: w, GetPwmFails: true}, vxC10CmdCase{Theta: th, R0: r0, Window: w, GetPwmNoise: true})
				}
			}
		}
	}
	if !mc.Thorough() {
		// the "never spins" cmd cases need ~255 raises each: thorough only
		var keep []vxC10CmdCase
		for _, c := range cmdCases {
			if c.Theta != 999 {
				keep = append(keep, c)
			}
		}
		cmdCases = keep
	}
	for i, c := range cmdCases {
		if !mc.Mine(i) {
			continue
		}
		raises, first, outcome, f := vxC10RunCmd(c)
		rep.Evaluations++
		rep.Transitions += int64(raises)
		if f[0] != "" {
			rep.Violate(mc.Violation{Signature: f[0], Detail: f[1] + "\ncase: " + c.String(), Replay: map[string]any{"cmd": c}})
			continue
		}
		rep.AddDistinct(1)
		rep.Count("cmd outcome:"+outcome, 1)
		if i == 1 {
			rep.Sample(map[string]any{"case": c.String(), "outcome": outcome, "raises": raises, "polls_to_first_raise": first})
		}
	}
	outcomes := map[string]int64{}
	for i, c := range cases {
		if !mc.Mine(i) {
			continue
		}
		res, f := vxC10Run(c)
		rep.Evaluations++
		rep.Transitions += int64(res.Raises)
		if f[0] != "" {
			rep.Violate(mc.Violation{Signature: f[0], Detail: f[1] + "\ncase: " + c.String(), Replay: c})
			continue
		}
		outcomes[res.Outcome]++
		if res.Raises > 0 {
			rep.AddDistinct(1)
			if i%157 == 0 {
				rep.Sample(map[string]any{"case": c.String(), "outcome": res.Outcome, "raises": res.Raises, "polls_to_first_raise": res.FirstRaisePolls, "worst_poll_gap_between_raises": res.MaxGapPolls, "first_requests_at_raise": head(res.Requests, 6)})
			}
		}
	}
	for k, v := range outcomes {
		rep.Count("outcome:"+k, v)
	}
	rep.Note("one execution per parameter tuple (fan kind x limits x spin threshold x prior RPM x window x cycle:poll ratio x curve); distinct_nontrivial = tuples in which at least one stall raise happened")
}

func head(l []int, n int) []int {
	if len(l) > n {
		return l[:n]
	}
	return l
}
