package controller

// Closed-loop cycle harness: explicit-state BFS over (controller state, environment symbol) on the
// real UpdateFanSpeed / measureRpm, with per-property oracles (C01 envelope, C02 floor history).

import (
	"errors"
	"fmt"
	"strings"
	"testing"
	"testing/synctest"
	"time"

	"github.com/markusressel/fan2go/internal/verifshim/env"
	"github.com/markusressel/fan2go/internal/verifshim/mc"
)

type vxSym struct {
	Curve int `json:"curve"`
	Rpm   int `json:"rpm"`
	DtMs  int `json:"dtMs"`
	// CurveErr: the curve evaluation fails in this cycle (e.g. the sensor read of a PID curve failed)
	CurveErr bool `json:"curveErr,omitempty"`
	// EnFault: what the pwm_enable file does during this cycle: "" works; "refused" = every write fails with EPERM;
	// "stuck" = the firmware holds the mode at 2 (writes are accepted and ignored)
	EnFault string `json:"enFault,omitempty"`
	// PwmFault "refused-once": the first write to the PWM file in this cycle fails (EIO-like), later writes succeed;
	// "unreadable": every read of the PWM file in this cycle fails (the fan then has no PWM sensor feature), writes work
	PwmFault string `json:"pwmFault,omitempty"`
}

type vxCycCase struct {
	Cfg  vxCfg   `json:"cfg"`
	Syms []vxSym `json:"syms"`
}

type vxCycObs struct {
	Err     error
	Panic   string
	Req     int // request after the cycle (lastSetPwm), -999 if none
	Writes  []int
	DevPwm  int
	FanMin  int
	FanMax  int
	Raises  int
	Offset  int
	Unexp   int
	Stalled bool
}

func (fx *vxFix) vxCycle(s vxSym) vxCycObs {
	if s.DtMs > 0 {
		time.Sleep(time.Duration(s.DtMs) * time.Millisecond)
	}
	var o vxCycObs
	o.Panic = vxGuard(func() {
		if fx.dev.Rpm != "" && fx.fs.F(fx.dev.Rpm) != nil {
			fx.dev.SetRpm(s.Rpm)
			fx.ctl.measureRpm(fx.fan)
		}
		fx.curve.Value = s.Curve
		fx.curve.Err = nil
		if s.CurveErr {
			fx.curve.Err = errors.New("vx: sensor read failed")
		}
		if s.EnFault != "" && fx.dev.Enable != "" && fx.fs.F(fx.dev.Enable) != nil {
			if s.EnFault == "stuck" {
				fx.fs.F(fx.dev.Enable).Val = 2
			}
			en := fx.dev.Enable
			fx.fs.Intercept = func(kind, path string, value int) *env.Result {
				if path == en && kind != "read" {
					if s.EnFault == "refused" {
						return &env.Result{Err: env.ErrPerm(path)}
					}
					return &env.Result{}
				}
				return nil
			}
		}
		if s.PwmFault != "" {
			prev := fx.fs.Intercept
			pwmPath := fx.dev.Pwm
			refused := false
			unreadable := s.PwmFault == "unreadable"
			fx.fs.Intercept = func(kind, path string, value int) *env.Result {
				if unreadable {
					if path == pwmPath && kind == "read" {
						return &env.Result{Val: -1, Err: env.ErrIO}
					}
				} else if path == pwmPath && kind != "read" && !refused {
					refused = true
					return &env.Result{Err: env.ErrInval(path)}
				}
				if prev != nil {
					return prev(kind, path, value)
				}
				return nil
			}
		}
		n := len(fx.fs.Log)
		o.Err = fx.ctl.UpdateFanSpeed()
		fx.fs.Intercept = nil
		fx.curve.Err = nil
		for _, op := range fx.fs.Log[n:] {
			if op.Path == fx.dev.Pwm && op.Kind != "read" {
				o.Writes = append(o.Writes, op.Value)
			}
		}
	})
	o.Req = vxLast(fx.ctl)
	o.DevPwm = fx.fs.Val(fx.dev.Pwm)
	o.FanMin = fx.fan.GetMinPwm()
	o.FanMax = fx.fan.GetMaxPwm()
	// configured limits are taken from the configuration, not from what the fan object reports
	if fx.cfg.Max >= 0 && fx.cfg.Kind == "hwmon" {
		o.FanMax = fx.cfg.Max
	}
	if fx.cfg.Min >= 0 && fx.cfg.NeverStop && fx.cfg.Kind == "hwmon" && o.FanMin < fx.cfg.Min {
		o.FanMin = fx.cfg.Min
	}
	o.Raises = fx.ctl.stats.IncreasedMinPwmCount
	o.Offset = fx.ctl.minPwmOffset
	o.Unexp = fx.ctl.stats.UnexpectedPwmValueCount
	o.Stalled = errors.Is(o.Err, ErrFanStalledAtMaxPwm)
	return o
}

// nearest supported keys of req according to the reference definition
func vxRefNearest(pmap map[int]int, req int) []int {
	keys := mc.SortedKeys(pmap)
	var sup []int
	for i, k := range keys {
		if i == 0 || pmap[k] != pmap[keys[i-1]] {
			sup = append(sup, k)
		}
	}
	best := 1 << 30
	for _, k := range sup {
		d := k - req
		if d < 0 {
			d = -d
		}
		if d < best {
			best = d
		}
	}
	var r []int
	for _, k := range sup {
		d := k - req
		if d < 0 {
			d = -d
		}
		if d == best {
			r = append(r, k)
		}
	}
	return r
}

type vxHist struct {
	M0       int
	PrevReq  int
	PrevMin  int
	PrevR    int
	HaveReq  bool
	Terminal bool
}

// oracle for one cycle; returns violation (signature, detail) list
func vxCycOracle(prop string, fx *vxFix, h *vxHist, s vxSym, o vxCycObs) [][2]string {
	var v [][2]string
	add := func(sig, msg string) { v = append(v, [2]string{sig, msg}) }
	if o.Panic != "" {
		add(prop+" panic in control cycle", "panic: "+o.Panic)
		return v
	}
	if o.Err != nil && !o.Stalled {
		if s.CurveErr {
			// the evaluation error is reported to the caller (Run then restores the fan and stops); nothing may be written
			if len(o.Writes) > 0 {
				add(prop+" PWM written in a cycle whose curve evaluation failed", fmt.Sprintf("wrote %v although the cycle returned %v", o.Writes, o.Err))
			}
			return v
		}
		add(prop+" unexpected control error", o.Err.Error())
		return v
	}
	switch prop {
	case "C01":
		if o.Stalled {
			if len(o.Writes) > 0 {
				add("C01 write-after-stall-error", fmt.Sprintf("cycle returned ErrFanStalledAtMaxPwm but wrote %v", o.Writes))
			}
			return v
		}
		if o.Req < o.FanMin || o.Req > o.FanMax {
			add("C01 request-outside-fan-limits", fmt.Sprintf("request %d outside [%d,%d] (curve %d rpm %d dt %dms)", o.Req, o.FanMin, o.FanMax, s.Curve, s.Rpm, s.DtMs))
		}
		near := vxRefNearest(fx.pmap, o.Req)
		for _, w := range o.Writes {
			ok := false
			for _, k := range near {
				if fx.pmap[k] == w {
					ok = true
				}
			}
			if w < 0 || w > 255 {
				ok = false
			}
			if !ok {
				add("C01 written-value-not-map-output-of-request", fmt.Sprintf("request %d wrote %d; nearest supported inputs %v", o.Req, w, near))
			}
		}
		// device must now show the mapped value (write skipped only when already there)
		if s.PwmFault == "refused-once" {
			break // a write was refused in this cycle: the device may still hold the previous value
		}
		ok := false
		for _, k := range near {
			if fx.pmap[k] == o.DevPwm {
				ok = true
			}
		}
		if !ok {
			add("C01 device-not-at-mapped-request", fmt.Sprintf("request %d but device pwm %d; nearest supported inputs %v", o.Req, o.DevPwm, near))
		}
	case "C02":
		if o.FanMin < h.PrevMin {
			add("C02 fan-minimum-dropped", fmt.Sprintf("fan minimum went from %d to %d (initial %d, raises %d)", h.PrevMin, o.FanMin, h.M0, o.Raises))
		}
		if o.Stalled {
			return v
		}
		floor := h.M0 + o.Raises
		if o.Req < floor {
			add("C02 request-below-floor", fmt.Sprintf("request %d below floor %d (initial minimum %d + %d raises); fan now reports min %d, offset %d", o.Req, floor, h.M0, o.Raises, o.FanMin, o.Offset))
		}
		if lo := fx.vxLowestWriteFor(floor); len(o.Writes) > 0 {
			for _, w := range o.Writes {
				if w < lo {
					add("C02 value-below-minimum-written", fmt.Sprintf("wrote %d to the fan; the lowest value any request >= floor %d (initial minimum %d + %d raises) maps to is %d (writes of this cycle: %v, pwm_enable fault %q)", w, floor, h.M0, o.Raises, lo, o.Writes, s.EnFault))
					break
				}
			}
		}
		if o.Raises > h.PrevR && h.HaveReq && o.Req <= h.PrevReq {
			add("C02 raise-not-above-stalled-request", fmt.Sprintf("raise issued request %d, stalled request was %d", o.Req, h.PrevReq))
		}
	}
	return v
}

// vxLowestWriteFor: the smallest value the PWM map yields for any request in [floor, 255] (reference nearest-key rule).
func (fx *vxFix) vxLowestWriteFor(floor int) int {
	if fx.lowest == nil {
		fx.lowest = map[int]int{}
	}
	if v, ok := fx.lowest[floor]; ok {
		return v
	}
	lo := 1 << 30
	for r := floor; r <= 255 || r == floor; r++ {
		for _, k := range vxRefNearest(fx.pmap, r) {
			if fx.pmap[k] < lo {
				lo = fx.pmap[k]
			}
		}
	}
	fx.lowest[floor] = lo
	return lo
}

// vxM0: the minimum the property speaks about, derived from the configuration and not from what the fan object reports:
// the configured minPwm when there is one, else the fan's measured/default minimum.
func vxM0(fx *vxFix) int {
	if fx.cfg.Min >= 0 {
		return fx.cfg.Min
	}
	return fx.fan.GetMinPwm()
}

// vxRunCyc replays syms on fresh objects (from scratch); oracle violations of the LAST step are returned.
func vxRunCyc(prop string, cfg vxCfg, syms []vxSym) (key string, viol []mc.Violation, obs []vxCycObs) {
	fx := vxNewFix(cfg)
	h := &vxHist{M0: vxM0(fx), PrevMin: fx.fan.GetMinPwm()}
	for i, s := range syms {
		if h.Terminal {
			break
		}
		vs, o := vxStepCyc(prop, fx, h, s, func() []vxSym { return syms[:i+1] })
		obs = append(obs, o)
		if i == len(syms)-1 {
			viol = vs
		}
	}
	return vxKeyOf(prop, fx, h), viol, obs
}

func vxRLE(syms []vxSym) string {
	var b strings.Builder
	for i := 0; i < len(syms); {
		j := i
		for j < len(syms) && syms[j] == syms[i] {
			j++
		}
		e := ""
		if syms[i].CurveErr {
			e = ",curve-error"
		}
		if syms[i].EnFault != "" {
			e += ",pwm_enable-" + syms[i].EnFault
		}
		if syms[i].PwmFault != "" {
			e += ",pwm-" + syms[i].PwmFault
		}
		fmt.Fprintf(&b, "(%d,%d,%d%s)x%d ", syms[i].Curve, syms[i].Rpm, syms[i].DtMs, e, j-i)
		i = j
	}
	return b.String()
}

// ---- snapshot-based search state

type vxSnap struct {
	Ctl   *DefaultFanController
	Files map[string]env.File
	Hist  vxHist
}

func (fx *vxFix) vxSaveFiles() map[string]env.File {
	m := make(map[string]env.File, len(fx.fs.Files))
	for p, f := range fx.fs.Files {
		m[p] = env.File{Val: f.Val, Missing: f.Missing, Garbage: f.Garbage, Empty: f.Empty}
	}
	return m
}

func (fx *vxFix) vxLoadFiles(m map[string]env.File) {
	for p, v := range m {
		f := fx.fs.Files[p]
		f.Val, f.Missing, f.Garbage, f.Empty = v.Val, v.Missing, v.Garbage, v.Empty
	}
}

// vxAttach points the fixture at the objects of a snapshot.
func (fx *vxFix) vxAttach(s *vxSnap) {
	fx.ctl = s.Ctl
	fx.fan = s.Ctl.fan
	fx.curve = s.Ctl.curve.(*vxCurve)
	fx.vxLoadFiles(s.Files)
	fx.fs.Log = fx.fs.Log[:0]
	vxRebaseLoopTime(fx.ctl.controlLoop)
}

func vxKeyOf(prop string, fx *vxFix, h *vxHist) string {
	key := fx.vxStateKey()
	if h.Terminal {
		key = "TERMINAL " + key
	}
	if prop == "C02" {
		key += fmt.Sprintf(" m0=%d prevreq=%d", h.M0, h.PrevReq)
	}
	return key
}

// one oracle-checked transition on the objects the fixture is attached to
func vxStepCyc(prop string, fx *vxFix, h *vxHist, s vxSym, path func() []vxSym) (viol []mc.Violation, o vxCycObs) {
	o = fx.vxCycle(s)
	for _, x := range vxCycOracle(prop, fx, h, s, o) {
		syms := path()
		viol = append(viol, mc.Violation{Property: prop, Signature: x[0],
			Detail: fmt.Sprintf("%s\nconfig: %s\nsequence (curve,rpm,dtMs)xN: %s", x[1], fx.cfg, vxRLE(syms)), Replay: vxCycCase{fx.cfg, syms}})
	}
	h.PrevReq, h.HaveReq = o.Req, o.Req != -999
	h.PrevMin = o.FanMin
	h.PrevR = o.Raises
	if o.Stalled || o.Panic != "" || (o.Err != nil && s.CurveErr) {
		h.Terminal = true // Run stops regulating this fan after a control error
	}
	return
}

func vxIsPid(algo string) bool { return strings.HasPrefix(algo, "pid") }

func vxCycAlphabet(prop string, cfg vxCfg) []vxSym {
	var curvesV, rpms, dts []int
	switch prop {
	case "C02":
		curvesV = []int{0, 1, 128, 255, -5, 300}
		rpms = []int{0, 1000}
	default:
		curvesV = []int{-300, -1, 0, 1, 127, 128, 254, 255, 256, 100000}
		rpms = []int{0, 1, 1000}
	}
	if cfg.NoRpm {
		rpms = []int{0}
	}
	dts = []int{200}
	if vxIsPid(cfg.Algo) {
		dts = []int{0, 200, 2000}
		if !mc.Thorough() || prop == "C02" {
			curvesV = []int{-300, 0, 128, 255, 100000}
			if prop == "C02" {
				curvesV = []int{0, 128, 255}
			}
		}
	}
	var a []vxSym
	for _, c := range curvesV {
		for _, r := range rpms {
			for _, d := range dts {
				a = append(a, vxSym{Curve: c, Rpm: r, DtMs: d})
			}
		}
	}
	// a cycle in which the curve cannot be evaluated
	a = append(a, vxSym{Curve: 128, Rpm: 1000, DtMs: 200, CurveErr: true})
	// a cycle whose first PWM write is refused (whatever fan2go writes next must still be an output of its map)
	a = append(a, vxSym{Curve: 100, Rpm: 1000, DtMs: 200, PwmFault: "refused-once"}, vxSym{Curve: 255, Rpm: 1000, DtMs: 200, PwmFault: "refused-once"})
	// a cycle in which the PWM value cannot be read back
	if prop != "C02" {
		a = append(a, vxSym{Curve: 100, Rpm: 1000, DtMs: 200, PwmFault: "unreadable"}, vxSym{Curve: 255, Rpm: 1000, DtMs: 200, PwmFault: "unreadable"})
	}
	// cycles in which the control mode cannot be set (both attempts of trySetManualPwm fail)
	if cfg.Kind == "hwmon" && !cfg.NoEnable {
		a = append(a, vxSym{Curve: 0, Rpm: 1000, DtMs: 200, EnFault: "refused"}, vxSym{Curve: 128, Rpm: 1000, DtMs: 200, EnFault: "stuck"})
	}
	return a
}

func vxCycConfigs(prop string) []vxCfg {
	var out []vxCfg
	limits := [][2]int{{-1, -1}, {0, 255}, {0, 100}, {50, 255}, {50, 100}, {100, 100}, {0, 0}, {255, 255}, {250, 255}}
	maps := []string{"identity", "readme", "quant5", "three", "compress", "splateau"}
	// PID: default, single-term, huge derivative, negative, and extreme finite gains of opposite sign (P*err = +Inf, I*integral = -Inf -> NaN)
	algos := []string{"direct", "direct:1", "direct:10", "direct:255", "pid", "pid:1,0,0", "pid:0,0,1e6", "pid:-0.3,-0.02,0", "pid:1.7e308,-1.7e308,0", "pid:1e308,1e308,1e308"}
	nstops := []bool{false, true}
	if prop == "C02" {
		nstops = []bool{true}
		limits = [][2]int{{-1, -1}, {0, 255}, {50, 100}, {100, 100}, {250, 255}, {3, 12}}
		algos = []string{"direct", "direct:1", "direct:10", "pid", "pid:1,0,0"}
	}
	for _, ns := range nstops {
		for _, lim := range limits {
			for _, m := range maps {
				for _, a := range algos {
					out = append(out, vxCfg{Kind: "hwmon", NeverStop: ns, Min: lim[0], Max: lim[1], Map: m, Algo: a, StartPwm: 77, StartMode: 2})
				}
			}
		}
		// measured minimum (no configured min): start 30 / max 200 and start 0 / max 255
		for _, m := range maps {
			for _, a := range algos {
				out = append(out, vxCfg{Kind: "hwmon", NeverStop: ns, Min: -1, Max: -1, Measured: true, MeasStart: 30, MeasMax: 200, Map: m, Algo: a, StartPwm: 77, StartMode: 2})
				out = append(out, vxCfg{Kind: "hwmon", NeverStop: ns, Min: -1, Max: 120, Measured: true, MeasStart: 45, MeasMax: 250, Map: m, Algo: a, StartPwm: 0, StartMode: 1})
				// configured minimum ABOVE the measured start PWM ("suspicious" but legal): the configured value is the minimum
				out = append(out, vxCfg{Kind: "hwmon", NeverStop: ns, Min: 80, Max: -1, Measured: true, MeasStart: 30, MeasMax: 200, Map: m, Algo: a, StartPwm: 35, StartMode: 2})
			}
		}
		// file fans (limits not configurable); with and without rpm file
		for _, m := range maps {
			for _, a := range algos {
				out = append(out, vxCfg{Kind: "file", NeverStop: ns, Min: -1, Max: -1, Map: m, Algo: a, StartPwm: 77})
				if prop != "C02" {
					out = append(out, vxCfg{Kind: "file", NeverStop: ns, Min: -1, Max: -1, Map: m, Algo: a, StartPwm: 77, NoRpm: true})
				}
			}
		}
		// hwmon without pwm_enable / without tach
		if prop != "C02" {
			out = append(out, vxCfg{Kind: "hwmon", NeverStop: ns, Min: 50, Max: 100, Map: "identity", Algo: "direct", NoEnable: true, StartPwm: 10})
			out = append(out, vxCfg{Kind: "hwmon", NeverStop: ns, Min: 50, Max: 100, Map: "identity", Algo: "pid", NoRpm: true, StartPwm: 10, StartMode: 2})
		}
	}
	return out
}

func vxCycTest(t *testing.T, prop string) {
	rep := mc.NewReport(prop, "controller/cyc")
	defer rep.Write()
	defer vxCleanup()
	var rc vxCycCase
	if mc.ReplayCase(&rc) {
		synctest.Test(t, func(t *testing.T) {
			for n := 1; n <= len(rc.Syms); n++ {
				_, viol, _ := vxRunCyc(prop, rc.Cfg, rc.Syms[:n])
				for _, v := range viol {
					rep.Violate(v)
				}
			}
			rep.Evaluations = int64(len(rc.Syms))
		})
		return
	}
	cfgs := vxCycConfigs(prop)
	deadline := mc.Deadline(50*time.Second, 12*time.Minute)
	synctest.Test(t, func(t *testing.T) {
		var mine []int
		for ci := range cfgs {
			if mc.Mine(ci) {
				mine = append(mine, ci)
			}
		}
		for mi, ci := range mine {
			cfg := cfgs[ci]
			alpha := vxCycAlphabet(prop, cfg)
			// time slicing: every configuration of this shard gets an equal share of what is left of the budget,
			// so that a configuration whose state space does not close cannot starve the ones after it
			slice := deadline.Sub(mc.RealNow()) / time.Duration(len(mine)-mi)
			if slice < 300*time.Millisecond {
				slice = 300 * time.Millisecond
			}
			o := mc.BFSOpts{NSym: len(alpha), Deadline: mc.RealNow().Add(slice), MaxStates: 20000}
			if vxIsPid(cfg.Algo) {
				o.MaxDepth = 3
				if mc.Thorough() {
					o.MaxDepth = 4
				}
			}
			if mc.Thorough() {
				o.MaxStates = 200000
			}
			var sample any
			fx := vxNewFixRole(cfg, "search")
			toSyms := func(path []int, extra int) []vxSym {
				syms := make([]vxSym, 0, len(path)+1)
				for _, p := range path {
					syms = append(syms, alpha[p])
				}
				if extra >= 0 {
					syms = append(syms, alpha[extra])
				}
				return syms
			}
			model := mc.Model[*vxSnap]{
				NSym: len(alpha),
				Init: func() (*vxSnap, string) {
					h := vxHist{M0: vxM0(fx), PrevMin: fx.fan.GetMinPwm()}
					return &vxSnap{Ctl: fx.ctl, Files: fx.vxSaveFiles(), Hist: h}, vxKeyOf(prop, fx, &h)
				},
				Clone: func(s *vxSnap) *vxSnap {
					return &vxSnap{Ctl: mc.Clone(s.Ctl, fx.pmap, s.Ctl.pwmValuesWithDistinctTarget), Files: s.Files, Hist: s.Hist}
				},
				Step: func(s *vxSnap, path []int, sym int) (string, []mc.Violation) {
					fx.vxAttach(s)
					viol, o := vxStepCyc(prop, fx, &s.Hist, alpha[sym], func() []vxSym { return toSyms(path, sym) })
					s.Files = fx.vxSaveFiles()
					rep.Evaluations++
					key := vxKeyOf(prop, fx, &s.Hist)
					if len(path) == 2 && sample == nil && sym%7 == 3 {
						sample = map[string]any{"config": cfg.String(), "sequence(curve,rpm,dtMs)": vxRLE(toSyms(path, sym)), "request": o.Req, "device_pwm": o.DevPwm, "state": key}
					}
					return key, viol
				},
				Replay: func(path []int) string {
					k, _, _ := vxRunCyc(prop, cfg, toSyms(path, -1))
					rep.Count("replay_validations", 1)
					return k
				},
				Terminal: func(key string) bool { return strings.HasPrefix(key, "TERMINAL") },
			}
			st := mc.BFS2(rep, o, model)
			rep.Configs++
			rep.States += int64(st.States)
			rep.Transitions += st.Transitions
			rep.AddDistinct(int64(st.States))
			if st.Closed {
				rep.Count("configs_closed", 1)
			} else {
				rep.Count("configs_capped", 1)
				if vxIsPid(cfg.Algo) {
					rep.Cap(fmt.Sprintf("PID configs: all sequences to depth %d (real-valued memory does not close)", o.MaxDepth))
				} else {
					rep.Cap(fmt.Sprintf("state cap %d / deadline reached for config %s (depth %d)", o.MaxStates, cfg, st.Depth))
				}
			}
			if st.Depth > int(rep.Counters["max_depth"]) {
				rep.Counters["max_depth"] = int64(st.Depth)
			}
			if sample != nil && ci%37 == 0 {
				rep.Sample(sample)
			}
		}
	})
	rep.Note("state = (last request, min offset, fan min/max, device pwm/mode, control-loop memory); distinct_nontrivial = distinct reachable states summed over configurations")
}

func TestVX_C01(t *testing.T) { vxCycTest(t, "C01") }
func TestVX_C02(t *testing.T) { vxCycTest(t, "C02") }
