package controller

// C10 for cmd fans: real fans.CmdFan driven through root-owned /bin/sh scripts, including the case in
// which the getPwm command starts failing after regulation began (the RPM monitor must keep sampling).

import (
	"fmt"
	"os"
	"path/filepath"
	"time"

	"github.com/markusressel/fan2go/internal/configuration"
	"github.com/markusressel/fan2go/internal/fans"
)

type vxC10CmdCase struct {
	Theta       int  `json:"theta"` // fan spins iff pwm >= theta (999 = never)
	R0          int  `json:"r0"`
	Window      int  `json:"window"`
	GetPwmFails bool `json:"getPwmFails"` // getPwm exits 1 from the second cycle on
	GetPwmNoise bool `json:"getPwmNoise"` // getPwm prints "na" from the second cycle on
	Decimals    bool `json:"decimals"`    // getRpm prints the reading with a decimal point ("1500.0"), as sensors -u or awk do
}

func (c vxC10CmdCase) String() string {
	return fmt.Sprintf("cmd fan theta=%d r0=%d window=%d getPwmFails=%v getPwmNoise=%v rpmWithDecimals=%v", c.Theta, c.R0, c.Window, c.GetPwmFails, c.GetPwmNoise, c.Decimals)
}

func vxC10RunCmd(c vxC10CmdCase) (raises int, firstRaise int, outcome string, fail [2]string) {
	dir, err := os.MkdirTemp("/dev/shm", "verif-c10cmd-")
	if err != nil {
		panic(err)
	}
	defer os.RemoveAll(dir)
	w := func(name, body string, mode os.FileMode) string {
		p := filepath.Join(dir, name)
		if err := os.WriteFile(p, []byte(body), mode); err != nil {
			panic(err)
		}
		return p
	}
	pwm := w("pwm", "0", 0644)
	mode := w("mode", "ok", 0644)
	phase := w("phase", "spinning", 0644)
	set := w("set.sh", fmt.Sprintf("#!/bin/sh\nprintf %%s \"$1\" > %s\n", pwm), 0755)
	get := w("get.sh", fmt.Sprintf("#!/bin/sh\ncase \"$(cat %s)\" in fail) exit 1;; noise) echo na; exit 0;; esac\ncat %s\n", mode, pwm), 0755)
	dec := ""
	if c.Decimals {
		dec = ".0"
	}
	rpm := w("rpm.sh", fmt.Sprintf("#!/bin/sh\nif [ \"$(cat %s)\" = spinning ]; then echo %d%s; exit 0; fi\nif [ \"$(cat %s)\" -ge %d ]; then echo 1500%s; else echo 0%s; fi\n", phase, c.R0, dec, pwm, c.Theta, dec, dec), 0755)
	configuration.CurrentConfig = configuration.Configuration{RpmRollingWindowSize: c.Window, TempRollingWindowSize: 997,
		RpmPollingRate: time.Second, ControllerAdjustmentTickRate: 200 * time.Millisecond}
	cv := &vxCurve{id: "vxcurve-cmd", Value: 0}
	fx := &vxFix{curve: cv}
	_ = fx
	registerCurve(cv)
	fan, err := fans.NewFan(configuration.FanConfig{ID: "vxcmdfan", NeverStop: true, Curve: cv.id, Cmd: &configuration.CmdFanConfig{
		SetPwm: &configuration.ExecConfig{Exec: set, Args: []string{"%pwm%"}},
		GetPwm: &configuration.ExecConfig{Exec: get},
		GetRpm: &configuration.ExecConfig{Exec: rpm}}})
	if err != nil {
		panic(err)
	}
	ctl := NewFanController(nil, fan, vxLoop("direct"), 200*time.Millisecond).(*DefaultFanController)
	ctl.pwmMap = vxMap("identity")
	ctl.updateDistinctPwmValues()
	polls := 0
	var cycErr error
	step := func() string {
		return vxGuard(func() {
			ctl.measureRpm(fan)
			polls++
			cycErr = ctl.UpdateFanSpeed()
		})
	}
	fan.SetRpmAvg(float64(c.R0))
	for i := 0; i < 2; i++ {
		if p := step(); p != "" {
			return 0, -1, "", [2]string{"C10 panic in control cycle", p}
		}
		if cycErr != nil && c.R0 > 0 {
			return 0, -1, "", [2]string{"C10 control error while the fan was spinning", cycErr.Error()}
		}
	}
	os.WriteFile(phase, []byte("stalled-model"), 0644)
	if c.GetPwmFails {
		os.WriteFile(mode, []byte("fail"), 0644)
	} else if c.GetPwmNoise {
		os.WriteFile(mode, []byte("noise"), 0644)
	}
	bound := 50*c.Window + 50
	firstRaise = -1
	start := polls
	lastRaisePoll := polls
	lastRaises := ctl.stats.IncreasedMinPwmCount
	for polls-start < 300*(c.Window+1)+600 {
		if p := step(); p != "" {
			return raises, firstRaise, "", [2]string{"C10 panic in control cycle", p}
		}
		if cycErr != nil {
			if cycErr == ErrFanStalledAtMaxPwm {
				return raises, firstRaise, "stalled-at-max", fail
			}
			return raises, firstRaise, "", [2]string{"C10 unexpected control error", cycErr.Error()}
		}
		if r := ctl.stats.IncreasedMinPwmCount; r > lastRaises {
			raises += r - lastRaises
			lastRaises = r
			if firstRaise < 0 {
				firstRaise = polls - start
			}
			lastRaisePoll = polls
		}
		b, _ := os.ReadFile(pwm)
		var dev int
		fmt.Sscanf(string(b), "%d", &dev)
		if dev >= c.Theta {
			// the fan turns again (its command reports 1500 RPM from now on): fan2go must stop pushing it
			at := ctl.stats.IncreasedMinPwmCount
			for k := 0; k < 40; k++ {
				if p := step(); p != "" {
					return raises, firstRaise, "", [2]string{"C10 panic in control cycle", p}
				}
				if cycErr != nil {
					return raises, firstRaise, "", [2]string{"C10 control error while the fan was spinning", fmt.Sprintf("%v (cmd fan reporting 1500 RPM at device pwm %d, %d polls after it started to turn)", cycErr, dev, k+1)}
				}
			}
			if more := ctl.stats.IncreasedMinPwmCount - at; more > 0 {
				return raises, firstRaise, "", [2]string{"C10 spinning cmd fan is pushed further", fmt.Sprintf("the fan's command reports 1500 RPM since device pwm %d, yet the minimum was raised %d more times in the next 40 polls (request now %d, rpm average %g)", dev, more, vxLast(ctl), fan.GetRpmAvg())}
			}
			return raises, firstRaise, "spinning", fail
		}
		if polls-lastRaisePoll > bound {
			return raises, firstRaise, "", [2]string{"C10 stalled fan not pushed within 50*window+50 polls (cmd fan)",
				fmt.Sprintf("fan reports 0 RPM at request %d (device pwm %d); no raise for %d polls (window %d); raises so far %d; rpm average %g", vxLast(ctl), dev, polls-lastRaisePoll, c.Window, raises, fan.GetRpmAvg())}
		}
	}
	return raises, firstRaise, "", [2]string{"C10 simulation horizon reached", fmt.Sprintf("after %d polls", polls-start)}
}
