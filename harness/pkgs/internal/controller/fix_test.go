package controller

// Shared fixture of the controller harnesses: real DefaultFanController on real HwMonFan /
// FileFan / CmdFan objects whose integer files live in the env.FS model (util seam), a stub
// SpeedCurve whose value the explorer sets, and helpers to canonicalise controller state.

import (
	"fmt"
	"math"
	"os"
	"os/user"
	"path/filepath"
	"reflect"
	"sort"
	"strings"
	"time"
	"unsafe"

	"github.com/markusressel/fan2go/internal/configuration"
	"github.com/markusressel/fan2go/internal/control_loop"
	"github.com/markusressel/fan2go/internal/curves"
	"github.com/markusressel/fan2go/internal/fans"
	"github.com/markusressel/fan2go/internal/verifshim/env"
	"github.com/markusressel/fan2go/internal/verifshim/mc"
	"github.com/pterm/pterm"
)

func init() {
	pterm.DisableOutput()
	os.Unsetenv("DISPLAY")
}

type vxCurve struct {
	id    string
	Value int
	Err   error
	Evals int
}

func (c *vxCurve) GetId() string { return c.id }
func (c *vxCurve) Evaluate() (int, error) {
	c.Evals++
	return c.Value, c.Err
}
func (c *vxCurve) CurrentValue() int { return c.Value }

type vxCfg struct {
	Kind      string `json:"kind"` // hwmon | file | cmd
	NeverStop bool   `json:"neverStop"`
	Min       int    `json:"min"` // configured minPwm, -1 = not configured
	Max       int    `json:"max"` // configured maxPwm, -1 = not configured
	// Measured: hwmon only; limits derived from attached RPM curve data: first spin at MeasStart, max rpm reached at MeasMax
	Measured  bool   `json:"measured,omitempty"`
	MeasStart int    `json:"measStart,omitempty"`
	MeasMax   int    `json:"measMax,omitempty"`
	Map       string `json:"map"`  // identity | readme | quant5 | three | identity-noconf
	Algo      string `json:"algo"` // direct | direct:<m> | pid | pid:<p>,<i>,<d>
	NoEnable  bool   `json:"noEnable,omitempty"`
	NoRpm     bool   `json:"noRpm,omitempty"`
	Window    int    `json:"window,omitempty"` // rpmRollingWindowSize (default 1)
	StartPwm  int    `json:"startPwm"`         // initial device pwm
	StartMode int    `json:"startMode"`        // initial pwm_enable
	// HomeRel: file fan whose path and rpmPath are written home-relative ("~/..."), a documented form of the file back-end
	HomeRel bool `json:"homeRel,omitempty"`
}

func (c vxCfg) String() string {
	return fmt.Sprintf("%s ns=%v min=%d max=%d meas=%v(%d,%d) map=%s algo=%s noEn=%v noRpm=%v w=%d", c.Kind, c.NeverStop, c.Min, c.Max, c.Measured, c.MeasStart, c.MeasMax, c.Map, c.Algo, c.NoEnable, c.NoRpm, c.Window)
}

func vxMap(name string) map[int]int {
	m := map[int]int{}
	switch name {
	case "identity", "identity-noconf":
		for i := 0; i <= 255; i++ {
			m[i] = i
		}
	case "readme":
		m = map[int]int{0: 0, 64: 128, 192: 255}
	case "quant5":
		for i := 0; i <= 255; i++ {
			m[i] = i / 5 * 5
		}
	case "three":
		for i := 0; i <= 255; i++ {
			switch {
			case i < 85:
				m[i] = 0
			case i < 170:
				m[i] = 128
			default:
				m[i] = 255
			}
		}
	case "compress":
		// sparse, compressing user map whose outputs coincide with other keys (value 50 is also the key 50, ...)
		m = map[int]int{0: 0, 50: 25, 100: 50, 150: 75, 200: 100, 255: 128}
	case "splateau":
		// sparse user map with redundant keys INSIDE plateaus (100 repeats the output of 0, 200 that of 128): those keys are
		// not supported inputs, a request that hits one of them exactly must still go to the nearest supported input
		m = map[int]int{0: 0, 100: 0, 128: 128, 200: 128, 255: 255}
	case "plateau":
		for i := 0; i <= 255; i++ {
			switch {
			case i < 40:
				m[i] = i
			case i < 120:
				m[i] = 40
			default:
				m[i] = i
			}
		}
	default:
		panic("unknown map " + name)
	}
	return m
}

func vxLoop(algo string) control_loop.ControlLoop {
	switch {
	case algo == "direct":
		return control_loop.NewDirectControlLoop(nil)
	case strings.HasPrefix(algo, "direct:"):
		var m int
		fmt.Sscanf(algo, "direct:%d", &m)
		return control_loop.NewDirectControlLoop(&m)
	case algo == "pid":
		return control_loop.NewPidControlLoop(control_loop.DefaultPidConfig.P, control_loop.DefaultPidConfig.I, control_loop.DefaultPidConfig.D)
	case strings.HasPrefix(algo, "pid:"):
		var p, i, d float64
		fmt.Sscanf(algo, "pid:%g,%g,%g", &p, &i, &d)
		return control_loop.NewPidControlLoop(p, i, d)
	}
	panic("unknown algo " + algo)
}

type vxFix struct {
	lowest map[int]int // cache of vxLowestWriteFor
	cfg    vxCfg
	fs     *env.FS
	dev    *env.Dev
	fan    fans.Fan
	ctl    *DefaultFanController
	curve  *vxCurve
	pmap   map[int]int
	// cmd fans: state directory holding pwm / rpm / mode files read by the scripts
	cmdDir string
}

var vxSharedFS = map[string]*env.FS{}

// vxFS returns the (reset) FS instance of the given role ("search" / "replay"); instances are
// reused across executions and removed by TestMain-less cleanup in vxCleanup.
func vxFS(role string) *env.FS {
	if vxSharedFS[role] == nil {
		vxSharedFS[role] = env.New()
	} else {
		vxSharedFS[role].Reset()
	}
	return vxSharedFS[role]
}

func vxCleanup() {
	for k, fs := range vxSharedFS {
		fs.Close()
		delete(vxSharedFS, k)
	}
}

func vxIntPtr(v int) *int { return &v }

// vxNewFix builds fresh real objects for one execution.
func vxNewFix(cfg vxCfg) *vxFix { return vxNewFixRole(cfg, "replay") }

func vxNewFixRole(cfg vxCfg, role string) *vxFix {
	fx := &vxFix{cfg: cfg}
	fx.fs = vxFS(role)
	w := cfg.Window
	if w <= 0 {
		w = 1
	}
	configuration.CurrentConfig = configuration.Configuration{
		RpmRollingWindowSize:           w,
		TempRollingWindowSize:          997, // deliberately different from every rpm window in use (wrong-option slips must show)
		RpmPollingRate:                 time.Second,
		TempSensorPollingRate:          200 * time.Millisecond,
		ControllerAdjustmentTickRate:   200 * time.Millisecond,
		RunFanInitializationInParallel: true,
		MaxRpmDiffForSettledFan:        20,
		FanResponseDelay:               2,
	}
	fx.curve = &vxCurve{id: "vxcurve"}
	curves.RegisterSpeedCurve(fx.curve)
	fc := configuration.FanConfig{ID: "vxfan", NeverStop: cfg.NeverStop, Curve: "vxcurve"}
	if cfg.Min >= 0 {
		fc.MinPwm = vxIntPtr(cfg.Min)
	}
	if cfg.Max >= 0 {
		fc.MaxPwm = vxIntPtr(cfg.Max)
	}
	fx.pmap = vxMap(cfg.Map)
	switch cfg.Kind {
	case "hwmon":
		fx.dev = fx.fs.NewDev("hwmon0", 1, cfg.StartPwm, cfg.StartMode, !cfg.NoEnable, !cfg.NoRpm)
		fc.HwMon = &configuration.HwMonFanConfig{Platform: "vx", Index: 1, RpmChannel: 1, PwmChannel: 1,
			SysfsPath: filepath.Dir(fx.dev.Pwm), RpmInputPath: fx.dev.Rpm, PwmPath: fx.dev.Pwm, PwmEnablePath: fx.dev.Enable}
	case "file":
		fx.dev = &env.Dev{FS: fx.fs}
		fx.dev.Pwm = fx.fs.Add("filefan/pwm", cfg.StartPwm)
		fc.File = &configuration.FileFanConfig{Path: fx.dev.Pwm}
		if !cfg.NoRpm {
			fx.dev.Rpm = fx.fs.Add("filefan/rpm", 0)
			fc.File.RpmPath = fx.dev.Rpm
		}
		if cfg.HomeRel {
			// "~" + enough ".." to climb out of the home directory + the absolute path: resolves to the same file
			up := ""
			if u, err := user.Current(); err == nil {
				for _, part := range strings.Split(strings.Trim(u.HomeDir, "/"), "/") {
					if part != "" {
						up += "/.."
					}
				}
			}
			fc.File.Path = "~" + up + fx.dev.Pwm
			if fc.File.RpmPath != "" {
				fc.File.RpmPath = "~" + up + fx.dev.Rpm
			}
		}
	default:
		panic("kind " + cfg.Kind)
	}
	fan, err := fans.NewFan(fc)
	if err != nil {
		panic(err)
	}
	fx.fan = fan
	if cfg.Measured {
		data := map[int]float64{}
		for p := 0; p <= 255; p += 5 {
			switch {
			case p < cfg.MeasStart:
				data[p] = 0
			case p >= cfg.MeasMax:
				data[p] = 3000
			default:
				data[p] = 500 + 2500*float64(p-cfg.MeasStart)/float64(cfg.MeasMax-cfg.MeasStart+1)
			}
		}
		data[cfg.MeasStart] = 500
		data[cfg.MeasMax] = 3000
		if err := fan.AttachFanRpmCurveData(&data); err != nil {
			panic(err)
		}
	}
	fans.RegisterFan(fan)
	fx.ctl = NewFanController(nil, fan, vxLoop(cfg.Algo), 200*time.Millisecond).(*DefaultFanController)
	fx.ctl.pwmMap = fx.pmap
	fx.ctl.updateDistinctPwmValues()
	// what Run() records before regulation starts (the cycle harnesses enter after start-up)
	fx.ctl.originalPwmValue = cfg.StartPwm
	if cfg.Kind == "hwmon" && !cfg.NoEnable {
		fx.ctl.originalPwmEnabled = fans.ControlMode(cfg.StartMode)
	}
	return fx
}

// vxLoopState renders the private state of the control loop (PID memory) canonically.
func vxLoopState(l control_loop.ControlLoop) string {
	v := reflect.ValueOf(l)
	if v.Kind() == reflect.Ptr {
		v = v.Elem()
	}
	f := v.FieldByName("pidLoop")
	if !f.IsValid() {
		return "-"
	}
	p := f.Elem()
	zero := p.FieldByName("lastTime").FieldByName("wall").Uint() == 0 && p.FieldByName("lastTime").FieldByName("ext").Int() == 0
	return fmt.Sprintf("pid[e=%x i=%x z=%v]", math.Float64bits(p.FieldByName("error").Float()), math.Float64bits(p.FieldByName("integral").Float()), zero)
}

// vxRebaseLoopTime moves the PID loop's private lastTime to the current (virtual) instant, so that a
// restored snapshot continues exactly as if no virtual time had passed since it was taken.
func vxRebaseLoopTime(l control_loop.ControlLoop) {
	v := reflect.ValueOf(l)
	if v.Kind() == reflect.Ptr {
		v = v.Elem()
	}
	f := v.FieldByName("pidLoop")
	if !f.IsValid() || f.IsNil() {
		return
	}
	lt := f.Elem().FieldByName("lastTime")
	t := reflect.NewAt(lt.Type(), unsafe.Pointer(lt.UnsafeAddr())).Elem()
	if !t.Interface().(time.Time).IsZero() {
		t.Set(reflect.ValueOf(time.Now()))
	}
}

func vxLast(f *DefaultFanController) int {
	if f.lastSetPwm == nil {
		return -999
	}
	return *f.lastSetPwm
}

// vxSkipField lists the controller/fan fields that are NOT part of the canonical state, each with the
// argument why merged states have the same futures:
//
//	stats                      monotone counters, never read by the control path (checked as deltas by oracles)
//	persistence/curve/updateRate  injected collaborators / constants (the curve stub's value is set by the environment every step)
//	pwmMap/pwmValuesWithDistinctTarget  fixed after start-up; the oracle reads the same map object, so a change would be seen
//	fan.Config                 immutable configuration
//	fan.FanCurveData           PWM->RPM samples appended by measureRpm; read only by AttachFanRpmCurveData/persistence, not by the cycle
//
// Every other field (including fields added later) is part of the key.
//
//	fan.Pwm / fan.Rpm (hwmon), fan.Pwm (file)  write-only caches of the last value read (only the JSON API reads them)
func vxSkipField(path string) bool {
	switch path {
	case "fan.Pwm":
		return true
	case "stats", "persistence", "curve", "updateRate", "pwmMap", "pwmValuesWithDistinctTarget", "fan.Config", "fan.FanCurveData":
		return true
	}
	return false
}

// vxStateKey: canonical state of controller + fan (generic deep key) + device files.
func (fx *vxFix) vxStateKey() string {
	mode := -1
	if fx.dev.Enable != "" && fx.fs.F(fx.dev.Enable) != nil {
		mode = fx.fs.Val(fx.dev.Enable)
	}
	skip := vxSkipField
	if fx.cfg.Kind == "hwmon" {
		skip = func(p string) bool { return p == "fan.Rpm" || vxSkipField(p) }
	}
	return fmt.Sprintf("dev[pwm=%d mode=%d] %s", fx.fs.Val(fx.dev.Pwm), mode, mc.DeepKey(fx.ctl, skip))
}

func vxMapValues(m map[int]int) map[int]bool {
	r := map[int]bool{}
	for _, v := range m {
		r[v] = true
	}
	return r
}

func vxSortedInts(m map[int]bool) []int {
	var r []int
	for k := range m {
		r = append(r, k)
	}
	sort.Ints(r)
	return r
}

// vxGuard runs fn and converts a panic into a description (top fan2go frame is part of the signature).
func vxGuard(fn func()) (p string) {
	defer func() {
		if r := recover(); r != nil {
			p = fmt.Sprintf("%v", r)
			if p == "" {
				p = "ui.Fatal"
			}
		}
	}()
	fn()
	return ""
}

var _ = mc.Hash

func registerCurve(c *vxCurve) { curves.RegisterSpeedCurve(c) }
