package controller

// C04: constant curve value => the request settles at one steady target that depends only on the
// curve value and the fan's limits, identical for direct with/without maxPwmChangePerCycle, within
// one step for the default PID; rate-limited requests move monotonically, by at most the limit.
//
// Direct family: the controller step is a function of (curve value, previous request) only, so the
// complete transition relation T[v][cur] is obtained from the REAL UpdateFanSpeed for every state and
// every curve value (explicit-state), and settling is decided on that relation. A sample of closed-loop
// runs on untouched controllers validates the relation against the implementation.
// PID: real-valued memory -> exhaustive catalogue of histories x curve values x tick periods in virtual time.

import (
	"fmt"
	"testing"
	"testing/synctest"
	"time"

	"github.com/markusressel/fan2go/internal/verifshim/env"
	"github.com/markusressel/fan2go/internal/verifshim/mc"
)

type vxC04Case struct {
	Cfg     vxCfg `json:"cfg"`
	V       int   `json:"v"`
	Path    []int `json:"path"`    // direct: symbols leading to the start state (0..255 curve value, 256+s = device pwm := s before the first cycle)
	History []int `json:"history"` // PID: phase ids
	TickMs  int   `json:"tickMs"`
}

func vxRangeClass(lo, hi int) string {
	if lo == 0 && hi == 255 {
		return "range=full"
	}
	return "range=restricted"
}

func vxAbsI(a int) int {
	if a < 0 {
		return -a
	}
	return a
}

// vxC04Graph explores the complete reachable state graph of one configuration under the alphabet
// {curve value 0..255} U {device pwm := s before the first cycle}, on the real controller.
type vxC04Graph struct {
	ids   map[string]int
	req   []int   // request shown by state id (-999 before the first cycle)
	next  [][]int // next[id][v]
	paths [][]int
	stats mc.BFS2Stats
}

func vxC04Explore(rep *mc.Report, cfg vxCfg) *vxC04Graph {
	g := &vxC04Graph{ids: map[string]int{}}
	fx := vxNewFixRole(cfg, "search")
	intern := func(key string, path []int) int {
		if id, ok := g.ids[key]; ok {
			return id
		}
		id := len(g.req)
		g.ids[key] = id
		g.req = append(g.req, -999)
		nx := make([]int, 256)
		for i := range nx {
			nx[i] = -1
		}
		g.next = append(g.next, nx)
		g.paths = append(g.paths, path)
		return id
	}
	reqOf := map[string]int{}
	apply := func(fx *vxFix, sym int) (vxCycObs, bool) {
		if sym >= 256 {
			if fx.ctl.lastSetPwm == nil && fx.curve.Evals == 0 {
				fx.fs.F(fx.dev.Pwm).Val = sym - 256
			}
			return vxCycObs{}, false
		}
		return fx.vxCycle(vxSym{Curve: sym, Rpm: 1000}), true
	}
	model := mc.Model[*vxSnap]{
		NSym: 512,
		Init: func() (*vxSnap, string) {
			k := fx.vxStateKey()
			intern(k, nil)
			return &vxSnap{Ctl: fx.ctl, Files: fx.vxSaveFiles()}, k
		},
		Clone: func(s *vxSnap) *vxSnap {
			return &vxSnap{Ctl: mc.Clone(s.Ctl, fx.pmap, s.Ctl.pwmValuesWithDistinctTarget), Files: s.Files}
		},
		Step: func(s *vxSnap, path []int, sym int) (string, []mc.Violation) {
			fx.vxAttach(s)
			o, cyc := apply(fx, sym)
			s.Files = fx.vxSaveFiles()
			rep.Evaluations++
			var viol []mc.Violation
			if cyc && (o.Panic != "" || o.Err != nil) {
				viol = append(viol, mc.Violation{Signature: "C04 cycle failed", Detail: fmt.Sprintf("%v %v", o.Panic, o.Err), Replay: vxC04Case{Cfg: cfg, V: sym, Path: append([]int{}, path...)}})
			}
			k := fx.vxStateKey()
			reqOf[k] = vxLast(fx.ctl)
			return k, viol
		},
		Enabled: func(s *vxSnap, sym int) bool {
			return sym < 256 || (s.Ctl.lastSetPwm == nil && s.Ctl.curve.(*vxCurve).Evals == 0)
		},
		Replay: func(path []int) string {
			fy := vxNewFixRole(cfg, "replay")
			for _, sym := range path {
				apply(fy, sym)
			}
			rep.Count("replay_validations", 1)
			return fy.vxStateKey()
		},
		OnEdge: func(from string, fromPath []int, sym int, to string, isNew bool) {
			a := intern(from, fromPath)
			b := intern(to, append(append([]int{}, fromPath...), sym))
			g.req[b] = reqOf[to]
			if sym < 256 {
				g.next[a][sym] = b
			}
		},
	}
	g.stats = mc.BFS2(rep, mc.BFSOpts{NSym: 512, MaxStates: 100000, Deadline: vxC04Deadline}, model)
	rep.States += int64(g.stats.States)
	rep.Transitions += g.stats.Transitions
	if !g.stats.Closed {
		rep.Cap(fmt.Sprintf("C04 state graph of %s not closed (%d states)", cfg, g.stats.States))
	}
	return g
}

func vxC04Direct(rep *mc.Report, lo, hi, m int, mapName string) {
	algo := fmt.Sprintf("direct:%d", m)
	cfg := vxCfg{Kind: "hwmon", NeverStop: lo > 0, Min: lo, Max: hi, Map: mapName, Algo: algo, StartPwm: 0, StartMode: 1}
	plain := cfg
	plain.Algo = "direct"
	rc := vxRangeClass(lo, hi)
	// steady value of the plain direct algorithm: must not depend on the state it is applied in
	gp := vxC04Explore(rep, plain)
	if !gp.stats.Closed {
		return
	}
	var S [256]int
	for v := 0; v <= 255; v++ {
		S[v] = -1
		for id := range gp.next {
			nx := gp.next[id][v]
			if nx < 0 {
				continue
			}
			if S[v] == -1 {
				S[v] = gp.req[nx]
			} else if gp.req[nx] != S[v] {
				rep.Violate(mc.Violation{Signature: "C04 direct steady value depends on history " + rc, Detail: fmt.Sprintf("limits [%d,%d] v=%d: request %d after path %v, but %d elsewhere", lo, hi, v, gp.req[nx], gp.paths[id], S[v]), Replay: vxC04Case{Cfg: plain, V: v, Path: gp.paths[id]}})
				return
			}
		}
		if v > 0 && S[v] < S[v-1] {
			rep.Violate(mc.Violation{Signature: "C04 steady value not monotone in curve value", Detail: fmt.Sprintf("S(%d)=%d < S(%d)=%d limits [%d,%d]", v, S[v], v-1, S[v-1], lo, hi), Replay: vxC04Case{Cfg: plain, V: v}})
			return
		}
	}
	if S[0] != lo || S[255] != hi {
		rep.Violate(mc.Violation{Signature: "C04 steady value at curve 0/255 is not min/max", Detail: fmt.Sprintf("S(0)=%d S(255)=%d limits [%d,%d]", S[0], S[255], lo, hi), Replay: vxC04Case{Cfg: plain, V: 0}})
		return
	}
	g := vxC04Explore(rep, cfg)
	if !g.stats.Closed {
		return
	}
	bound := (255+m-1)/m + 2
	for id := range g.next {
		for v := 0; v <= 255; v++ {
			x := id
			for k := 0; ; k++ {
				nx := g.next[x][v]
				if nx < 0 {
					rep.HarnessError(fmt.Sprintf("C04: missing edge in closed graph (state %d v %d)", x, v))
					return
				}
				replay := vxC04Case{Cfg: cfg, V: v, Path: g.paths[id]}
				if g.req[x] != -999 {
					if vxAbsI(g.req[nx]-g.req[x]) > m {
						rep.Violate(mc.Violation{Signature: "C04 rate limit exceeded " + rc,
							Detail: fmt.Sprintf("limits [%d,%d] m=%d v=%d: request %d -> %d (start state reached by %v, step %d)", lo, hi, m, v, g.req[x], g.req[nx], g.paths[id], k), Replay: replay})
						return
					}
					if vxAbsI(g.req[nx]-S[v]) > vxAbsI(g.req[x]-S[v]) {
						rep.Violate(mc.Violation{Signature: "C04 rate-limited request moves away from steady value " + rc,
							Detail: fmt.Sprintf("limits [%d,%d] m=%d v=%d: request %d -> %d, steady value %d (start state reached by %v, step %d)", lo, hi, m, v, g.req[x], g.req[nx], S[v], g.paths[id], k), Replay: replay})
						return
					}
				}
				if nx == x {
					if g.req[x] != S[v] {
						rep.Violate(mc.Violation{Signature: "C04 rate-limited direct settles at a value different from direct's " + rc,
							Detail: fmt.Sprintf("limits [%d,%d] m=%d map=%s v=%d: settles at %d after %d cycles, direct's steady value is %d (start state reached by %v)", lo, hi, m, mapName, v, g.req[x], k, S[v], g.paths[id]), Replay: replay})
						return
					}
					break
				}
				if k > bound {
					rep.Violate(mc.Violation{Signature: "C04 rate-limited direct does not settle within ceil(255/m)+2 cycles " + rc,
						Detail: fmt.Sprintf("limits [%d,%d] m=%d map=%s v=%d: request %d after %d cycles, direct's steady value %d (start state reached by %v)", lo, hi, m, mapName, v, g.req[nx], k, S[v], g.paths[id]), Replay: replay})
					return
				}
				x = nx
			}
		}
	}
	rep.AddDistinct(int64(256 * len(g.next)))
	// one transient failed PWM write at any step of the approach must not disturb the sequence of requests
	// (deviation bound 1 over the closed loop at constant curve value)
	for _, v := range []int{0, 37, 128, 200, 255} {
		for _, s := range []int{0, 90, 255} {
			steps := bound
			if steps > 45 {
				steps = 45
			}
			for k := 0; k < steps; k++ {
				fy := vxNewFixRole(vxCfg{Kind: "hwmon", NeverStop: lo > 0, Min: lo, Max: hi, Map: mapName, Algo: algo, StartPwm: s, StartMode: 1}, "replay")
				prev := -999
				for i := 0; i < steps+3; i++ {
					if i == k {
						fy.fs.Intercept = func(kind, path string, value int) *env.Result {
							if kind != "read" && path == fy.dev.Pwm {
								return &env.Result{Err: env.ErrInval(path)}
							}
							return nil
						}
					}
					o := fy.vxCycle(vxSym{Curve: v, Rpm: 1000})
					fy.fs.Intercept = nil
					rep.Evaluations++
					if o.Panic != "" || o.Err != nil {
						rep.Violate(mc.Violation{Signature: "C04 cycle failed", Detail: fmt.Sprintf("%v %v", o.Panic, o.Err), Replay: vxC04Case{Cfg: cfg, V: v}})
						return
					}
					if prev != -999 && (vxAbsI(o.Req-prev) > m || vxAbsI(o.Req-S[v]) > vxAbsI(prev-S[v])) {
						rep.Violate(mc.Violation{Signature: "C04 request sequence disturbed by a single failed PWM write " + rc,
							Detail: fmt.Sprintf("limits [%d,%d] m=%d v=%d start %d: PWM write of cycle %d refused; request went %d -> %d at cycle %d (steady value %d)", lo, hi, m, v, s, k, prev, o.Req, i, S[v]), Replay: vxC04Case{Cfg: cfg, V: v}})
						return
					}
					prev = o.Req
				}
			}
		}
	}
	// a fan that is not never-stop and reports 0 RPM (no tach signal, or legitimately standing still at a low request): the
	// steady target depends on the curve value and the limits only, so the request must settle at S[v] and stay there
	if lo == 0 {
		for _, v := range []int{0, 37, 128, 255} {
			for _, s := range []int{0, 255} {
				fy := vxNewFixRole(vxCfg{Kind: "hwmon", NeverStop: false, Min: lo, Max: hi, Map: mapName, Algo: algo, StartPwm: s, StartMode: 1}, "replay")
				last := -999
				for i := 0; i < bound+120; i++ {
					o := fy.vxCycle(vxSym{Curve: v, Rpm: 0})
					rep.Evaluations++
					if o.Panic != "" || o.Err != nil {
						rep.Violate(mc.Violation{Signature: "C04 cycle failed", Detail: fmt.Sprintf("fan reporting 0 RPM, not never-stop: %v %v", o.Panic, o.Err), Replay: vxC04Case{Cfg: cfg, V: v}})
						return
					}
					if i > bound+2 && o.Req != S[v] {
						rep.Violate(mc.Violation{Signature: "C04 request of a fan reporting 0 RPM (not never-stop) leaves the steady value " + rc,
							Detail: fmt.Sprintf("limits [%d,%d] m=%d map=%s v=%d start %d: request %d at cycle %d (previous %d), steady value for this curve value is %d", lo, hi, m, mapName, v, s, o.Req, i, last, S[v]), Replay: vxC04Case{Cfg: cfg, V: v}})
						return
					}
					last = o.Req
				}
			}
		}
	}
}

var vxC04Deadline time.Time

func TestVX_C04(t *testing.T) {
	vxC04Deadline = mc.Deadline(80*time.Second, 13*time.Minute)
	rep := mc.NewReport("C04", "controller/settle-direct")
	defer rep.Write()
	defer vxCleanup()
	var rc vxC04Case
	if mc.ReplayCase(&rc) {
		if vxIsPid(rc.Cfg.Algo) {
			return
		}
		var m int
		fmt.Sscanf(rc.Cfg.Algo, "direct:%d", &m)
		if m == 0 {
			m = 255
		}
		vxC04Direct(rep, rc.Cfg.Min, rc.Cfg.Max, m, rc.Cfg.Map)
		return
	}
	step := 51
	ms := []int{1, 5, 10, 255}
	if mc.Thorough() {
		step = 17
		ms = []int{1, 2, 5, 10, 64, 254, 255}
	}
	type job struct {
		lo, hi, m int
		mp        string
	}
	var jobs []job
	for lo := 0; lo < 255; lo += step {
		for hi := lo + step; hi <= 255; hi += step {
			for _, m := range ms {
				jobs = append(jobs, job{lo, hi, m, "identity"})
			}
		}
	}
	for _, m := range ms {
		jobs = append(jobs, job{0, 255, m, "readme"}, job{50, 150, m, "quant5"}, job{0, 1, m, "identity"}, job{254, 255, m, "identity"})
	}
	for i, j := range jobs {
		if !mc.Mine(i) {
			continue
		}
		rep.Configs++
		vxC04Direct(rep, j.lo, j.hi, j.m, j.mp)
		if i%23 == 0 {
			rep.Sample(map[string]any{"limits": []int{j.lo, j.hi}, "maxPwmChangePerCycle": j.m, "map": j.mp, "checked": "complete reachable state graph under all 256 curve values from every fresh-start device value; settle walk from every state for every curve value"})
		}
	}
	rep.Note("states = canonical deep keys of the real controller+fan+device; transitions = real UpdateFanSpeed calls; every new state validated by a from-scratch replay; settle analysis on the closed graph")
}

// ---------------------------------------------------------------- PID

// history phases (in cycles of the tick period): id -> (curve value, duration)
type vxPhase struct {
	Name  string
	Curve []int // repeating pattern of curve values
	Dur   time.Duration
}

var vxPhases = []vxPhase{
	{"idle0-1s", []int{0}, time.Second},
	{"idle255-1s", []int{255}, time.Second},
	{"idle0-1min", []int{0}, time.Minute},
	{"idle255-1min", []int{255}, time.Minute},
	{"step0-255-0", []int{0, 0, 0, 0, 0, 255, 255, 255, 255, 255}, 20 * time.Second},
	{"saw", []int{0, 64, 128, 192, 255}, 20 * time.Second},
	{"idle0-1h", []int{0}, time.Hour},
	{"idle255-1h", []int{255}, time.Hour},
	// not a regulation phase: the controller exists for 10 minutes before its first cycle (a fan that is analysed first);
	// only generated as the FIRST phase of a history
	{"startup-gap-10min", nil, 10 * time.Minute},
}

// closed loop at constant v after the given history; returns settle index, final request, trajectory head
func vxC04PidRun(c vxC04Case, horizon, window int) (settle int, final int, head []int, fail string) {
	fx := vxNewFixRole(c.Cfg, "search")
	tick := time.Duration(c.TickMs) * time.Millisecond
	for _, ph := range c.History {
		p := vxPhases[ph]
		if p.Curve == nil {
			time.Sleep(p.Dur)
			continue
		}
		n := int(p.Dur / tick)
		for k := 0; k < n; k++ {
			time.Sleep(tick)
			o := fx.vxCycle(vxSym{Curve: p.Curve[(k*len(p.Curve))/max(n, 1)%len(p.Curve)], Rpm: 1000})
			if o.Panic != "" || o.Err != nil {
				return 0, 0, nil, fmt.Sprintf("cycle failed in history: %v %v", o.Panic, o.Err)
			}
		}
	}
	last, since := -1, 0
	for k := 0; k < horizon; k++ {
		time.Sleep(tick)
		o := fx.vxCycle(vxSym{Curve: c.V, Rpm: 1000})
		if o.Panic != "" || o.Err != nil {
			return 0, 0, nil, fmt.Sprintf("cycle failed: %v %v", o.Panic, o.Err)
		}
		if len(head) < 12 {
			head = append(head, o.Req)
		}
		if o.Req != last {
			last, since = o.Req, k
		}
		if k-since >= window {
			return since, last, head, ""
		}
	}
	return -1, last, head, ""
}

func TestVX_C04pid(t *testing.T) {
	rep := mc.NewReport("C04", "controller/settle-pid")
	defer rep.Write()
	defer vxCleanup()
	var rc vxC04Case
	replaying := mc.ReplayCase(&rc)
	if replaying && !vxIsPid(rc.Cfg.Algo) {
		return
	}
	ranges := [][2]int{{0, 255}, {50, 150}}
	ticks := []int{200, 2000} // quick: the default period and the longest documented one (histories of one phase only for the latter)
	vs := []int{0, 64, 128, 192, 255}
	maxLen := 2
	if mc.Thorough() {
		ranges = [][2]int{{0, 255}, {50, 150}, {0, 100}, {100, 255}, {20, 235}}
		ticks = []int{50, 200, 2000}
		vs = []int{0, 17, 64, 100, 128, 192, 254, 255}
		maxLen = 3
	}
	// histories: all sequences of phases up to maxLen, with at most one 1h phase (ids 6,7) per history
	var hists [][]int
	var gen func(cur []int)
	gen = func(cur []int) {
		hists = append(hists, append([]int{}, cur...))
		if len(cur) == maxLen {
			return
		}
		for p := range vxPhases {
			if vxPhases[p].Curve == nil && len(cur) > 0 {
				continue // the start-up gap can only come first
			}
			long := 0
			for _, q := range cur {
				if q >= 6 {
					long++
				}
			}
			if p >= 6 && long > 0 {
				continue
			}
			gen(append(cur, p))
		}
	}
	gen(nil)
	synctest.Test(t, func(t *testing.T) {
		job := 0
		for _, r := range ranges {
			for _, tickMs := range ticks {
				cfg := vxCfg{Kind: "hwmon", NeverStop: r[0] > 0, Min: r[0], Max: r[1], Map: "identity", Algo: "pid", StartPwm: 0, StartMode: 1}
				if replaying && (rc.Cfg.Min != r[0] || rc.Cfg.Max != r[1] || rc.TickMs != tickMs) {
					continue
				}
				job++
				if !replaying && !mc.Mine(job) {
					continue
				}
				rep.Configs++
				rcl := vxRangeClass(r[0], r[1])
				dt := float64(tickMs) / 1000
				window := int(0.5/(0.02*dt)) + 30 // worst-case integral creep time for a remaining error of 1
				// steady values of the plain direct algorithm
				plain := cfg
				plain.Algo = "direct"
				S := map[int]int{}
				for _, v := range vs {
					fp := vxNewFixRole(plain, "replay")
					S[v] = fp.vxCycle(vxSym{Curve: v, Rpm: 1000}).Req
				}
				// K_fresh: worst settle index from a fresh controller (device at 0 / 128 / 255)
				kFresh := 0
				for _, v := range vs {
					for _, s := range []int{0, 128, 255} {
						c := vxC04Case{Cfg: cfg, V: v, TickMs: tickMs}
						c.Cfg.StartPwm = s
						k, fin, head, fail := vxC04PidRun(c, 20000, window)
						rep.Evaluations++
						if fail != "" || k < 0 {
							rep.Violate(mc.Violation{Signature: "C04 pid does not settle from a fresh controller " + rcl, Detail: fmt.Sprintf("%s v=%d start=%d tick=%dms: %s final %d head %v", cfg, v, s, tickMs, fail, fin, head), Replay: c})
							continue
						}
						if vxAbsI(fin-S[v]) > 1 {
							rep.Violate(mc.Violation{Signature: "C04 pid steady value differs from direct's " + rcl, Detail: fmt.Sprintf("%s v=%d start=%d tick=%dms: settles at %d, direct's steady value %d (head %v)", cfg, v, s, tickMs, fin, S[v], head), Replay: c})
						}
						if k > kFresh {
							kFresh = k
						}
					}
				}
				allow := 3*kFresh + 10
				rep.Note(fmt.Sprintf("limits %v tick %dms: K_fresh=%d cycles, allowed settle index after any history %d, constancy window %d", r, tickMs, kFresh, allow, window))
				for hi, h := range hists {
					if len(h) == 0 {
						continue
					}
					if !mc.Thorough() && !replaying && tickMs != 200 && len(h) > 1 {
						continue
					}
					if replaying && fmt.Sprint(h) != fmt.Sprint(rc.History) {
						continue
					}
					for _, v := range vs {
						if replaying && v != rc.V {
							continue
						}
						c := vxC04Case{Cfg: cfg, V: v, TickMs: tickMs, History: h}
						k, fin, head, fail := vxC04PidRun(c, allow+window+5, window)
						rep.Evaluations++
						rep.Transitions++
						names := []string{}
						for _, p := range h {
							names = append(names, vxPhases[p].Name)
						}
						if fail != "" {
							rep.Violate(mc.Violation{Signature: "C04 cycle failed", Detail: fail, Replay: c})
							continue
						}
						if k < 0 || k > allow {
							rep.Violate(mc.Violation{Signature: "C04 pid settle time depends on history " + rcl, Detail: fmt.Sprintf("%s tick=%dms history %v then v=%d: not settled within %d cycles (fresh controllers need at most %d); request still %d, first requests %v, direct's steady value %d", cfg, tickMs, names, v, allow, kFresh, fin, head, S[v]), Replay: c})
							continue
						}
						if vxAbsI(fin-S[v]) > 1 {
							rep.Violate(mc.Violation{Signature: "C04 pid steady value differs from direct's " + rcl, Detail: fmt.Sprintf("%s tick=%dms history %v then v=%d: settles at %d, direct's steady value %d", cfg, tickMs, names, v, fin, S[v]), Replay: c})
							continue
						}
						rep.AddDistinct(1)
						if hi%61 == 7 && v == 128 {
							rep.Sample(map[string]any{"limits": r, "tickMs": tickMs, "history": names, "v": v, "settle_index": k, "final": fin, "first_requests": head})
						}
					}
				}
			}
		}
	})
}
