package controller

// C05: external interference with a fan (control mode or PWM value changed by a third party at any
// time — between cycles or in the middle of a cycle, before any file operation) is undone within one
// control cycle; a changed PWM value is counted once, nothing is counted on interference-free paths.
// Explicit-state BFS over the real UpdateFanSpeed with interference symbols.

import (
	"fmt"
	"strings"
	"testing"
	"testing/synctest"
	"time"

	"github.com/markusressel/fan2go/internal/verifshim/env"
	"github.com/markusressel/fan2go/internal/verifshim/mc"
)

type vxC05Sym struct {
	Kind  string `json:"kind"`  // cycle | stall (cycle with the fan reporting 0 RPM) | noread (cycle during which every read of the PWM file fails) | mode | pwm | pwmrel | mid
	Curve int    `json:"curve"` // cycle / mid
	Val   int    `json:"val"`   // mode value / pwm value / relative offset
	Op    int    `json:"op"`    // mid: inject before the op-th file operation of the cycle
	Act   string `json:"act"`   // mid: mode | pwm | pwmrel
}

func (s vxC05Sym) String() string {
	switch s.Kind {
	case "cycle":
		return fmt.Sprintf("cycle(curve=%d)", s.Curve)
	case "noread":
		return fmt.Sprintf("cycle(curve=%d) while reads of the PWM file fail", s.Curve)
	case "stall":
		return fmt.Sprintf("cycle(curve=%d) with the fan reporting 0 RPM", s.Curve)
	case "mode":
		return fmt.Sprintf("3rd-party mode:=%d", s.Val)
	case "pwm":
		return fmt.Sprintf("3rd-party pwm:=%d", s.Val)
	case "pwmrel":
		return fmt.Sprintf("3rd-party pwm:=expected%+d", s.Val)
	}
	return fmt.Sprintf("cycle(curve=%d) with 3rd-party %s %d before file op #%d", s.Curve, s.Act, s.Val, s.Op)
}

type vxC05Case struct {
	Cfg  vxCfg      `json:"cfg"`
	Syms []vxC05Sym `json:"syms"`
}

type vxC05Hist struct {
	Dirty      bool // a cycle with mid-cycle interference ran since the last clean cycle
	PwmTouched bool // a third party wrote the PWM file since the last cycle
	Cycles     int
}

func vxExpectedDev(fx *vxFix) (vals []int, ok bool) {
	if fx.ctl.lastSetPwm == nil {
		return nil, false
	}
	for _, k := range vxRefNearest(fx.pmap, *fx.ctl.lastSetPwm) {
		vals = append(vals, fx.pmap[k])
	}
	return vals, true
}

func vxIn(v int, l []int) bool {
	for _, x := range l {
		if x == v {
			return true
		}
	}
	return false
}

func vxClamp255(v int) int {
	if v < 0 {
		return 0
	}
	if v > 255 {
		return 255
	}
	return v
}

// apply one symbol to the attached objects; returns violations
func vxC05Apply(fx *vxFix, h *vxC05Hist, s vxC05Sym, trail func() []vxC05Sym) (viol []mc.Violation) {
	bad := func(sig, msg string) {
		var names []string
		t := trail()
		for _, x := range t {
			names = append(names, x.String())
		}
		viol = append(viol, mc.Violation{Property: "C05", Signature: sig, Detail: msg + "\nconfig: " + fx.cfg.String() + "\nsequence: " + strings.Join(names, "; "), Replay: vxC05Case{fx.cfg, t}})
	}
	thirdPwm := func(kind string, val int) {
		v := val
		if kind == "pwmrel" {
			if exp, ok := vxExpectedDev(fx); ok {
				v = vxClamp255(exp[0] + val)
			} else {
				v = vxClamp255(fx.fs.Val(fx.dev.Pwm) + val)
			}
		}
		fx.fs.F(fx.dev.Pwm).Val = v
	}
	switch s.Kind {
	case "mode":
		if fx.fs.F(fx.dev.Enable) != nil {
			fx.fs.F(fx.dev.Enable).Val = s.Val
		}
		return
	case "pwm", "pwmrel":
		thirdPwm(s.Kind, s.Val)
		h.PwmTouched = true
		return
	}
	// a control cycle (possibly with mid-cycle interference)
	expBefore, haveExp := vxExpectedDev(fx)
	devBefore := fx.fs.Val(fx.dev.Pwm)
	unexpBefore := fx.ctl.stats.UnexpectedPwmValueCount
	mid := s.Kind == "mid"
	injected := false
	if s.Kind == "noread" {
		pwmPath := fx.dev.Pwm
		fx.fs.Intercept = func(kind, path string, value int) *env.Result {
			if kind == "read" && path == pwmPath {
				return &env.Result{Val: -1, Err: env.ErrInval(path)}
			}
			return nil
		}
	}
	if mid {
		n := 0
		fx.fs.Intercept = func(kind, path string, value int) *env.Result {
			if n == s.Op && !injected {
				injected = true
				if s.Act == "mode" {
					if fx.fs.F(fx.dev.Enable) != nil {
						fx.fs.F(fx.dev.Enable).Val = s.Val
					}
				} else {
					thirdPwm(s.Act, s.Val)
				}
			}
			n++
			return nil
		}
	}
	rpm := 1000
	if s.Kind == "stall" {
		rpm = 0
	}
	o := fx.vxCycle(vxSym{Curve: s.Curve, Rpm: rpm, DtMs: 200})
	fx.fs.Intercept = nil
	h.Cycles++
	if o.Stalled {
		return // stalled at maximum: regulation of this fan ends (C10)
	}
	if o.Panic != "" || o.Err != nil {
		bad("C05 cycle failed", fmt.Sprintf("panic=%q err=%v", o.Panic, o.Err))
		return
	}
	delta := o.Unexp - unexpBefore
	if delta < 0 || delta > 1 {
		bad("C05 third-party counter moved by other than 0/1 in one cycle", fmt.Sprintf("delta %d", delta))
	}
	if mid && injected {
		h.Dirty = true
		h.PwmTouched = false
		return
	}
	// clean cycle: fan must be back in manual mode at the mapped value of the current request
	if fx.fs.F(fx.dev.Enable) != nil && fx.fs.Val(fx.dev.Enable) != 1 {
		bad("C05 fan not in manual mode after a complete cycle", fmt.Sprintf("pwm_enable=%d", fx.fs.Val(fx.dev.Enable)))
	}
	near := vxRefNearest(fx.pmap, o.Req)
	var want []int
	for _, k := range near {
		want = append(want, fx.pmap[k])
	}
	if !vxIn(o.DevPwm, want) {
		bad("C05 fan not at the value the current request dictates after a complete cycle", fmt.Sprintf("request %d -> expected device value %v, device shows %d", o.Req, want, o.DevPwm))
	}
	// counting (fan2go cannot see the value while its reads fail: nothing is demanded of the counter in such a cycle)
	if haveExp && !h.Dirty && s.Kind != "noread" {
		changed := !vxIn(devBefore, expBefore)
		switch {
		case changed && delta != 1:
			bad("C05 third-party PWM change not counted", fmt.Sprintf("device showed %d at cycle start, fan2go had set %v; counter delta %d", devBefore, expBefore, delta))
		case !h.PwmTouched && delta != 0:
			bad("C05 third-party change counted although nothing touched the PWM value", fmt.Sprintf("device showed %d at cycle start, fan2go had set %v; counter delta %d", devBefore, expBefore, delta))
		}
	}
	if !haveExp && !h.Dirty && !h.PwmTouched && s.Kind != "noread" && delta != 0 {
		// fan2go's first cycle: it has not set any value yet, so whatever the fan shows is not a third-party change
		bad("C05 third-party change counted in the first cycle although nothing touched the PWM value", fmt.Sprintf("device showed %d at cycle start (the value found at start-up), fan2go had not set anything yet; counter delta %d", devBefore, delta))
	}
	h.Dirty = false
	h.PwmTouched = false
	return
}

func vxC05Alphabet(cfg vxCfg) []vxC05Sym {
	var a []vxC05Sym
	curvesV := []int{0, 100, 255}
	for _, c := range curvesV {
		a = append(a, vxC05Sym{Kind: "cycle", Curve: c})
	}
	for _, m := range []int{0, 2, 3} {
		a = append(a, vxC05Sym{Kind: "mode", Val: m})
	}
	// the fan stands still (never-stop handling raises the minimum in the same cycle that may count an interference)
	if cfg.NeverStop && !cfg.NoRpm {
		a = append(a, vxC05Sym{Kind: "stall", Curve: 100})
	}
	// the PWM file cannot be read during the cycle (flaky bus): the interference must still be undone (writes succeed)
	a = append(a, vxC05Sym{Kind: "noread", Curve: 100}, vxC05Sym{Kind: "noread", Curve: 255})
	pid := vxIsPid(cfg.Algo)
	if pid || !mc.Thorough() {
		for _, p := range []int{0, 1, 64, 128, 200, 255} {
			a = append(a, vxC05Sym{Kind: "pwm", Val: p})
		}
	} else {
		for p := 0; p <= 255; p++ {
			a = append(a, vxC05Sym{Kind: "pwm", Val: p})
		}
	}
	for _, d := range []int{-1, 1} {
		a = append(a, vxC05Sym{Kind: "pwmrel", Val: d})
	}
	// mid-cycle interference before every file operation of a cycle (a hwmon cycle has <= 9 of them)
	for _, c := range curvesV {
		if pid && c == 100 {
			continue
		}
		for op := 0; op < 9; op++ {
			for _, m := range []int{0, 2} {
				a = append(a, vxC05Sym{Kind: "mid", Curve: c, Op: op, Act: "mode", Val: m})
			}
			for _, p := range []int{0, 255} {
				a = append(a, vxC05Sym{Kind: "mid", Curve: c, Op: op, Act: "pwm", Val: p})
			}
			for _, d := range []int{-1, 1} {
				a = append(a, vxC05Sym{Kind: "mid", Curve: c, Op: op, Act: "pwmrel", Val: d})
			}
		}
	}
	return a
}

type vxC05Snap struct {
	Ctl   *DefaultFanController
	Files map[string]env.File
	Hist  vxC05Hist
}

func TestVX_C05(t *testing.T) {
	rep := mc.NewReport("C05", "controller/interference")
	defer rep.Write()
	defer vxCleanup()
	var rc vxC05Case
	if mc.ReplayCase(&rc) {
		synctest.Test(t, func(t *testing.T) {
			fx := vxNewFixRole(rc.Cfg, "replay")
			h := &vxC05Hist{}
			for i, s := range rc.Syms {
				for _, v := range vxC05Apply(fx, h, s, func() []vxC05Sym { return rc.Syms[:i+1] }) {
					rep.Violate(v)
				}
			}
			rep.Evaluations = int64(len(rc.Syms))
		})
		return
	}
	var cfgs []vxCfg
	for _, mp := range []string{"identity", "readme", "quant5", "compress"} {
		for _, algo := range []string{"direct", "direct:10", "pid"} {
			cfgs = append(cfgs, vxCfg{Kind: "hwmon", Min: -1, Max: -1, Map: mp, Algo: algo, StartPwm: 77, StartMode: 2})
			if algo == "direct" {
				// the fan was already in manual mode / had no control when fan2go took over
				cfgs = append(cfgs, vxCfg{Kind: "hwmon", Min: -1, Max: -1, Map: mp, Algo: algo, StartPwm: 77, StartMode: 1})
				cfgs = append(cfgs, vxCfg{Kind: "hwmon", Min: -1, Max: -1, Map: mp, Algo: algo, StartPwm: 77, StartMode: 0})
			}
			cfgs = append(cfgs, vxCfg{Kind: "hwmon", NeverStop: true, Min: 50, Max: 200, Map: mp, Algo: algo, StartPwm: 0, StartMode: 1})
		}
		cfgs = append(cfgs, vxCfg{Kind: "hwmon", Min: -1, Max: -1, Map: mp, Algo: "direct", StartPwm: 77, NoEnable: true})
		// PWM-only header: no tach input
		cfgs = append(cfgs, vxCfg{Kind: "hwmon", Min: -1, Max: -1, Map: mp, Algo: "direct", StartPwm: 77, StartMode: 2, NoRpm: true})
		cfgs = append(cfgs, vxCfg{Kind: "file", Min: -1, Max: -1, Map: mp, Algo: "direct", StartPwm: 77})
	}
	deadline := mc.Deadline(45*time.Second, 12*time.Minute)
	synctest.Test(t, func(t *testing.T) {
		var mine []int
		for ci := range cfgs {
			if mc.Mine(ci) {
				mine = append(mine, ci)
			}
		}
		for mi, ci := range mine {
			cfg := cfgs[ci]
			slice := deadline.Sub(mc.RealNow()) / time.Duration(len(mine)-mi)
			if slice < 300*time.Millisecond {
				slice = 300 * time.Millisecond
			}
			cfgDeadline := mc.RealNow().Add(slice)
			alpha := vxC05Alphabet(cfg)
			fx := vxNewFixRole(cfg, "search")
			toSyms := func(path []int, extra int) []vxC05Sym {
				var r []vxC05Sym
				for _, p := range path {
					r = append(r, alpha[p])
				}
				if extra >= 0 {
					r = append(r, alpha[extra])
				}
				return r
			}
			keyOf := func(fx *vxFix, h *vxC05Hist) string {
				return fmt.Sprintf("%s dirty=%v touched=%v", fx.vxStateKey(), h.Dirty, h.PwmTouched)
			}
			o := mc.BFSOpts{NSym: len(alpha), Deadline: cfgDeadline, MaxStates: 30000}
			if vxIsPid(cfg.Algo) {
				o.MaxDepth = 3
				if mc.Thorough() {
					o.MaxDepth = 4
				}
			}
			if mc.Thorough() {
				o.MaxStates = 300000
			}
			var sample any
			model := mc.Model[*vxC05Snap]{
				NSym: len(alpha),
				Init: func() (*vxC05Snap, string) {
					h := vxC05Hist{}
					return &vxC05Snap{Ctl: fx.ctl, Files: fx.vxSaveFiles()}, keyOf(fx, &h)
				},
				Clone: func(s *vxC05Snap) *vxC05Snap {
					return &vxC05Snap{Ctl: mc.Clone(s.Ctl, fx.pmap, s.Ctl.pwmValuesWithDistinctTarget), Files: s.Files, Hist: s.Hist}
				},
				Step: func(s *vxC05Snap, path []int, sym int) (string, []mc.Violation) {
					fx.vxAttach(&vxSnap{Ctl: s.Ctl, Files: s.Files})
					viol := vxC05Apply(fx, &s.Hist, alpha[sym], func() []vxC05Sym { return toSyms(path, sym) })
					s.Files = fx.vxSaveFiles()
					rep.Evaluations++
					if alpha[sym].Kind == "mid" && len(path) == 2 && sample == nil {
						sample = map[string]any{"config": cfg.String(), "sequence": fmt.Sprint(toSyms(path, sym)), "device_pwm": fx.fs.Val(fx.dev.Pwm), "third_party_count": s.Ctl.stats.UnexpectedPwmValueCount}
					}
					return keyOf(fx, &s.Hist), viol
				},
				Replay: func(path []int) string {
					fy := vxNewFixRole(cfg, "replay")
					h := &vxC05Hist{}
					for _, s := range toSyms(path, -1) {
						vxC05Apply(fy, h, s, func() []vxC05Sym { return nil })
					}
					rep.Count("replay_validations", 1)
					return keyOf(fy, h)
				},
			}
			st := mc.BFS2(rep, o, model)
			rep.Configs++
			rep.States += int64(st.States)
			rep.Transitions += st.Transitions
			rep.AddDistinct(int64(st.States))
			if st.Closed {
				rep.Count("configs_closed", 1)
			} else if vxIsPid(cfg.Algo) {
				rep.Cap(fmt.Sprintf("PID configs: all sequences to depth %d", o.MaxDepth))
			} else {
				rep.Cap(fmt.Sprintf("state cap/deadline for %s (%d states, depth %d)", cfg, st.States, st.Depth))
			}
			if sample != nil {
				rep.Sample(sample)
			}
		}
	})
	rep.Note("symbols: control cycle (curve 0/100/255), third-party mode write 0/2/3, third-party PWM write (value list or expected+-1), and cycles with one interference injected before the k-th file operation (k=0..8); oracle on every clean cycle")
}
