package controller

// C01 with two fans in one daemon: every controller has its own PWM map and limits; what one fan requested or learned must
// never influence the value written to the other. Two real controllers (different maps / limits) alive in the same process,
// cycles interleaved in three orders over a sweep of curve values; per-cycle oracle of C01 for each of them.

import (
	"fmt"
	"testing"
	"testing/synctest"

	"github.com/markusressel/fan2go/internal/verifshim/mc"
)

type vxPairCase struct {
	A     vxCfg  `json:"a"`
	B     vxCfg  `json:"b"`
	Order string `json:"order"` // alternate-ab | alternate-ba | a-first
}

func vxPairRun(c vxPairCase) (viol []mc.Violation, cycles int64) {
	fa := vxNewFixRole(c.A, "pairA")
	fb := vxNewFixRole(c.B, "pairB")
	ha := &vxHist{M0: vxM0(fa), PrevMin: fa.fan.GetMinPwm()}
	hb := &vxHist{M0: vxM0(fb), PrevMin: fb.fan.GetMinPwm()}
	var trail []string
	step := func(fx *vxFix, h *vxHist, name string, v int) {
		if h.Terminal {
			return
		}
		s := vxSym{Curve: v, Rpm: 1000, DtMs: 0}
		o := fx.vxCycle(s)
		cycles++
		trail = append(trail, fmt.Sprintf("%s:%d", name, v))
		for _, x := range vxCycOracle("C01", fx, h, s, o) {
			t := trail
			if len(t) > 40 {
				t = t[len(t)-40:]
			}
			viol = append(viol, mc.Violation{Property: "C01", Signature: x[0] + " (two fans in one daemon)",
				Detail: fmt.Sprintf("fan %s: %s\nfan A: %s\nfan B: %s\norder %s; last cycles (fan:curve value): %v", name, x[1], c.A, c.B, c.Order, t), Replay: c})
		}
		if o.Stalled || o.Panic != "" {
			h.Terminal = true
		}
	}
	var vals []int
	for v := 0; v <= 255; v += 3 {
		vals = append(vals, v)
	}
	for v := 255; v >= 0; v -= 7 {
		vals = append(vals, v)
	}
	switch c.Order {
	case "a-first":
		for _, v := range vals {
			step(fa, ha, "A", v)
		}
		for _, v := range vals {
			step(fb, hb, "B", v)
		}
		for _, v := range vals {
			step(fa, ha, "A", v)
		}
	case "alternate-ba":
		for _, v := range vals {
			step(fb, hb, "B", v)
			step(fa, ha, "A", v)
		}
	default:
		for _, v := range vals {
			step(fa, ha, "A", v)
			step(fb, hb, "B", v)
		}
	}
	if len(viol) > 3 {
		viol = viol[:3]
	}
	return
}

func TestVX_C01pair(t *testing.T) {
	rep := mc.NewReport("C01", "controller/two-fans")
	defer rep.Write()
	defer vxCleanup()
	var rc vxPairCase
	var cases []vxPairCase
	if mc.ReplayCase(&rc) {
		if rc.Order == "" {
			return
		}
		cases = []vxPairCase{rc}
	} else {
		maps := []string{"identity", "readme", "quant5", "three", "compress", "splateau"}
		for _, ma := range maps {
			for _, mb := range maps {
				if ma == mb {
					continue
				}
				for _, order := range []string{"alternate-ab", "alternate-ba", "a-first"} {
					a := vxCfg{Kind: "hwmon", Min: -1, Max: -1, Map: ma, Algo: "direct", StartPwm: 77, StartMode: 2}
					b := vxCfg{Kind: "hwmon", NeverStop: true, Min: 100, Max: 255, Map: mb, Algo: "direct", StartPwm: 40, StartMode: 2}
					cases = append(cases, vxPairCase{a, b, order})
					b2 := vxCfg{Kind: "file", Min: -1, Max: -1, Map: mb, Algo: "direct:10", StartPwm: 40}
					cases = append(cases, vxPairCase{a, b2, order})
				}
			}
		}
	}
	for i, c := range cases {
		if !mc.Mine(i) {
			continue
		}
		var viol []mc.Violation
		var n int64
		synctest.Test(t, func(t *testing.T) { viol, n = vxPairRun(c) })
		rep.Evaluations += n
		rep.Transitions += n
		rep.Configs++
		rep.AddDistinct(1)
		for _, v := range viol {
			rep.Violate(v)
		}
		if i%31 == 0 {
			rep.Sample(map[string]any{"fanA": c.A.String(), "fanB": c.B.String(), "order": c.Order, "cycles": n, "violations": len(viol)})
		}
	}
	rep.Note("two real controllers with different PWM maps / limits in one process, cycles interleaved (alternating A/B, B/A, or A's whole sweep first), curve sweep up in steps of 3 and down in steps of 7; the per-cycle oracle of C01 applies to each fan")
}
