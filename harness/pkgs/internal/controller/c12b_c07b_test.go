package controller

// C12 (part b): composition of the nearest-supported lookup with the PWM-map lookup in the real
// controller (updateDistinctPwmValues + setPwm) on real fans — exhaustive over all maps of a 6-key
// universe x all requests, plus full-size maps.
// C07 (part b): with the plain direct algorithm, request and written PWM are non-decreasing in the
// curve value — all curve values 0..255 x limits grid x non-decreasing PWM maps.

import (
	"fmt"
	"testing"
	"testing/synctest"

	"github.com/markusressel/fan2go/internal/verifshim/mc"
)

type vxC12bCase struct {
	Kind    string      `json:"kind"`
	Map     map[int]int `json:"map"`
	Request int         `json:"request"`
	DevPwm  int         `json:"devPwm"`
	// NeverStopMin > 0: the fan is configured neverStop with this minimum (setPwm itself still serves every request: the
	// initialisation sequence asks it for every supported input, limits are the business of the control cycle)
	NeverStopMin int `json:"neverStopMin,omitempty"`
}

func vxC12bRun(c vxC12bCase) (msg string, written int, wrote bool) {
	cfg := vxCfg{Kind: c.Kind, Min: -1, Max: -1, Map: "identity", Algo: "direct", StartPwm: c.DevPwm, StartMode: 1}
	if c.NeverStopMin > 0 {
		cfg.NeverStop, cfg.Min, cfg.Max = true, c.NeverStopMin, 255
	}
	fx := vxNewFixRole(cfg, "search")
	fx.ctl.pwmMap = c.Map
	fx.pmap = c.Map
	fx.ctl.updateDistinctPwmValues()
	var err error
	p := vxGuard(func() { err = fx.ctl.setPwm(c.Request) })
	if p != "" {
		return "panic: " + p, 0, false
	}
	if err != nil {
		return "setPwm error: " + err.Error(), 0, false
	}
	near := vxRefNearest(c.Map, c.Request)
	for _, op := range fx.fs.Log {
		if op.Path == fx.dev.Pwm && op.Kind != "read" {
			written, wrote = op.Value, true
		}
	}
	dev := fx.fs.Val(fx.dev.Pwm)
	ok := false
	for _, k := range near {
		if c.Map[k] == dev {
			ok = true
		}
	}
	if !ok {
		return fmt.Sprintf("request %d: device ends at %d (wrote=%v %d) but nearest supported inputs are %v with outputs %v", c.Request, dev, wrote, written, near, vxOuts(c.Map, near)), written, wrote
	}
	if !wrote && dev != c.DevPwm {
		return "device changed without a write", written, wrote
	}
	return "", written, wrote
}

func vxOuts(m map[int]int, ks []int) []int {
	var r []int
	for _, k := range ks {
		r = append(r, m[k])
	}
	return r
}

func TestVX_C12b(t *testing.T) {
	rep := mc.NewReport("C12", "controller/setPwm")
	defer rep.Write()
	defer vxCleanup()
	var rc vxC12bCase
	if mc.ReplayCase(&rc) {
		if msg, _, _ := vxC12bRun(rc); msg != "" {
			rep.Violate(mc.Violation{Signature: "C12 nearest-supported controller", Detail: msg, Replay: rc})
		}
		rep.Evaluations = 1
		return
	}
	uni := []int{0, 1, 9, 10, 128, 255}
	alphabet := []int{0, 77, 255}
	var maps []map[int]int
	total := 1
	for range uni {
		total *= 4
	}
	for code := 1; code < total; code++ {
		m := map[int]int{}
		c := code
		for i := range uni {
			d := c % 4
			c /= 4
			if d != 0 {
				m[uni[i]] = alphabet[d-1]
			}
		}
		maps = append(maps, m)
	}
	for _, n := range []string{"identity", "readme", "quant5", "three", "plateau", "splateau", "compress"} {
		maps = append(maps, vxMap(n))
	}
	var nontrivial int64
	for mi, m := range maps {
		if !mc.Mine(mi) {
			continue
		}
		rep.Configs++
		for _, kind := range []string{"hwmon", "file"} {
			if kind == "file" && mi%16 != 0 && mi < total-1 {
				continue
			}
			for req := -50; req <= 305; req++ {
				if mi < total-1 && !mc.Thorough() && req > 20 && req < 110 && req%7 != 0 {
					continue // quick: thin out the flat middle of the request range for the small universe
				}
				// device start values: an unrelated value, and (thinned) every key and every output of the map,
				// because the "already there, skip the write" shortcut depends on what the fan currently shows
				starts := []int{33}
				if (req+50)%25 == 0 || mi >= total-1 {
					for k, v := range m {
						starts = append(starts, k, v)
					}
				}
				var msg string
				var written int
				var wrote bool
				var c vxC12bCase
				for _, st := range starts {
					c = vxC12bCase{Kind: kind, Map: m, Request: req, DevPwm: st}
					msg, written, wrote = vxC12bRun(c)
					rep.Evaluations++
					if msg != "" {
						break
					}
				}
				if msg == "" && kind == "hwmon" && (mi >= total-1 || mi%64 == 7) {
					c = vxC12bCase{Kind: kind, Map: m, Request: req, DevPwm: 33, NeverStopMin: 50}
					msg, _, _ = vxC12bRun(c)
					rep.Evaluations++
					if msg != "" {
						msg += " (never-stop fan with minimum 50)"
					}
				}
				if msg != "" {
					rep.Violate(mc.Violation{Signature: "C12 nearest-supported controller", Detail: msg + fmt.Sprintf("\nmap %v kind %s device started at %d", m, kind, c.DevPwm), Replay: c})
					break
				}
				if _, exact := m[req]; !exact && len(m) > 1 {
					nontrivial++
				}
				if mi%997 == 5 && req == 100 {
					rep.Sample(map[string]any{"map": m, "request": req, "written": written, "wrote": wrote})
				}
			}
		}
	}
	rep.AddDistinct(nontrivial)
	rep.Note(fmt.Sprintf("controller composition: all %d maps over universe %v x outputs %v plus 6 full-size / user maps, requests -50..305 (quick thins 21..109 to multiples of 7 for the small universe), hwmon and file fans", total-1, uni, alphabet))
}

// ---------------------------------------------------------------- C07b

type vxC07bCase struct {
	Cfg vxCfg `json:"cfg"`
}

// vxC07bSameState: stateful algorithms (rate-limited direct, PID). After a history (v0, then v1) the controller is in some
// state S; from that SAME state the next request must be non-decreasing in the curve value of the next cycle (a hotter
// reading never yields a lower request than a cooler one would have, whatever the fan was doing before).
func vxC07bSameState(cfg vxCfg) (string, []int, []int) {
	stepV := 5
	if mc.Thorough() {
		stepV = 2
	}
	var first, last []int
	for _, v0 := range []int{0, 128, 255} {
		for _, v1 := range []int{0, 60, 128, 200, 255} {
			fz := vxNewFixRole(cfg, "search")
			for k := 0; k < 3; k++ {
				fz.vxCycle(vxSym{Curve: v0, Rpm: 1000, DtMs: 200})
			}
			if o := fz.vxCycle(vxSym{Curve: v1, Rpm: 1000, DtMs: 200}); o.Panic != "" || o.Err != nil {
				return fmt.Sprintf("cycle failed at v1=%d: %v %v", v1, o.Panic, o.Err), nil, nil
			}
			base := mc.Clone(fz.ctl, fz.pmap, fz.ctl.pwmValuesWithDistinctTarget)
			files := fz.vxSaveFiles()
			prevReq, prevDev, prevV := -1, -1, -1
			for v2 := 0; v2 <= 255; v2 += stepV {
				fz.vxAttach(&vxSnap{Ctl: mc.Clone(base, fz.pmap, base.pwmValuesWithDistinctTarget), Files: files})
				o2 := fz.vxCycle(vxSym{Curve: v2, Rpm: 1000, DtMs: 200})
				if o2.Panic != "" || o2.Err != nil {
					return fmt.Sprintf("cycle failed at v2=%d: %v %v", v2, o2.Panic, o2.Err), nil, nil
				}
				if prevV >= 0 && (o2.Req < prevReq || o2.DevPwm < prevDev) {
					return fmt.Sprintf("history: curve %d for 3 cycles, then %d; from that state curve value %d gives request %d (written %d) but the HIGHER curve value %d gives request %d (written %d)", v0, v1, prevV, prevReq, prevDev, v2, o2.Req, o2.DevPwm), nil, nil
				}
				prevReq, prevDev, prevV = o2.Req, o2.DevPwm, v2
				if v2 == 0 {
					first = append(first, o2.Req)
				}
				last = append(last[:0], o2.Req)
			}
		}
	}
	return "", append(first, last...), nil
}

func vxC07bRun(cfg vxCfg) (string, []int, []int) {
	if cfg.Algo != "direct" {
		return vxC07bSameState(cfg)
	}
	reqs := make([]int, 256)
	devs := make([]int, 256)
	// sweep on ONE controller in ascending order (direct is memoryless, but use the real history) ...
	fx := vxNewFixRole(cfg, "search")
	for v := 0; v <= 255; v++ {
		o := fx.vxCycle(vxSym{Curve: v, Rpm: 1000, DtMs: 0})
		if o.Panic != "" || o.Err != nil {
			return fmt.Sprintf("cycle failed at v=%d: %v %v", v, o.Panic, o.Err), nil, nil
		}
		reqs[v], devs[v] = o.Req, o.DevPwm
		if v > 0 && (reqs[v] < reqs[v-1] || devs[v] < devs[v-1]) {
			return fmt.Sprintf("curve %d -> request %d written %d, but curve %d -> request %d written %d", v-1, reqs[v-1], devs[v-1], v, reqs[v], devs[v]), reqs, devs
		}
	}
	// ... and each value from a FRESH controller (first-cycle path: current = device pwm)
	for v := 0; v <= 255; v++ {
		fy := vxNewFixRole(cfg, "search")
		o := fy.vxCycle(vxSym{Curve: v, Rpm: 1000, DtMs: 0})
		if o.Req != reqs[v] || o.DevPwm != devs[v] {
			return fmt.Sprintf("direct algorithm not memoryless: curve %d gives request %d/%d written %d/%d (fresh/after sweep)", v, o.Req, reqs[v], o.DevPwm, devs[v]), reqs, devs
		}
	}
	// ... and every rise v1 <= v2 after a history (v0, v1): a temperature rise alone must never lower the fan,
	// whatever the fan was doing before (hot -> cool -> warm sequences exercise the skip-write shortcut)
	stepV := 5
	if mc.Thorough() {
		stepV = 2
	}
	type hist struct{ v0, stalled int }
	hists := []hist{{0, 0}, {128, 0}, {255, 0}}
	if cfg.NeverStop && !cfg.NoRpm {
		// the fan stood still for a while earlier (the minimum was raised), then spins again
		hists = append(hists, hist{0, 3}, hist{0, 300}, hist{255, 3}, hist{255, 300}, hist{128, 40})
	}
	for _, h := range hists {
		v0 := h.v0
		for v1 := 0; v1 <= 255; v1 += stepV {
			fz := vxNewFixRole(cfg, "search")
			fz.vxCycle(vxSym{Curve: v0, Rpm: 1000})
			gaveUp := false
			for k := 0; k < h.stalled; k++ {
				if o := fz.vxCycle(vxSym{Curve: v0, Rpm: 0}); o.Err != nil {
					gaveUp = true // stalled at maximum: regulation of this fan ends, nothing to compare
					break
				}
			}
			if gaveUp {
				break
			}
			o1 := fz.vxCycle(vxSym{Curve: v1, Rpm: 1000})
			base := mc.Clone(fz.ctl, fz.pmap, fz.ctl.pwmValuesWithDistinctTarget)
			files := fz.vxSaveFiles()
			for v2 := v1; v2 <= 255; v2 += stepV {
				fz.vxAttach(&vxSnap{Ctl: mc.Clone(base, fz.pmap, base.pwmValuesWithDistinctTarget), Files: files})
				o2 := fz.vxCycle(vxSym{Curve: v2, Rpm: 1000})
				if o2.Req < o1.Req || o2.DevPwm < o1.DevPwm {
					return fmt.Sprintf("history curve %d (then %d cycles with 0 RPM), then %d -> request %d written %d; curve RISES to %d -> request %d written %d", v0, h.stalled, v1, o1.Req, o1.DevPwm, v2, o2.Req, o2.DevPwm), reqs, devs
				}
			}
		}
	}
	return "", reqs, devs
}

func TestVX_C07b(t *testing.T) {
	rep := mc.NewReport("C07", "controller/direct-monotone")
	defer rep.Write()
	defer vxCleanup()
	var rc vxC07bCase
	if mc.ReplayCase(&rc) {
		var msg string
		synctest.Test(t, func(t *testing.T) { msg, _, _ = vxC07bRun(rc.Cfg) })
		if msg != "" {
			rep.Violate(mc.Violation{Signature: "C07 direct request/written not monotone in curve value", Detail: msg, Replay: rc})
		}
		rep.Evaluations = 1
		return
	}
	step := 17
	if mc.Thorough() {
		step = 5
	}
	var cfgs []vxCfg
	for _, mp := range []string{"identity", "readme", "quant5", "plateau", "splateau", "three", "compress"} {
		for _, ns := range []bool{false, true} {
			for mn := 0; mn <= 255; mn += step {
				for mx := mn; mx <= 255; mx += step {
					cfgs = append(cfgs, vxCfg{Kind: "hwmon", NeverStop: ns, Min: mn, Max: mx, Map: mp, Algo: "direct", StartPwm: 40, StartMode: 2})
				}
				cfgs = append(cfgs, vxCfg{Kind: "hwmon", NeverStop: ns, Min: mn, Max: 255, Map: mp, Algo: "direct", StartPwm: 40, StartMode: 2})
			}
			cfgs = append(cfgs, vxCfg{Kind: "file", NeverStop: ns, Min: -1, Max: -1, Map: mp, Algo: "direct", StartPwm: 40})
			// stateful algorithms: same-state monotonicity
			for _, algo := range []string{"direct:1", "direct:10", "direct:100", "pid"} {
				for _, lim := range [][2]int{{-1, -1}, {50, 200}, {0, 100}} {
					cfgs = append(cfgs, vxCfg{Kind: "hwmon", NeverStop: ns, Min: lim[0], Max: lim[1], Map: mp, Algo: algo, StartPwm: 40, StartMode: 2})
				}
			}
		}
	}
	for ci, cfg := range cfgs {
		if !mc.Mine(ci) {
			continue
		}
		var msg string
		var reqs, devs []int
		if cfg.Algo != "direct" {
			// stateful algorithms see time pass between cycles: virtual clock
			synctest.Test(t, func(t *testing.T) { msg, reqs, devs = vxC07bRun(cfg) })
		} else {
			msg, reqs, devs = vxC07bRun(cfg)
		}
		rep.Configs++
		rep.Evaluations += 512
		if msg != "" {
			rep.Violate(mc.Violation{Signature: "C07 direct request/written not monotone in curve value", Detail: msg + "\nconfig: " + cfg.String(), Replay: vxC07bCase{cfg}})
			continue
		}
		if cfg.Algo != "direct" {
			if len(reqs) > 1 && reqs[len(reqs)-1] > reqs[0] {
				rep.AddDistinct(1)
			}
			continue
		}
		// non-trivial: sweeps whose request actually varies
		if reqs[255] > reqs[0] {
			rep.AddDistinct(1)
		}
		if ci%101 == 0 {
			rep.Sample(map[string]any{"config": cfg.String(), "request@0,64,128,192,255": []int{reqs[0], reqs[64], reqs[128], reqs[192], reqs[255]}, "written@0,64,128,192,255": []int{devs[0], devs[64], devs[128], devs[192], devs[255]}})
		}
	}
	rep.Note("per configuration: ascending sweep of all 256 curve values on one controller + each value on a fresh controller + every rise v1<=v2 (grid) after histories (v0 in {0,128,255}, v1); distinct_nontrivial = configurations whose request range is non-degenerate")
}
