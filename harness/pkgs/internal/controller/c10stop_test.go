package controller

// C10, last clause: when a stalled never-stop fan has been pushed to its maximum PWM and still does not turn, fan2go
// reports the stall as an error and STOPS regulating that fan. The real Run() drives a fan that never spins; after the
// request has reached the maximum, the fan is handed back (a few restoration writes) and then nothing writes to it any
// more: a controller that keeps cycling would keep writing (re-reporting the error and re-restoring every cycle).

import (
	"context"
	"fmt"
	"os"
	"path/filepath"
	"testing"
	"testing/synctest"
	"time"

	"github.com/markusressel/fan2go/internal/verifshim/env"
	"github.com/markusressel/fan2go/internal/verifshim/mc"
)

type vxC10StopCase struct {
	Kind   string `json:"kind"`
	MaxPwm int    `json:"maxPwm"`
	Curve  int    `json:"curve"`
	Window int    `json:"window"`
}

func vxC10StopRun(t *testing.T, c vxC10StopCase) (msg string, info string) {
	fs := vxFS("run")
	vxRunSeq++
	db := filepath.Join(vxRunScratch(), fmt.Sprintf("c10stop-%d.db", vxRunSeq))
	defer os.Remove(db)
	synctest.Test(t, func(t *testing.T) {
		vxRunConfigGlobals(true, 1, c.Window)
		cfg := vxRunCfg{Kind: c.Kind, OrigMode: 2, OrigPwm: 60, Stored: true, ConfMap: true, Scenario: "stall", MaxPwm: c.MaxPwm}
		if c.Kind != "hwmon" {
			cfg.OrigMode = -1
		}
		w := vxRunBuild(cfg, "vxfan", fs, "hwmon0", db, true)
		w.dev.RpmOf = func(pwm int) int { return 0 }
		w.curve.Value = c.Curve
		t0 := time.Now()
		type wr struct {
			at  time.Duration
			val int
		}
		var writes []wr
		pwmPath := w.dev.Pwm
		fs.Intercept = func(kind, path string, value int) *env.Result {
			if path == pwmPath && kind != "read" {
				writes = append(writes, wr{time.Since(t0), value})
			}
			return nil
		}
		ctx, cancel := context.WithCancel(context.Background())
		done := make(chan struct{})
		go func() {
			defer close(done)
			_ = vxGuard(func() { _ = w.ctl.Run(ctx) })
		}()
		// a never-spinning fan is pushed one step per RPM poll (1 s): at most ~260 polls to the maximum, plus slack
		time.Sleep(12 * time.Minute)
		cancel()
		<-done
		fs.Intercept = nil
		max := 255
		if c.MaxPwm > 0 {
			max = c.MaxPwm
		}
		reached := time.Duration(-1)
		for _, x := range writes {
			if x.val >= max && reached < 0 {
				reached = x.at
			}
		}
		if reached < 0 {
			msg = fmt.Sprintf("the request never reached the maximum %d within 12 virtual minutes (%d PWM writes)", max, len(writes))
			return
		}
		late := 0
		var lastAt time.Duration
		for _, x := range writes {
			if x.at > reached+10*time.Second && x.at < 12*time.Minute-time.Second {
				late++
				lastAt = x.at
			}
		}
		info = fmt.Sprintf("%d PWM writes, maximum %d first written at %v", len(writes), max, reached.Round(time.Millisecond))
		if late > 0 {
			msg = fmt.Sprintf("the maximum %d was first written at %v; between 10 s later and the shutdown fan2go wrote to the fan %d more times (last at %v): regulation of the stalled fan did not stop", max, reached.Round(time.Millisecond), late, lastAt.Round(time.Millisecond))
		}
	})
	return
}

func TestVX_C10stop(t *testing.T) {
	rep := mc.NewReport("C10", "controller/stalled-at-max-stops")
	defer rep.Write()
	defer vxCleanup()
	defer func() {
		if vxRunDir != "" {
			os.RemoveAll(vxRunDir)
		}
	}()
	var rc vxC10StopCase
	var cases []vxC10StopCase
	if mc.ReplayCase(&rc) {
		if rc.Kind == "" {
			return
		}
		cases = []vxC10StopCase{rc}
	} else {
		for _, k := range []string{"hwmon", "file"} {
			for _, mx := range []int{0, 120} {
				if k == "file" && mx > 0 {
					continue
				}
				for _, cv := range []int{0, 255} {
					for _, win := range []int{1, 3} {
						cases = append(cases, vxC10StopCase{k, mx, cv, win})
					}
				}
			}
		}
	}
	for i, c := range cases {
		if !mc.Mine(i) {
			continue
		}
		msg, info := vxC10StopRun(t, c)
		rep.Evaluations++
		rep.AddDistinct(1)
		if msg != "" {
			rep.Violate(mc.Violation{Signature: "C10 regulation of a fan stalled at its maximum does not stop", Detail: fmt.Sprintf("%+v: %s", c, msg), Replay: c})
		} else if i%3 == 0 {
			rep.Sample(map[string]any{"case": fmt.Sprintf("%+v", c), "observed": info})
		}
	}
	rep.Note("real Run() in virtual time with a never-stop fan that never turns (hwmon with/without configured maxPwm, file fan; curve 0 / 255; rpm window 1 / 3): once the maximum has been written, only the hand-back writes may follow")
}
