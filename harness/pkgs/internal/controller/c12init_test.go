package controller

// C12 through the initialisation sequence: RunInitializationSequence requests every supported input of the fan's PWM map in
// turn and measures the RPM there. A request that is itself a supported input must be applied exactly: the fan model turns
// 10 RPM per PWM unit, so the stored RPM curve must hold, under every supported input k, the value 10 * map[k]. Afterwards
// every request -50..305 through the same controller must still land on the nearest supported input.

import (
	"fmt"
	"os"
	"path/filepath"
	"sort"
	"testing"
	"testing/synctest"
	"time"

	"github.com/markusressel/fan2go/internal/configuration"
	"github.com/markusressel/fan2go/internal/curves"
	"github.com/markusressel/fan2go/internal/fans"
	"github.com/markusressel/fan2go/internal/persistence"
	"github.com/markusressel/fan2go/internal/verifshim/mc"
)

type vxC12InitCase struct {
	Map  string `json:"map"`
	Kind string `json:"kind"`
}

func vxC12InitRun(c vxC12InitCase) (msg string, n int64) {
	fs := vxFS("c12init")
	vxRunSeq++
	db := filepath.Join(vxRunScratch(), fmt.Sprintf("c12init-%d.db", vxRunSeq))
	defer os.Remove(db)
	vxRunConfigGlobals(true, 1, 1)
	configuration.CurrentConfig.FanResponseDelay = 0
	pm := vxMap(c.Map)
	cv := &vxCurve{id: "curve-c12init", Value: 128}
	curves.RegisterSpeedCurve(cv)
	cp := map[int]int{}
	for k, v := range pm {
		cp[k] = v
	}
	fc := configuration.FanConfig{ID: "c12initfan", Curve: cv.id, PwmMap: &cp}
	var pwmPath string
	if c.Kind == "hwmon" {
		dev := fs.NewDev("hwmon0", 1, 33, 2, true, true)
		dev.RpmOf = func(pwm int) int { return pwm * 10 }
		fc.HwMon = &configuration.HwMonFanConfig{Platform: "vx", Index: 1, RpmChannel: 1, PwmChannel: 1,
			SysfsPath: filepath.Dir(dev.Pwm), RpmInputPath: dev.Rpm, PwmPath: dev.Pwm, PwmEnablePath: dev.Enable}
		pwmPath = dev.Pwm
	} else {
		pwmPath = fs.Add("c12init/pwm", 33)
		rpm := fs.Add("c12init/rpm", 0)
		fs.F(rpm).OnRead = func() (int, error) { return fs.Val(pwmPath) * 10, nil }
		fc.File = &configuration.FileFanConfig{Path: pwmPath, RpmPath: rpm}
	}
	fan, err := fans.NewFan(fc)
	if err != nil {
		panic(err)
	}
	pers := persistence.NewPersistence(db)
	ctl := NewFanController(pers, fan, vxLoop("direct"), 200*time.Millisecond).(*DefaultFanController)
	if p := vxGuard(func() { err = ctl.RunInitializationSequence() }); p != "" {
		return "RunInitializationSequence panicked: " + p, 0
	}
	if err != nil {
		return "RunInitializationSequence failed: " + err.Error(), 0
	}
	// reference: supported inputs = first key of every run of equal outputs
	keys := mc.SortedKeys(pm)
	var sup []int
	for i, k := range keys {
		if i == 0 || pm[k] != pm[keys[i-1]] {
			sup = append(sup, k)
		}
	}
	data, err := pers.LoadFanPwmData(fan)
	if err != nil {
		return "no RPM curve stored after the initialisation sequence: " + err.Error(), 0
	}
	var bad []string
	if c.Kind != "hwmon" {
		// file fans do not keep the measured curve (what is stored for them is a default table): only the requests below
		sup, data = nil, nil
	}
	for _, k := range sup {
		n++
		want := float64(pm[k] * 10)
		got, ok := data[k]
		if !ok {
			bad = append(bad, fmt.Sprintf("supported input %d (output %d) was not measured", k, pm[k]))
		} else if got != want {
			bad = append(bad, fmt.Sprintf("supported input %d: measured %v RPM, the fan turns %v RPM at its output %d (another value was applied)", k, got, want, pm[k]))
		}
	}
	var extra []int
	for k := range data {
		if sort.SearchInts(sup, k) >= len(sup) || sup[sort.SearchInts(sup, k)] != k {
			extra = append(extra, k)
		}
	}
	sort.Ints(extra)
	if len(extra) > 0 {
		bad = append(bad, fmt.Sprintf("RPM curve has entries for inputs that are not supported inputs: %v", extra))
	}
	// afterwards: requests through the same controller object
	for req := -50; req <= 305; req++ {
		n++
		if err := ctl.setPwm(req); err != nil {
			bad = append(bad, fmt.Sprintf("setPwm(%d) after the sequence failed: %v", req, err))
			break
		}
		got := fs.Val(pwmPath)
		ok := false
		for _, k := range vxRefNearest(pm, req) {
			if pm[k] == got {
				ok = true
			}
		}
		if !ok {
			bad = append(bad, fmt.Sprintf("after the sequence: request %d wrote %d, nearest supported inputs %v", req, got, vxRefNearest(pm, req)))
			if len(bad) > 6 {
				break
			}
		}
	}
	if len(bad) > 0 {
		if len(bad) > 6 {
			bad = bad[:6]
		}
		return fmt.Sprintf("%s fan, pwmMap %s (supported inputs %v):\n  %s", c.Kind, c.Map, sup, joinLines(bad)), n
	}
	return "", n
}

func joinLines(l []string) string {
	s := ""
	for i, x := range l {
		if i > 0 {
			s += "\n  "
		}
		s += x
	}
	return s
}

func TestVX_C12init(t *testing.T) {
	rep := mc.NewReport("C12", "controller/initialisation-sequence")
	defer rep.Write()
	defer vxCleanup()
	defer func() {
		if vxRunDir != "" {
			os.RemoveAll(vxRunDir)
		}
	}()
	var rc vxC12InitCase
	var cases []vxC12InitCase
	if mc.ReplayCase(&rc) {
		if rc.Map == "" {
			return
		}
		cases = []vxC12InitCase{rc}
	} else {
		for _, m := range []string{"readme", "compress", "splateau", "three", "quant5", "identity", "plateau"} {
			for _, k := range []string{"hwmon", "file"} {
				cases = append(cases, vxC12InitCase{m, k})
			}
		}
	}
	for i, c := range cases {
		if !mc.Mine(i) {
			continue
		}
		var msg string
		var n int64
		synctest.Test(t, func(t *testing.T) { msg, n = vxC12InitRun(c) })
		rep.Evaluations += n
		rep.Configs++
		rep.AddDistinct(n)
		if msg != "" {
			rep.Violate(mc.Violation{Signature: "C12 initialisation sequence does not apply the supported inputs exactly", Detail: msg, Replay: c})
		} else if i%4 == 0 {
			rep.Sample(map[string]any{"map": c.Map, "kind": c.Kind, "checks": n})
		}
	}
	rep.Note("real RunInitializationSequence on hwmon/file fans with configured PWM maps (fan model: 10 RPM per PWM unit, virtual time): stored RPM curve must hold 10*map[k] under every supported input k and nothing else; then requests -50..305 through the same controller")
}
