package controller

// C01 across the start-up path: the PWM map fan2go LEARNS itself (computePwmMap sweep 255..0 with read-back)
// must keep regulation inside 0..255 and the fan's limits even when one read-back of the sweep fails.
// Enumerates the position and kind of a single read fault during the sweep (deviation bound 1), then
// regulates over the whole curve range with the learned map.

import (
	"fmt"
	"os"
	"path/filepath"
	"testing"
	"testing/synctest"
	"time"

	"github.com/markusressel/fan2go/internal/persistence"
	"github.com/markusressel/fan2go/internal/verifshim/env"
	"github.com/markusressel/fan2go/internal/verifshim/mc"
)

type vxSweepCase struct {
	Kind      string `json:"kind"`
	FaultAt   int    `json:"faultAt"`   // index of the PWM read (during the sweep) that fails; -1 = none
	FaultKind string `json:"faultKind"` // error | garbage | empty
	Quant     int    `json:"quant"`     // device stores value/quant*quant
}

func vxSweepRun(t *testing.T, c vxSweepCase, scratch string, seq int) (fail [2]string, learned map[int]int) {
	synctest.Test(t, func(t *testing.T) {
		cfg := vxCfg{Kind: c.Kind, Min: -1, Max: -1, Map: "identity", Algo: "direct", StartPwm: 90, StartMode: 2}
		fx := vxNewFixRole(cfg, "search")
		db := filepath.Join(scratch, fmt.Sprintf("sweep-%d.db", seq))
		defer os.Remove(db)
		fx.ctl.persistence = persistence.NewPersistence(db)
		fx.ctl.pwmMap = nil
		if c.Quant > 1 {
			q := c.Quant
			fx.fs.F(fx.dev.Pwm).OnWrite = func(v int) (int, bool, error) { return v / q * q, true, nil }
		}
		reads := 0
		fx.fs.Intercept = func(kind, path string, value int) *env.Result {
			if kind == "read" && path == fx.dev.Pwm {
				reads++
				if reads-1 == c.FaultAt {
					switch c.FaultKind {
					case "error":
						return &env.Result{Val: -1, Err: env.ErrNoEnt(path)}
					case "garbage":
						return &env.Result{Val: 0, Err: fmt.Errorf("strconv.Atoi: parsing \"n/a\": invalid syntax")}
					case "empty":
						return &env.Result{Val: -1, Err: fmt.Errorf("file is empty: %s", path)}
					}
				}
			}
			return nil
		}
		if p := vxGuard(func() { _ = fx.ctl.computePwmMap() }); p != "" {
			fail = [2]string{"C01 panic while learning the PWM map", p}
			return
		}
		fx.fs.Intercept = nil
		fx.ctl.updateDistinctPwmValues()
		learned = fx.ctl.pwmMap
		fx.pmap = learned
		for k, v := range learned {
			if v < 0 || v > 255 {
				fail = [2]string{"C01 learned PWM map has an output outside 0..255", fmt.Sprintf("map[%d] = %d", k, v)}
				return
			}
		}
		for _, v := range []int{0, 1, 64, 127, 128, 136, 137, 138, 200, 254, 255, 137, 0} {
			time.Sleep(200 * time.Millisecond)
			o := fx.vxCycle(vxSym{Curve: v, Rpm: 1000})
			if o.Panic != "" || o.Err != nil {
				fail = [2]string{"C01 cycle failed after learning the PWM map", fmt.Sprintf("%v %v", o.Panic, o.Err)}
				return
			}
			for _, w := range o.Writes {
				if w < 0 || w > 255 {
					fail = [2]string{"C01 value outside 0..255 written with a learned PWM map", fmt.Sprintf("curve %d -> request %d -> wrote %d", v, o.Req, w)}
					return
				}
			}
			if o.DevPwm < 0 || o.DevPwm > 255 {
				fail = [2]string{"C01 value outside 0..255 written with a learned PWM map", fmt.Sprintf("curve %d -> device pwm %d", v, o.DevPwm)}
				return
			}
		}
	})
	return
}

func TestVX_C01sweep(t *testing.T) {
	rep := mc.NewReport("C01", "controller/learned-map")
	defer rep.Write()
	defer vxCleanup()
	scratch, err := os.MkdirTemp("/dev/shm", "verif-c01sweep-")
	if err != nil {
		panic(err)
	}
	defer os.RemoveAll(scratch)
	var rc vxSweepCase
	if mc.ReplayCase(&rc) {
		if rc.Kind == "" {
			return
		}
		if f, _ := vxSweepRun(t, rc, scratch, 0); f[0] != "" {
			rep.Violate(mc.Violation{Signature: f[0], Detail: fmt.Sprintf("%s\ncase: %+v", f[1], rc), Replay: rc})
		}
		rep.Evaluations = 1
		return
	}
	var cases []vxSweepCase
	for _, kind := range []string{"hwmon", "file"} {
		for _, q := range []int{1, 5} {
			cases = append(cases, vxSweepCase{kind, -1, "", q})
			step := 7
			if mc.Thorough() {
				step = 1
			}
			// the sweep performs one Supports() probe read first, then 256 read-backs (255 .. 0)
			for at := 0; at <= 258; at += step {
				for _, fk := range []string{"error", "garbage", "empty"} {
					cases = append(cases, vxSweepCase{kind, at, fk, q})
				}
			}
			for _, at := range []int{1, 2, 118, 119, 120, 255, 256, 257} {
				cases = append(cases, vxSweepCase{kind, at, "error", q})
			}
		}
	}
	for i, c := range cases {
		if !mc.Mine(i) {
			continue
		}
		f, learned := vxSweepRun(t, c, scratch, i)
		rep.Evaluations++
		if f[0] != "" {
			rep.Violate(mc.Violation{Signature: f[0], Detail: fmt.Sprintf("%s\ncase: %+v", f[1], c), Replay: c})
			continue
		}
		if c.FaultAt >= 0 {
			rep.AddDistinct(1)
		}
		if i%97 == 0 {
			rep.Sample(map[string]any{"case": fmt.Sprintf("%+v", c), "learned_map_entries": len(learned), "map[137]": learned[137]})
		}
	}
	rep.Note("real computePwmMap (sweep 255..0 with read-back, real bbolt persistence) with a single failing read-back at every position (stride 7 quick / every position thorough) x fault kind x register quantisation, followed by regulation over the curve range with the learned map")
}
