package controller

// Run-level harness: the real DefaultFanController.Run(ctx) (start-up wait, stored-data lookup,
// initialisation sequence, RPM monitor + control loop goroutines, restoration) inside a
// testing/synctest bubble, real bbolt persistence on tmpfs, device files behind the util seam.
// C03 (layer 1): cancellation before every file operation and at idle instants x write faults.

import (
	"context"
	"fmt"
	"os"
	"path/filepath"
	"reflect"
	"strings"
	"sync"
	"testing"
	"testing/synctest"
	"time"

	"github.com/markusressel/fan2go/internal/configuration"
	"github.com/markusressel/fan2go/internal/curves"
	"github.com/markusressel/fan2go/internal/fans"
	"github.com/markusressel/fan2go/internal/persistence"
	"github.com/markusressel/fan2go/internal/verifshim/env"
	"github.com/markusressel/fan2go/internal/verifshim/mc"
)

type vxRunCfg struct {
	Kind      string `json:"kind"` // hwmon | file
	NoEnable  bool   `json:"noEnable,omitempty"`
	OrigMode  int    `json:"origMode"`
	OrigPwm   int    `json:"origPwm"`
	Stored    bool   `json:"stored"`              // RPM curve and PWM map already in the database
	CurveOnly bool   `json:"curveOnly,omitempty"` // only the RPM curve is in the database (older database / deleted map): start-up still sweeps
	ConfMap   bool   `json:"confMap"`             // pwmMap given in the configuration (no sweep)
	Scenario  string `json:"scenario"`            // signal | stall
	RpmSkew   int    `json:"rpmSkew"`             // RPM polling rate = 1s + skew microseconds (tie order of coinciding timers)
	Faults    bool   `json:"faults"`              // write faults are choice points
	MaxPwm    int    `json:"maxPwm,omitempty"`    // configured maxPwm (0 = not configured): the regulation range ends below 255
}

func (c vxRunCfg) String() string {
	return fmt.Sprintf("%s noEnable=%v origMode=%d origPwm=%d stored=%v confMap=%v scenario=%s rpmSkew=%dus faults=%v maxPwm=%d", c.Kind, c.NoEnable, c.OrigMode, c.OrigPwm, c.Stored, c.ConfMap, c.Scenario, c.RpmSkew, c.Faults, c.MaxPwm)
}

type vxRunCase struct {
	Cfg  vxRunCfg `json:"cfg"`
	Tape []int    `json:"tape"`
}

var vxRunDir string
var vxRunSeq int

func vxRunScratch() string {
	if vxRunDir == "" {
		base := "/dev/shm"
		if _, err := os.Stat(base); err != nil {
			base = os.TempDir()
		}
		d, err := os.MkdirTemp(base, "verif-run-")
		if err != nil {
			panic(err)
		}
		vxRunDir = d
	}
	return vxRunDir
}

type vxRunWorld struct {
	cfg   vxRunCfg
	fs    *env.FS
	dev   *env.Dev
	fan   fans.Fan
	ctl   *DefaultFanController
	curve *vxCurve
	db    string
}

// vxRunBuild creates device, fan, curve, persistence (pre-populated when cfg.Stored) and controller.
func vxRunBuild(cfg vxRunCfg, id string, fs *env.FS, chip string, db string, neverStop bool) *vxRunWorld {
	w := &vxRunWorld{cfg: cfg, fs: fs, db: db}
	w.curve = &vxCurve{id: "curve-" + id, Value: 128}
	curves.RegisterSpeedCurve(w.curve)
	fc := configuration.FanConfig{ID: id, Curve: w.curve.id, NeverStop: neverStop}
	if cfg.ConfMap {
		m := vxMap("identity")
		fc.PwmMap = &m
	}
	if cfg.MaxPwm > 0 {
		mx := cfg.MaxPwm
		fc.MaxPwm = &mx
	}
	switch cfg.Kind {
	case "hwmon":
		w.dev = fs.NewDev(chip, 1, cfg.OrigPwm, cfg.OrigMode, !cfg.NoEnable, true)
		// every fake chip is its own platform (fans of a real machine sit on different hwmon devices)
		fc.HwMon = &configuration.HwMonFanConfig{Platform: "vx-" + chip, Index: 1, RpmChannel: 1, PwmChannel: 1,
			SysfsPath: filepath.Dir(w.dev.Pwm), RpmInputPath: w.dev.Rpm, PwmPath: w.dev.Pwm, PwmEnablePath: w.dev.Enable}
	case "file":
		w.dev = &env.Dev{FS: fs}
		w.dev.Pwm = fs.Add(chip+"/pwm", cfg.OrigPwm)
		w.dev.Rpm = fs.Add(chip+"/rpm", 0)
		fs.F(w.dev.Rpm).OnRead = func() (int, error) { return w.dev.RpmOf(fs.Val(w.dev.Pwm)), nil }
		fc.File = &configuration.FileFanConfig{Path: w.dev.Pwm, RpmPath: w.dev.Rpm}
	}
	w.dev.RpmOf = func(pwm int) int { return pwm * 10 }
	fan, err := fans.NewFan(fc)
	if err != nil {
		panic(err)
	}
	w.fan = fan
	fans.RegisterFan(fan)
	pers := persistence.NewPersistence(db)
	if cfg.Stored {
		data := map[int]float64{}
		for p := 0; p <= 255; p++ {
			data[p] = float64(p * 10)
		}
		tmp, _ := fans.NewFan(fc)
		if hf, ok := tmp.(*fans.HwMonFan); ok {
			hf.FanCurveData = &data
		}
		if err := pers.SaveFanPwmData(tmp); err != nil {
			panic(err)
		}
		if err := pers.SaveFanPwmMap(id, vxMap("identity")); err != nil {
			panic(err)
		}
		if cfg.CurveOnly {
			if err := pers.DeleteFanPwmMap(id); err != nil {
				panic(err)
			}
		}
	}
	w.ctl = NewFanController(pers, fan, vxLoop("direct"), 200*time.Millisecond).(*DefaultFanController)
	return w
}

func vxRunConfigGlobals(parallel bool, rpmSkew int, window int) {
	configuration.CurrentConfig = configuration.Configuration{
		RpmRollingWindowSize:           window,
		TempRollingWindowSize:          997,
		RpmPollingRate:                 time.Second + time.Duration(rpmSkew)*time.Microsecond,
		TempSensorPollingRate:          200 * time.Millisecond,
		ControllerAdjustmentTickRate:   200 * time.Millisecond,
		RunFanInitializationInParallel: parallel,
		MaxRpmDiffForSettledFan:        20,
		FanResponseDelay:               2,
	}
	// fresh lock for every execution, whatever its type is (a change may turn it into an RWMutex)
	mv := reflect.ValueOf(&InitializationSequenceMutex).Elem()
	mv.Set(reflect.Zero(mv.Type()))
}

// ---------------------------------------------------------------- C03 layer 1

type vxC03Obs struct {
	Ops        int
	Stopped    string // what stopped regulation
	FinalMode  int
	FinalPwm   int
	RunErr     string
	Returned   bool
	Excluded   string
	WriteFault []string
}

func vxC03Exec(t *testing.T, cfg vxRunCfg, x *mc.X) (viol []mc.Violation) {
	fs := vxFS("run")
	vxRunSeq++
	db := filepath.Join(vxRunScratch(), fmt.Sprintf("c03-%d.db", vxRunSeq))
	defer os.Remove(db)
	var obs vxC03Obs
	synctest.Test(t, func(t *testing.T) {
		window := 10
		neverStop := false
		if cfg.Scenario == "stall" {
			window, neverStop = 1, true
		}
		vxRunConfigGlobals(true, cfg.RpmSkew, window)
		w := vxRunBuild(cfg, "vxfan", fs, "hwmon0", db, neverStop)
		if cfg.Scenario == "stall" {
			w.dev.RpmOf = func(pwm int) int { return 0 } // fan never spins: stalled even at max
			w.curve.Value = 255
		}
		ctx, cancel := context.WithCancel(context.Background())
		defer cancel()
		stopped := false
		regulating := false
		fallbackFaulted := false
		stop := func(why string) {
			if !stopped {
				stopped = true
				obs.Stopped = why
				cancel()
			}
		}
		nops := 0
		pwmWrites := 0
		modeJustWritten := false
		thin := 1
		if !cfg.Stored && !cfg.ConfMap && !mc.Thorough() {
			thin = 97
		}
		fs.Intercept = func(kind, path string, value int) *env.Result {
			nops++
			if w.curve.Evals > 0 {
				regulating = true
			}
			name := filepath.Base(path)
			if cfg.Scenario == "initfail" && !stopped && kind != "read" && path == w.dev.Pwm {
				// the driver refuses one PWM write in the middle of the RPM-curve measurement (after the 256-step sweep)
				pwmWrites++
				if pwmWrites == 300 {
					stopped = true
					obs.Stopped = fmt.Sprintf("initialisation sequence failed: PWM write #%d (value %d) refused", pwmWrites, value)
					return &env.Result{Err: env.ErrInval(path)}
				}
			}
			if cfg.Scenario == "signal" && !stopped && (regulating || nops%thin == 0) {
				if x.Choose(2, fmt.Sprintf("cancel before %s %s", kind, name)) == 1 {
					stop(fmt.Sprintf("cancel before op #%d (%s %s=%d)", nops, kind, name, value))
				}
			}
			if cfg.Faults && kind == "read" && path == w.dev.Enable && modeJustWritten {
				// the read-back that follows a write of the control mode fails with an I/O error (what util.ReadIntFromFile
				// returns then: -1 and the error). Reads that establish the ORIGINAL mode are left alone: without it
				// there is nothing to hand the fan back to.
				modeJustWritten = false
				if x.Choose(2, fmt.Sprintf("read of %s fails (EIO)", name)) == 1 {
					obs.WriteFault = append(obs.WriteFault, "unreadable "+name)
					return &env.Result{Val: -1, Err: env.ErrIO}
				}
			}
			if cfg.Faults && kind != "read" && (stopped || (cfg.Scenario == "stall" && regulating)) {
				isMode := path == w.dev.Enable
				modeJustWritten = isMode
				switch x.Choose(3, fmt.Sprintf("fault on %s %s", kind, name)) {
				case 1:
					obs.WriteFault = append(obs.WriteFault, fmt.Sprintf("refused %s=%d", name, value))
					if !isMode && value == 255 {
						fallbackFaulted = true
					}
					return &env.Result{Err: env.ErrInval(path)}
				case 2:
					obs.WriteFault = append(obs.WriteFault, fmt.Sprintf("ignored %s=%d", name, value))
					if !isMode && value == 255 {
						fallbackFaulted = true
					}
					return &env.Result{} // success reported, nothing stored
				}
			}
			return nil
		}
		done := make(chan struct{})
		quit := make(chan struct{}) // ends the harness helper goroutines before the bubble's root returns
		var helpers sync.WaitGroup
		nap := func(d time.Duration) bool {
			select {
			case <-quit:
				return false
			case <-time.After(d):
				return true
			}
		}
		var runErr error
		go func() {
			defer close(done)
			p := vxGuard(func() { runErr = w.ctl.Run(ctx) })
			if p != "" {
				obs.RunErr = "panic: " + p
			}
		}()
		// idle instants (offset so that they never coincide with fan2go's own timers)
		if cfg.Scenario == "signal" {
			helpers.Add(1)
			go func() {
				defer helpers.Done()
				last := time.Duration(0)
				for _, at := range []time.Duration{500 * time.Millisecond, 2900 * time.Millisecond, 3700 * time.Millisecond, 3900 * time.Millisecond, 4100 * time.Millisecond} {
					if !nap(at + 700*time.Microsecond - last) {
						return
					}
					last = at + 700*time.Microsecond
					if stopped {
						return
					}
					if x.Choose(2, fmt.Sprintf("cancel at idle instant t=%v", at)) == 1 {
						stop(fmt.Sprintf("cancel at idle instant t=%v", at))
						return
					}
				}
			}()
		}
		// horizon: the default end of every execution is a cancellation after the third control cycle
		horizon := 4300 * time.Millisecond
		if !cfg.Stored && !cfg.ConfMap {
			horizon = 20 * time.Minute
		} else if !cfg.ConfMap {
			horizon = 10 * time.Second
		}
		helpers.Add(1)
		go func() {
			defer helpers.Done()
			if cfg.Scenario == "initfail" {
				return // Run ends by itself with the initialisation error
			}
			if cfg.Scenario == "stall" {
				// the control loop stops by itself (stalled-at-max error); the RPM monitor of this controller keeps
				// running until the daemon shuts down, so deliver the shutdown 10 s after regulation began
				for w.curve.Evals == 0 {
					if !nap(50*time.Millisecond + 300*time.Microsecond) {
						return
					}
				}
				if nap(10*time.Second + 300*time.Microsecond) {
					cancel()
				}
				return
			}
			// wait until three regulation cycles ran (or the horizon), then stop
			deadline := time.Now().Add(horizon)
			for time.Now().Before(deadline) && w.curve.Evals < 3 && !stopped {
				if !nap(50*time.Millisecond + 300*time.Microsecond) {
					return
				}
			}
			if !nap(100*time.Millisecond + 300*time.Microsecond) {
				return
			}
			stop("cancel after the third control cycle")
		}()
		select {
		case <-done:
			obs.Returned = true
		case <-time.After(3 * time.Hour):
		}
		close(quit)
		helpers.Wait()
		fs.Intercept = nil
		if runErr != nil {
			obs.RunErr = runErr.Error()
		}
		obs.Ops = nops
		obs.FinalPwm = fs.Val(w.dev.Pwm)
		obs.FinalMode = -1
		if fs.F(w.dev.Enable) != nil {
			obs.FinalMode = fs.Val(w.dev.Enable)
		}
		if fallbackFaulted {
			obs.Excluded = "the driver refused/ignored the final full-speed write; nothing fan2go does could satisfy the property"
		}
		if !obs.Returned {
			cancel()
		}
	})
	x.Logf("%+v", obs)
	bad := func(sig, msg string) {
		viol = append(viol, mc.Violation{Property: "C03", Signature: sig,
			Detail: fmt.Sprintf("%s\nconfig: %s\nstopped by: %s; write faults: %v; final pwm_enable=%d pwm=%d; Run error: %q\ntape: %v", msg, cfg, obs.Stopped, obs.WriteFault, obs.FinalMode, obs.FinalPwm, obs.RunErr, x.Tape()),
			Replay: vxRunCase{cfg, x.Tape()}})
	}
	if !obs.Returned {
		bad("C03 Run did not return after cancellation", "controller goroutines still running 3 virtual hours after the stop event")
		return
	}
	if strings.HasPrefix(obs.RunErr, "panic:") {
		bad("C03 panic in Run", obs.RunErr)
		return
	}
	if obs.Excluded != "" {
		return
	}
	handedBack := obs.FinalMode >= 0 && obs.FinalMode == cfg.OrigMode && cfg.OrigMode != 1
	if !handedBack && obs.FinalPwm != 255 {
		cls := "no faults"
		for _, f := range obs.WriteFault {
			if strings.HasPrefix(f, "unreadable") {
				continue
			} else if strings.HasPrefix(f, "ignored pwm1_enable") {
				cls = "mode write silently ignored"
			} else if strings.HasPrefix(f, "refused pwm1_enable") && cls == "no faults" {
				cls = "mode write refused"
			} else if cls == "no faults" {
				cls = "pwm write fault"
			}
		}
		bad(fmt.Sprintf("C03 fan left in manual mode at reduced speed (%s, %s)", cfg.Scenario, cls),
			fmt.Sprintf("after Run returned the fan is neither in its original mode (%d) nor at PWM 255", cfg.OrigMode))
	}
	return
}

func vxC03Configs() []vxRunCfg {
	var out []vxRunCfg
	modes := []int{0, 1, 2, 3}
	pwms := []int{0, 100, 255}
	for _, m := range modes {
		for _, p := range pwms {
			for _, faults := range []bool{false, true} {
				out = append(out, vxRunCfg{Kind: "hwmon", OrigMode: m, OrigPwm: p, Stored: true, ConfMap: true, Scenario: "signal", RpmSkew: 1, Faults: faults})
			}
			out = append(out, vxRunCfg{Kind: "hwmon", OrigMode: m, OrigPwm: p, Stored: true, ConfMap: true, Scenario: "stall", RpmSkew: 1, Faults: true})
		}
		out = append(out, vxRunCfg{Kind: "hwmon", OrigMode: m, OrigPwm: 100, Stored: true, ConfMap: true, Scenario: "signal", RpmSkew: -1, Faults: true})
		out = append(out, vxRunCfg{Kind: "hwmon", OrigMode: m, OrigPwm: 100, Stored: true, ConfMap: false, Scenario: "signal", RpmSkew: 1, Faults: false})
		out = append(out, vxRunCfg{Kind: "hwmon", OrigMode: m, OrigPwm: 100, Stored: false, ConfMap: false, Scenario: "signal", RpmSkew: 1, Faults: false})
	}
	// fans whose regulation range ends below 255 (configured maxPwm): "full speed" must still mean 255
	for _, m := range []int{1, 2} {
		out = append(out, vxRunCfg{Kind: "hwmon", OrigMode: m, OrigPwm: 60, Stored: true, ConfMap: true, Scenario: "signal", RpmSkew: 1, Faults: true, MaxPwm: 120})
		out = append(out, vxRunCfg{Kind: "hwmon", OrigMode: m, OrigPwm: 60, Stored: true, ConfMap: true, Scenario: "stall", RpmSkew: 1, Faults: true, MaxPwm: 120})
	}
	out = append(out, vxRunCfg{Kind: "hwmon", NoEnable: true, OrigMode: -1, OrigPwm: 60, Stored: true, ConfMap: true, Scenario: "signal", RpmSkew: 1, Faults: false, MaxPwm: 120})
	for _, p := range pwms {
		out = append(out, vxRunCfg{Kind: "hwmon", NoEnable: true, OrigMode: -1, OrigPwm: p, Stored: true, ConfMap: true, Scenario: "signal", RpmSkew: 1, Faults: true})
		out = append(out, vxRunCfg{Kind: "file", OrigMode: -1, OrigPwm: p, Stored: true, ConfMap: true, Scenario: "signal", RpmSkew: 1, Faults: true})
		out = append(out, vxRunCfg{Kind: "file", OrigMode: -1, OrigPwm: p, Stored: true, ConfMap: true, Scenario: "stall", RpmSkew: 1, Faults: true})
		out = append(out, vxRunCfg{Kind: "hwmon", NoEnable: true, OrigMode: -1, OrigPwm: p, Stored: true, ConfMap: true, Scenario: "stall", RpmSkew: 1, Faults: false})
	}
	out = append(out, vxRunCfg{Kind: "file", OrigMode: -1, OrigPwm: 100, Stored: false, ConfMap: false, Scenario: "signal", RpmSkew: 1})
	for _, m := range modes {
		out = append(out, vxRunCfg{Kind: "hwmon", OrigMode: m, OrigPwm: 100, Stored: false, ConfMap: false, Scenario: "initfail", RpmSkew: 1, Faults: true})
	}
	out = append(out, vxRunCfg{Kind: "hwmon", NoEnable: true, OrigMode: -1, OrigPwm: 100, Stored: false, ConfMap: false, Scenario: "initfail", RpmSkew: 1, Faults: true})
	return out
}

func TestVX_C03run(t *testing.T) {
	rep := mc.NewReport("C03", "controller/run")
	defer rep.Write()
	defer vxCleanup()
	defer func() {
		if vxRunDir != "" {
			os.RemoveAll(vxRunDir)
		}
	}()
	var rc vxRunCase
	if mc.ReplayCase(&rc) {
		x := mc.NewX(rc.Tape)
		for _, v := range vxC03Exec(t, rc.Cfg, x) {
			rep.Violate(v)
		}
		rep.Evaluations = 1
		return
	}
	deadline := mc.Deadline(60*time.Second, 12*time.Minute)
	cfgs := vxC03Configs()
	for ci, cfg := range cfgs {
		if !mc.Mine(ci) {
			continue
		}
		bound := 2
		if mc.Thorough() {
			bound = 3
		}
		if !cfg.Faults {
			bound = 1
		}
		var sample any
		st := mc.Explore(rep, mc.ExploreOpts{Bound: bound, Deadline: deadline, RecheckN: 200, OnExec: func(tape []int, e mc.Exec) {
			if sample == nil && len(e.Points) > 5 {
				nd := 0
				for _, c := range tape {
					if c != 0 {
						nd++
					}
				}
				if nd == bound {
					sample = map[string]any{"config": cfg.String(), "choice_points": len(e.Points), "observation": e.Outcome}
				}
			}
		}}, func(prefix []int) mc.Exec {
			x := mc.NewX(prefix)
			v := vxC03Exec(t, cfg, x)
			return mc.Exec{Points: x.Points, Outcome: cfg.String() + " | " + x.Obs(), Viol: v}
		})
		rep.Configs++
		rep.Count("max_choice_points", 0)
		if int64(st.MaxPoints) > rep.Counters["max_choice_points_in_one_execution"] {
			rep.Counters["max_choice_points_in_one_execution"] = int64(st.MaxPoints)
		}
		if st.Capped {
			rep.Cap(fmt.Sprintf("deadline reached in config %s: deviation bound %d completed", cfg, st.BoundDone))
		}
		bk := "deviations(stop event only)"
		if cfg.Faults {
			bk = "deviations(stop event + write faults)"
		}
		if b, ok := rep.BoundDone[bk]; !ok || st.BoundDone < b {
			rep.BoundDone[bk] = st.BoundDone
		}
		if sample != nil && ci%5 == 0 {
			rep.Sample(sample)
		}
	}
	rep.Note("deviations: cancellation before any file operation or at an idle instant (start-up wait, first-second delay, between ticks), refused / silently ignored writes and failing (EIO) read-backs of the control mode after the stop event; every execution ends with a cancellation after the third control cycle or with the stalled-at-max error")
}
