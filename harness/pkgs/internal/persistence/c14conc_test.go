package persistence

// C14 with several savers at once: in the daemon every fan controller saves through the same Persistence from its own
// goroutine, and a `fan2go fan ...` process may hold the database lock meanwhile. Three goroutines save different entries
// (fan, kind, value) while the database is locked by somebody else (or not), in every start order; afterwards every entry
// must load back as what was saved, and nothing else may be stored. Virtual time (the bolt lock wait polls with time.Sleep).

import (
	"fmt"
	"os"
	"path/filepath"
	"sync"
	"testing"
	"testing/synctest"
	"time"

	"github.com/markusressel/fan2go/internal/verifshim/mc"
	bolt "go.etcd.io/bbolt"
)

type vxConcSave struct {
	Fan  int `json:"fan"`
	Kind int `json:"kind"` // 0 rpm-curve, 1 pwm-map
	Val  int `json:"val"`  // index into vxVals
}

type vxConcCase14 struct {
	Saves    []vxConcSave `json:"saves"`
	Order    []int        `json:"order"`    // start order of the savers
	LockedMs int          `json:"lockedMs"` // the database is locked by someone else for this long (0 = not locked)
	GapUs    int          `json:"gapUs"`    // delay between starting two savers
}

var vxConcFans = []string{"fanA", "fanB", "fanC"}

func vxConcRun14(t *testing.T, dir string, c vxConcCase14) (fails []string) {
	path := filepath.Join(dir, "conc.db")
	_ = os.Remove(path)
	errs := make([]error, len(c.Saves))
	synctest.Test(t, func(t *testing.T) {
		p := NewPersistence(path)
		var holder *bolt.DB
		if c.LockedMs > 0 {
			var err error
			holder, err = bolt.Open(path, 0600, &bolt.Options{Timeout: time.Second})
			if err != nil {
				panic(err)
			}
		}
		var wg sync.WaitGroup
		for _, k := range c.Order {
			s := c.Saves[k]
			wg.Add(1)
			go func(k int, s vxConcSave) {
				defer wg.Done()
				if s.Kind == 0 {
					f := vxFan(vxConcFans[s.Fan])
					m := vxCopyRpm(vxVals[s.Val].Rpm)
					f.FanCurveData = &m
					errs[k] = p.SaveFanPwmData(f)
				} else {
					errs[k] = p.SaveFanPwmMap(vxConcFans[s.Fan], vxCopyPwm(vxVals[s.Val].Pwm))
				}
			}(k, s)
			time.Sleep(time.Duration(c.GapUs) * time.Microsecond)
		}
		if holder != nil {
			time.Sleep(time.Duration(c.LockedMs) * time.Millisecond)
			_ = holder.Close()
		}
		wg.Wait()
	})
	p := NewPersistence(path)
	for k, s := range c.Saves {
		what := fmt.Sprintf("saver %d (%s of %s := %s)", k, vxKindName[s.Kind], vxConcFans[s.Fan], vxVals[s.Val].Name)
		if errs[k] != nil {
			fails = append(fails, what+" returned "+errs[k].Error())
			continue
		}
		if s.Kind == 0 {
			got, err := p.LoadFanPwmData(vxFan(vxConcFans[s.Fan]))
			if err != nil {
				fails = append(fails, what+" reported success, load says: "+err.Error())
			} else if d := vxEqRpm(got, vxVals[s.Val].Rpm); d != "" {
				fails = append(fails, what+" reported success, load returns other data: "+d)
			}
		} else {
			got, err := p.LoadFanPwmMap(vxConcFans[s.Fan])
			if err != nil {
				fails = append(fails, what+" reported success, load says: "+err.Error())
			} else if d := vxEqPwm(got, vxVals[s.Val].Pwm); d != "" {
				fails = append(fails, what+" reported success, load returns other data: "+d)
			}
		}
	}
	_ = os.Remove(path)
	return
}

func TestVX_C14conc(t *testing.T) {
	rep := mc.NewReport("C14", "persistence/concurrent-savers")
	defer rep.Write()
	dir, err := os.MkdirTemp("/dev/shm", "verif-c14c-")
	if err != nil {
		panic(err)
	}
	defer os.RemoveAll(dir)
	var rc vxConcCase14
	if mc.ReplayCase(&rc) {
		if len(rc.Saves) == 0 {
			return
		}
		for _, f := range vxConcRun14(t, dir, rc) {
			rep.Violate(mc.Violation{Signature: "C14 concurrent savers: an acknowledged save is lost or stored as something else", Detail: f, Replay: rc})
		}
		rep.Evaluations = 1
		return
	}
	orders := [][]int{{0, 1, 2}, {0, 2, 1}, {1, 0, 2}, {1, 2, 0}, {2, 0, 1}, {2, 1, 0}}
	// three different (fan, kind) entries with three different values
	var sets [][]vxConcSave
	for k0 := 0; k0 < 2; k0++ {
		for k1 := 0; k1 < 2; k1++ {
			for k2 := 0; k2 < 2; k2++ {
				sets = append(sets, []vxConcSave{{0, k0, 3}, {1, k1, 4}, {2, k2, 2}})
			}
		}
	}
	sets = append(sets, []vxConcSave{{0, 0, 3}, {0, 1, 4}, {1, 1, 1}}) // both kinds of one fan + another fan
	idx := 0
	var n int64
	for _, set := range sets {
		for _, ord := range orders {
			for _, locked := range []int{0, 300} {
				for _, gap := range []int{0, 700} {
					idx++
					if !mc.Mine(idx) {
						continue
					}
					c := vxConcCase14{Saves: set, Order: ord, LockedMs: locked, GapUs: gap}
					fails := vxConcRun14(t, dir, c)
					n++
					for _, f := range fails {
						rep.Violate(mc.Violation{Signature: "C14 concurrent savers: an acknowledged save is lost or stored as something else",
							Detail: fmt.Sprintf("%s\nsavers %+v started in order %v, %d us apart, database locked by another holder for %d ms", f, set, ord, gap, locked), Replay: c})
					}
					if n == 5 {
						rep.Sample(map[string]any{"savers": fmt.Sprintf("%+v", set), "order": ord, "lockedMs": locked, "gapUs": gap, "failures": len(fails)})
					}
				}
			}
		}
	}
	rep.Evaluations = n
	rep.AddDistinct(n)
	rep.Note("3 concurrent savers (real Persistence, real bbolt file) x 9 entry sets x 6 start orders x {database locked by another holder for 300 ms, not locked} x start gap {0, 700 us}; oracle: every acknowledged save loads back as saved")
}
