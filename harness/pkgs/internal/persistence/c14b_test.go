package persistence

// C14 part (b): crash points. A worker process (this test binary re-executed) runs a history on the
// real persistence with all database work pinned to one OS thread and is killed with SIGKILL just
// before its N-th write-class syscall, for EVERY N (strace fault injection). After each kill the
// parent opens the file through a raw bbolt view and through the real persistence and compares with
// the model before / after the interrupted operation.

import (
	"bufio"
	"encoding/json"
	"errors"
	"fmt"
	"os"
	"os/exec"
	"path/filepath"
	"regexp"
	"runtime"
	"sort"
	"strconv"
	"strings"
	"syscall"
	"testing"
	"time"

	"github.com/markusressel/fan2go/internal/verifshim/mc"
)

const vxStrace = "/usr/bin/strace"
const vxSyscallSet = "pwrite64,write,fdatasync,fsync,ftruncate,fallocate"

type vxHist struct {
	Name  string `json:"name"`
	Setup []vxOp `json:"setup"` // executed by the parent before the worker starts (never interrupted)
	Ops   []vxOp `json:"ops"`   // executed by the worker (interrupted at every syscall)
}

type vxCaseB struct {
	Hist vxHist `json:"hist"`
	Sys  string `json:"sys"` // kill on entering the K-th invocation of this syscall ("" = every kill point)
	K    int    `json:"k"`
}

// vxPoint is one kill point: strace counts invocations per syscall (and per thread), so a point is
// addressed as "K-th invocation of Sys"; Pos is its position in the database thread's syscall sequence
// of the un-killed run (0 = the invocation belongs to another thread, e.g. the final "PASS" write).
type vxPoint struct {
	Pos int
	Sys string
	K   int
}

type vxJob struct {
	Db     string `json:"db"`
	AckDir string `json:"ackDir"`
	Setup  []vxOp `json:"setup"`
	Ops    []vxOp `json:"ops"`
}

func vxModelNext(m vxModel, op vxOp) vxModel {
	switch op.Op {
	case "save":
		m[op.Kind][op.Fan] = vxEnt{vxStored, int8(op.Val)}
	case "corrupt":
		m[op.Kind][op.Fan] = vxEnt{vxGarbage, int8(op.Val)}
	case "delete":
		m[op.Kind][op.Fan] = vxEnt{}
	case "load":
		if m[op.Kind][op.Fan].St == vxGarbage {
			m[op.Kind][op.Fan] = vxEnt{}
		}
	}
	return m
}

// vxTouch creates an empty marker file (openat/close only: not in the injected syscall set).
func vxTouch(path string) {
	f, err := os.OpenFile(path, os.O_CREATE|os.O_WRONLY, 0600)
	if err == nil {
		_ = f.Close()
	}
}

var vxUnsafeName = regexp.MustCompile(`[^A-Za-z0-9 _.,:=()-]`)

// TestVX_C14_worker is the process that gets killed. It only does something when VX_C14_JOB is set.
func TestVX_C14_worker(t *testing.T) {
	jf := os.Getenv("VX_C14_JOB")
	if jf == "" {
		t.Skip("worker of TestVX_C14b")
	}
	runtime.LockOSThread() // every database syscall below comes from this one OS thread
	b, err := os.ReadFile(jf)
	if err != nil {
		panic(err)
	}
	var job vxJob
	if err := json.Unmarshal(b, &job); err != nil {
		panic(err)
	}
	var m vxModel
	for _, op := range job.Setup {
		m = vxModelNext(m, op)
	}
	sys := vxNewSys(job.Db)
	for k, op := range job.Ops {
		res := sys.apply(op)
		ma, fails, _ := vxCheckRet(m, op, res)
		for _, f := range fails {
			msg := vxUnsafeName.ReplaceAllString(f.Sig+" == "+f.Msg, "_")
			if len(msg) > 180 {
				msg = msg[:180]
			}
			vxTouch(filepath.Join(job.AckDir, fmt.Sprintf("fail-%d-%s", k, msg)))
		}
		m = ma
		vxTouch(filepath.Join(job.AckDir, fmt.Sprintf("ack-%d", k)))
	}
	vxTouch(filepath.Join(job.AckDir, "done"))
}

type vxSysc struct {
	Tid  int
	Name string
}

var vxTraceLine = regexp.MustCompile(`^(\d+)\s+([a-z0-9_]+)\(`)

func vxParseTrace(path string) (calls []vxSysc, killed bool, err error) {
	f, err := os.Open(path)
	if err != nil {
		return nil, false, err
	}
	defer f.Close()
	sc := bufio.NewScanner(f)
	sc.Buffer(make([]byte, 1<<20), 1<<24)
	for sc.Scan() {
		line := sc.Text()
		if strings.Contains(line, "+++ killed by SIGKILL") {
			killed = true
		}
		if m := vxTraceLine.FindStringSubmatch(line); m != nil {
			tid, _ := strconv.Atoi(m[1])
			calls = append(calls, vxSysc{tid, m[2]})
		}
	}
	return calls, killed, sc.Err()
}

// vxPlan derives the kill points from the trace of an un-killed run: the database thread (the one
// issuing pwrite64/fdatasync/fsync/ftruncate/fallocate), whether ALL such calls come from it (pinning),
// one kill point per syscall of that thread in order, plus the invocations of the set made by other
// threads beyond that (runtime/testing output), and per syscall the first K that must NOT kill.
func vxPlan(calls []vxSysc) (points []vxPoint, beyond map[string]int, dbTid int, pinned bool) {
	perTid := map[int]map[string]int{}
	dbTids := map[int]int{}
	for _, c := range calls {
		if perTid[c.Tid] == nil {
			perTid[c.Tid] = map[string]int{}
		}
		perTid[c.Tid][c.Name]++
		if c.Name != "write" {
			dbTids[c.Tid]++
		}
	}
	pinned = len(dbTids) <= 1
	for t, n := range dbTids {
		if n > dbTids[dbTid] || dbTid == 0 {
			dbTid = t
		}
	}
	occ := map[string]int{}
	pos := 0
	for _, c := range calls {
		if c.Tid != dbTid {
			continue
		}
		pos++
		occ[c.Name]++
		points = append(points, vxPoint{pos, c.Name, occ[c.Name]})
	}
	beyond = map[string]int{}
	for _, name := range strings.Split(vxSyscallSet, ",") {
		max := occ[name]
		for t, m := range perTid {
			if t != dbTid && m[name] > max {
				max = m[name]
			}
		}
		for k := occ[name] + 1; k <= max; k++ {
			points = append(points, vxPoint{0, name, k})
		}
		beyond[name] = max + 1
	}
	return
}

// vxDbCalls counts the syscalls the database thread entered in a (killed) run.
func vxDbCalls(calls []vxSysc) int {
	per := map[int]int{}
	db := map[int]bool{}
	for _, c := range calls {
		per[c.Tid]++
		if c.Name != "write" {
			db[c.Tid] = true
		}
	}
	n := 0
	for t := range db {
		if per[t] > n {
			n = per[t]
		}
	}
	return n
}

type vxRun struct {
	Killed   bool // strace (and so the worker) died by SIGKILL
	ExitOK   bool
	Calls    []vxSysc
	Acked    int
	Done     bool
	Fails    []string
	Output   string
	Duration time.Duration
}

// vxRunWorker executes the worker under strace; k > 0 kills it on entering the k-th invocation of sys.
func vxRunWorker(dir string, job vxJob, sys string, k int) (r vxRun, err error) {
	_ = os.RemoveAll(job.AckDir)
	if err = os.MkdirAll(job.AckDir, 0700); err != nil {
		return
	}
	jb, _ := json.Marshal(job)
	jf := filepath.Join(dir, "job.json")
	if err = os.WriteFile(jf, jb, 0600); err != nil {
		return
	}
	trace := filepath.Join(dir, "trace.txt")
	_ = os.Remove(trace)
	args := []string{"-f", "-q", "-s", "0", "-o", trace, "-e", "trace=" + vxSyscallSet}
	if k > 0 {
		args = append(args, "-e", fmt.Sprintf("inject=%s:signal=KILL:when=%d", sys, k))
	}
	args = append(args, os.Args[0], "-test.run", "^TestVX_C14_worker$", "-test.count=1", "-test.timeout=120s")
	cmd := exec.Command(vxStrace, args...)
	var env []string
	for _, e := range os.Environ() {
		if strings.HasPrefix(e, "GOMAXPROCS=") || strings.HasPrefix(e, "VX_C14_JOB=") || strings.HasPrefix(e, "VERIF_OUT=") || strings.HasPrefix(e, "VERIF_REPLAY=") {
			continue
		}
		env = append(env, e)
	}
	cmd.Env = append(env, "GOMAXPROCS=1", "VX_C14_JOB="+jf)
	t0 := mc.RealNow()
	out, runErr := cmd.CombinedOutput()
	r.Duration = mc.RealNow().Sub(t0)
	r.Output = string(out)
	if runErr == nil {
		r.ExitOK = true
	} else {
		var ee *exec.ExitError
		if errors.As(runErr, &ee) {
			if ws, ok := ee.Sys().(syscall.WaitStatus); ok && ws.Signaled() && ws.Signal() == syscall.SIGKILL {
				r.Killed = true
			}
		} else {
			return r, runErr
		}
	}
	var trKilled bool
	r.Calls, trKilled, err = vxParseTrace(trace)
	if err != nil {
		return
	}
	if trKilled != r.Killed {
		return r, fmt.Errorf("strace exit status (killed=%v) and trace (killed=%v) disagree; output: %s", r.Killed, trKilled, r.Output)
	}
	ents, err := os.ReadDir(job.AckDir)
	if err != nil {
		return
	}
	acks := map[int]bool{}
	for _, e := range ents {
		switch {
		case e.Name() == "done":
			r.Done = true
		case strings.HasPrefix(e.Name(), "ack-"):
			k, _ := strconv.Atoi(strings.TrimPrefix(e.Name(), "ack-"))
			acks[k] = true
		case strings.HasPrefix(e.Name(), "fail-"):
			r.Fails = append(r.Fails, e.Name())
		}
	}
	for acks[r.Acked] {
		r.Acked++
	}
	if len(acks) != r.Acked {
		return r, fmt.Errorf("acknowledgement markers are not a prefix: %v", acks)
	}
	sort.Strings(r.Fails)
	return
}

func vxViolationB(f vxFail, h vxHist, pt vxPoint, extra string) mc.Violation {
	where := "no kill"
	if pt.K > 0 {
		where = fmt.Sprintf("kill point: on entering the worker's %s #%d (syscall %d of the database thread)", pt.Sys, pt.K, pt.Pos)
	}
	return mc.Violation{Property: "C14", Signature: f.Sig,
		Detail: fmt.Sprintf("%s\nhistory %s: setup [%s] then worker ops [%s]\n%s%s",
			f.Msg, h.Name, vxOpsString(h.Setup), vxOpsString(h.Ops), where, extra),
		Replay: vxC14Case{Part: "b", B: &vxCaseB{Hist: h, Sys: pt.Sys, K: pt.K}}}
}

// vxRecoveryCheck inspects the database file left behind by a worker that acknowledged `acked` operations.
// models[i] = model after setup and the first i worker operations. Returns failures and whether the
// interrupted operation took effect.
func vxRecoveryCheck(db string, h vxHist, models []vxModel, acked int) (fails []vxFail, applied bool) {
	pre := models[acked]
	post := pre
	opName := "none (all operations acknowledged)"
	if acked < len(h.Ops) {
		post = models[acked+1]
		opName = h.Ops[acked].Op + " " + vxKindName[h.Ops[acked].Kind]
		if h.Ops[acked].Op == "reopen" {
			opName = "reopen"
		}
	}
	raw, err := vxRawView(db, true)
	if err != nil {
		return []vxFail{{"C14 crash: database does not open after kill", err.Error()}}, false
	}
	if raw.CheckErr != "" {
		fails = append(fails, vxFail{"C14 crash: bbolt structural check fails after kill", raw.CheckErr})
	}
	dPre, dPost := vxRawMatches(pre, raw), vxRawMatches(post, raw)
	var chosen vxModel
	switch {
	case len(dPost) == 0:
		chosen, applied = post, pre != post
	case len(dPre) == 0:
		chosen = pre
	default:
		for j := acked - 1; j >= 0; j-- {
			if len(vxRawMatches(models[j], raw)) == 0 {
				return append(fails, vxFail{"C14 crash: acknowledged operation lost (kill during " + opName + ")",
					fmt.Sprintf("%d operations were acknowledged, but the file holds the state after only %d of them: %s\nexpected (before interrupted op): %s\nexpected (after): %s",
						acked, j, models[j], pre, post)}), false
			}
		}
		if acked >= len(h.Ops) {
			return append(fails, vxFail{"C14 crash: final state differs from the model although every operation was acknowledged",
				fmt.Sprintf("expected %s:\n  %s", pre, strings.Join(dPre, "\n  "))}), false
		}
		return append(fails, vxFail{"C14 crash: state after kill is neither before nor after the interrupted " + opName,
			fmt.Sprintf("acknowledged %d operations\nvs state before the interrupted operation (%s):\n  %s\nvs state after it (%s):\n  %s",
				acked, pre, strings.Join(dPre, "\n  "), post, strings.Join(dPost, "\n  "))}), false
	}
	// read everything back through the real persistence (fresh object), twice
	sys := vxNewSys(db)
	for _, f := range vxLoadAll(sys, chosen, []int{0, 1, 2}, nil) {
		f.Sig += " (after kill)"
		fails = append(fails, f)
	}
	// the database must still be usable: one save + load per kind
	var m vxModel
	for k := 0; k < 2; k++ {
		for f := 0; f < 3; f++ {
			if chosen[k][f].St == vxStored {
				m[k][f] = chosen[k][f]
			}
		}
	}
	for _, op := range []vxOp{{"save", 0, 2, 2}, {"load", 0, 2, 0}, {"save", 1, 2, 3}, {"load", 1, 2, 0}, {"load", 0, 0, 0}, {"load", 1, 0, 0}} {
		res := sys.apply(op)
		ma, fl, _ := vxCheckRet(m, op, res)
		for _, f := range fl {
			f.Sig += " (after kill)"
			f.Msg = "use after recovery, " + op.String() + ": " + f.Msg
			fails = append(fails, f)
		}
		m = ma
	}
	return
}

type vxHistStats struct {
	Count   int
	Runs    int
	MaxTime time.Duration
}

// vxRunHistory enumerates the kill points of one history (all of them, or only the one given by only).
func vxRunHistory(rep *mc.Report, dir string, h vxHist, only *vxPoint) (st vxHistStats, ok bool) {
	if err := os.MkdirAll(dir, 0700); err != nil {
		panic(err)
	}
	base := filepath.Join(dir, "base.db")
	db := filepath.Join(dir, "run.db")
	_ = os.Remove(base)
	none := vxPoint{}
	// setup in the parent
	var m vxModel
	ssys := vxNewSys(base)
	for _, op := range h.Setup {
		res := ssys.apply(op)
		ma, fails, _ := vxCheckRet(m, op, res)
		for _, f := range fails {
			rep.Violate(vxViolationB(f, h, none, "\n(during setup, before any kill)"))
			return st, false
		}
		m = ma
	}
	models := []vxModel{m}
	for _, op := range h.Ops {
		m = vxModelNext(m, op)
		models = append(models, m)
	}
	if raw, err := vxRawView(base, false); err != nil || len(vxRawMatches(models[0], raw)) > 0 {
		rep.HarnessError(fmt.Sprintf("history %s: setup did not produce the modelled state: %v %v", h.Name, err, vxRawMatches(models[0], raw)))
		return st, false
	}
	job := vxJob{Db: db, AckDir: filepath.Join(dir, "acks"), Setup: h.Setup, Ops: h.Ops}

	// reference run without a kill: syscall sequence and thread pinning
	if err := vxCopyFile(base, db); err != nil {
		panic(err)
	}
	r0, err := vxRunWorker(dir, job, "", 0)
	if err != nil || !r0.ExitOK || !r0.Done || r0.Acked != len(h.Ops) {
		rep.HarnessError(fmt.Sprintf("history %s: un-killed worker run failed: err=%v exitOK=%v done=%v acked=%d/%d output=%s", h.Name, err, r0.ExitOK, r0.Done, r0.Acked, len(h.Ops), r0.Output))
		return st, false
	}
	for _, f := range r0.Fails {
		rep.Violate(vxViolationB(vxFail{"C14 worker operation result wrong (no kill)", f}, h, none, ""))
	}
	points, beyond, _, pinned := vxPlan(r0.Calls)
	if !pinned {
		rep.HarnessError(fmt.Sprintf("history %s: database writes come from more than one OS thread (pinning failed): %v", h.Name, r0.Calls))
		return st, false
	}
	fl, _ := vxRecoveryCheck(db, h, models, len(h.Ops))
	for _, f := range fl {
		rep.Violate(vxViolationB(f, h, none, "\n(un-killed run)"))
	}
	for _, p := range points {
		if p.Pos > 0 {
			st.Count++
		}
	}
	rep.Count("reference (un-killed) runs", 1)
	ok = true

	if only == nil {
		// per syscall, one invocation past the last must not kill: the enumeration below is complete
		names := make([]string, 0, len(beyond))
		for name := range beyond {
			names = append(names, name)
		}
		sort.Strings(names)
		for _, name := range names {
			if err := vxCopyFile(base, db); err != nil {
				panic(err)
			}
			r, err := vxRunWorker(dir, job, name, beyond[name])
			st.Runs++
			if err != nil || r.Killed || !r.ExitOK || !r.Done {
				rep.HarnessError(fmt.Sprintf("history %s: syscall sequence not stable: un-killed run had %d x %s, but killing at #%d gave err=%v killed=%v exitOK=%v done=%v",
					h.Name, beyond[name]-1, name, beyond[name], err, r.Killed, r.ExitOK, r.Done))
				ok = false
				continue
			}
			rep.Count("completeness runs (kill at one past the last invocation of a syscall: worker completed)", 1)
		}
	}

	for _, pt := range points {
		if only != nil && (only.Sys != pt.Sys || only.K != pt.K) {
			continue
		}
		if err := vxCopyFile(base, db); err != nil {
			panic(err)
		}
		r, err := vxRunWorker(dir, job, pt.Sys, pt.K)
		st.Runs++
		if r.Duration > st.MaxTime {
			st.MaxTime = r.Duration
		}
		if err != nil {
			rep.HarnessError(fmt.Sprintf("history %s kill at %s #%d: %v", h.Name, pt.Sys, pt.K, err))
			ok = false
			continue
		}
		rep.Evaluations++
		if !r.Killed {
			rep.HarnessError(fmt.Sprintf("history %s: kill at %s #%d (position %d) did not kill the worker (exitOK=%v done=%v): syscall sequence differs from the un-killed run; output=%s",
				h.Name, pt.Sys, pt.K, pt.Pos, r.ExitOK, r.Done, r.Output))
			ok = false
			continue
		}
		last := "?"
		if len(r.Calls) > 0 {
			last = r.Calls[len(r.Calls)-1].Name
		}
		if pt.Pos > 0 {
			// the kill must have landed exactly on the planned syscall of the database thread
			if n := vxDbCalls(r.Calls); n != pt.Pos || last != pt.Sys {
				rep.HarnessError(fmt.Sprintf("history %s: kill at %s #%d expected at database-thread syscall %d, but the thread had entered %d syscalls (last traced: %s)", h.Name, pt.Sys, pt.K, pt.Pos, n, last))
				ok = false
				continue
			}
			rep.Count("kill points explored (database thread)", 1)
		} else {
			rep.Count("kill points explored (other thread, e.g. final test output)", 1)
		}
		rep.Count("killed on entering "+pt.Sys, 1)
		for _, f := range r.Fails {
			rep.Violate(vxViolationB(vxFail{"C14 worker operation result wrong before kill", f}, h, pt, ""))
		}
		fails, applied := vxRecoveryCheck(db, h, models, r.Acked)
		for _, f := range fails {
			rep.Violate(vxViolationB(f, h, pt, fmt.Sprintf("\nacknowledged before the kill: %d of %d operations", r.Acked, len(h.Ops))))
		}
		switch {
		case r.Acked >= len(h.Ops):
			rep.Count("kills after the last operation returned", 1)
		default:
			op := h.Ops[r.Acked]
			what := "took effect entirely"
			if !applied {
				what = "did not take effect"
				if models[r.Acked] == models[r.Acked+1] {
					what = "no logical change either way"
				}
			}
			rep.Count(fmt.Sprintf("kills during operation #%d of the history", r.Acked+1), 1)
			rep.Count(fmt.Sprintf("kills during %s %s: %s", op.Op, vxKindName[op.Kind], what), 1)
		}
		rep.Outcome(fmt.Sprintf("%s|%s|%s|%d|%d|%v", vxOpsString(h.Setup), vxOpsString(h.Ops), pt.Sys, pt.K, r.Acked, applied))
		if pt.Pos == (st.Count+1)/2 {
			rep.Sample(map[string]any{"history": h.Name, "setup": vxOpsString(h.Setup), "worker_ops": vxOpsString(h.Ops), "syscalls_in_unkilled_run": st.Count,
				"killed_on_entering": fmt.Sprintf("%s #%d = syscall %d of the database thread", pt.Sys, pt.K, pt.Pos), "acknowledged_ops": r.Acked, "interrupted_op_took_effect": applied,
				"state_found": models[r.Acked+btoi(applied)].String()})
		}
	}
	return st, ok
}

func btoi(b bool) int {
	if b {
		return 1
	}
	return 0
}

func vxHistsB() []vxHist {
	// populated database: valid entries for two fans in both kinds, corrupt entries for the third
	setup := []vxOp{{"save", 0, 0, 4}, {"save", 0, 1, 2}, {"corrupt", 0, 2, 0}, {"save", 1, 0, 3}, {"save", 1, 1, 1}, {"corrupt", 1, 2, 2}}
	w := []vxOp{
		{"save", 0, 0, 3},   // overwrite a large value by a large value
		{"save", 1, 1, 4},   // overwrite a small value
		{"delete", 0, 1, 0}, // delete a stored entry
		{"load", 0, 2, 0},   // load of a corrupt entry (discards it: a write)
		{"save", 1, 2, 2},   // overwrite a corrupt entry
		{"delete", 1, 0, 0}, // delete a large entry
		{"load", 1, 0, 0},   // load of a valid entry (still a committing transaction in the real code)
		{"save", 0, 2, 0},   // empty map over a corrupt entry
	}
	var out []vxHist
	// fresh file (created by the worker's first operation)
	out = append(out,
		vxHist{Name: "fresh-1", Ops: []vxOp{{"save", 0, 0, 4}, {"save", 1, 0, 3}, {"save", 0, 1, 2}}},
		vxHist{Name: "fresh-2", Ops: []vxOp{{"save", 1, 0, 1}, {"delete", 1, 0, 0}, {"save", 1, 0, 2}, {"load", 1, 0, 0}}},
		vxHist{Name: "fresh-3", Ops: []vxOp{{"load", 0, 0, 0}, {"save", 0, 0, 3}, {"save", 0, 0, 4}, {"delete", 0, 0, 0}, {"save", 1, 1, 3}}},
		vxHist{Name: "fresh-4-growth", Ops: []vxOp{{"save", 0, 2, 4}, {"save", 0, 0, 4}, {"save", 0, 1, 4}, {"save", 1, 2, 3}, {"save", 1, 0, 3}}},
	)
	out = append(out,
		vxHist{Name: "populated-5a", Setup: setup, Ops: []vxOp{w[0], w[2], w[4], w[5], w[7]}},
		vxHist{Name: "populated-5b", Setup: setup, Ops: []vxOp{w[3], w[3], w[6], w[1], w[0]}},
	)
	// every ordered triple of the eight operations (thorough) / the 64 triples of one residue class (quick)
	for i := 0; i < 8; i++ {
		for j := 0; j < 8; j++ {
			for k := 0; k < 8; k++ {
				if !mc.Thorough() && (i+3*j+5*k)%8 != 0 {
					continue
				}
				out = append(out, vxHist{Name: fmt.Sprintf("populated-%d%d%d", i, j, k), Setup: setup, Ops: []vxOp{w[i], w[j], w[k]}})
			}
		}
	}
	return out
}

func vxReplayB(rep *mc.Report, dir string, c vxCaseB) {
	for _, op := range append(append([]vxOp{}, c.Hist.Setup...), c.Hist.Ops...) {
		if !vxOpValid(op) {
			rep.HarnessError(fmt.Sprintf("invalid operation in replay case: %+v", op))
			return
		}
	}
	if c.K > 0 {
		vxRunHistory(rep, dir, c.Hist, &vxPoint{Sys: c.Sys, K: c.K})
	} else {
		vxRunHistory(rep, dir, c.Hist, nil)
	}
}

func TestVX_C14b(t *testing.T) {
	rep := mc.NewReport("C14", "persistence/crash-points")
	defer rep.Write()
	if vxReplayIfAsked(t, rep) {
		return
	}
	if out, err := exec.Command(vxStrace, "-V").CombinedOutput(); err != nil {
		rep.HarnessError(fmt.Sprintf("strace not usable: %v %s", err, out))
		return
	}
	root := vxScratchRoot()
	defer os.RemoveAll(root)
	deadline := mc.Deadline(70*time.Second, 5*time.Minute)
	hists := vxHistsB()
	var maxCount, minCount int
	for hi, h := range hists {
		if !mc.Mine(hi) {
			continue
		}
		if mc.RealNow().After(deadline) {
			rep.Cap("deadline reached: not every history was enumerated")
			break
		}
		st, _ := vxRunHistory(rep, filepath.Join(root, fmt.Sprintf("b%d", hi)), h, nil)
		_ = os.RemoveAll(filepath.Join(root, fmt.Sprintf("b%d", hi)))
		rep.Configs++
		rep.Count("syscalls of the database thread in the un-killed runs", int64(st.Count))
		if st.Count > maxCount {
			maxCount = st.Count
		}
		if minCount == 0 || st.Count < minCount {
			minCount = st.Count
		}
	}
	_ = maxCount
	rep.Note("worker = this test binary re-executed under strace -f -e trace=" + vxSyscallSet + " -e inject=<syscall>:signal=KILL:when=<k> with runtime.LockOSThread + GOMAXPROCS=1; " +
		"strace counts invocations per syscall and per thread, so each syscall of the database thread is addressed as (syscall, k); for every history the un-killed run's trace shows all " +
		"database syscalls on one thread, every planned (syscall, k) killed the worker (SIGKILL) exactly at the planned position, and (syscall, last+1) completed for every syscall of the set; " +
		"a fatal signal injected at syscall entry prevents the syscall from executing, so a kill point = 'after the previous syscall, before this one'; " +
		"configs = histories; acknowledgements are empty marker files (openat/close only)")
	rep.Note("process kill only (page cache survives): power loss / torn pages are not modelled and not claimed by C14")
}
