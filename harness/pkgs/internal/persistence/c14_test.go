package persistence

// C14 shared part: value catalogue, operation symbols, the two-map reference model, the raw bbolt
// view of the database file (state key + isolation oracle), and the per-step oracle. Used by the
// history search (c14a_test.go), the crash-point enumeration and its worker (c14b_test.go).

import (
	"bytes"
	"encoding/json"
	"errors"
	"fmt"
	"hash/fnv"
	"math"
	"os"
	"path/filepath"
	"sort"
	"strconv"
	"strings"
	"syscall"
	"testing"
	"time"

	"github.com/markusressel/fan2go/internal/configuration"
	"github.com/markusressel/fan2go/internal/fans"
	"github.com/markusressel/fan2go/internal/verifshim/mc"
	"github.com/pterm/pterm"
	bolt "go.etcd.io/bbolt"
)

func init() {
	pterm.DisableOutput()
	os.Unsetenv("DISPLAY")
}

// fan ids: one id is a prefix of another, one equals a bucket name
var vxFanIds = []string{"fan1", "fan10", "fans"}
var vxKindName = []string{"rpm-curve", "pwm-map"}
var vxBuckets = []string{BucketFans, BucketFanPwmMap}

type vxValue struct {
	Name string
	Rpm  map[int]float64
	Pwm  map[int]int
}

var vxVals = func() []vxValue {
	idR, idP := map[int]float64{}, map[int]int{}
	lin := map[int]float64{}
	for p := 0; p <= 255; p++ {
		idR[p] = float64(p)
		idP[p] = p
		if p >= 30 {
			lin[p] = 423.7 + float64(p-30)*11.113 // fractional values with long decimal expansions
		} else {
			lin[p] = 0
		}
	}
	return []vxValue{
		{"empty", map[int]float64{}, map[int]int{}},
		{"zero", map[int]float64{0: 0}, map[int]int{0: 0}},
		{"edge", map[int]float64{-3: 1.5, 255: 1e18}, map[int]int{-3: -1, 255: 1000000000000000000}},
		{"identity256", idR, idP},
		{"linear", lin, map[int]int{0: 0, 64: 128, 192: 255}},
	}
}()

var vxCorrupt = []struct {
	Name  string
	Bytes []byte
}{
	{"truncated-json", []byte(`{"0":0,"128":1300.5,"25`)},
	{"wrong-json-type", []byte(`[0,1,2]`)},
	{"half-valid-object", []byte(`{"0":1,"x":2,"5":"y","7":3}`)},
}

// ---------------------------------------------------------------- symbols

type vxOp struct {
	Op   string `json:"op"`   // save | load | delete | corrupt | reopen | starved-load (load while the process has no free file descriptor) | save-noid (save under the empty fan id, which the store refuses)
	Kind int    `json:"kind"` // 0 rpm-curve (SaveFanPwmData..), 1 pwm-map (SaveFanPwmMap..)
	Fan  int    `json:"fan"`  // index into vxFanIds
	Val  int    `json:"val"`  // save: value index; corrupt: variant index
}

func (o vxOp) String() string {
	switch o.Op {
	case "reopen":
		return "reopen"
	case "save":
		return fmt.Sprintf("save(%s,%s,%s)", vxKindName[o.Kind], vxFanIds[o.Fan], vxVals[o.Val].Name)
	case "corrupt":
		return fmt.Sprintf("corrupt(%s,%s,%s)", vxKindName[o.Kind], vxFanIds[o.Fan], vxCorrupt[o.Val].Name)
	}
	return fmt.Sprintf("%s(%s,%s)", o.Op, vxKindName[o.Kind], vxFanIds[o.Fan])
}

// vxStarveFds lowers RLIMIT_NOFILE to the lowest free descriptor number, so that nothing can be opened until the returned
// function is called.
func vxStarveFds() (restore func()) {
	var lim syscall.Rlimit
	if err := syscall.Getrlimit(syscall.RLIMIT_NOFILE, &lim); err != nil {
		panic(err)
	}
	// find the lowest free descriptor: everything at or above it becomes unavailable
	f, err := os.Open("/dev/null")
	if err != nil {
		panic(err)
	}
	lowest := uint64(f.Fd())
	f.Close()
	low := lim
	low.Cur = lowest
	if err := syscall.Setrlimit(syscall.RLIMIT_NOFILE, &low); err != nil {
		panic(err)
	}
	return func() {
		if err := syscall.Setrlimit(syscall.RLIMIT_NOFILE, &lim); err != nil {
			panic(err)
		}
	}
}

func vxOpsString(ops []vxOp) string {
	s := make([]string, len(ops))
	for i, o := range ops {
		s[i] = o.String()
	}
	return strings.Join(s, " ; ")
}

func vxOpValid(o vxOp) bool {
	if o.Op == "reopen" {
		return true
	}
	if o.Kind < 0 || o.Kind > 1 || o.Fan < 0 || o.Fan >= len(vxFanIds) {
		return false
	}
	switch o.Op {
	case "save":
		return o.Val >= 0 && o.Val < len(vxVals)
	case "corrupt":
		return o.Val >= 0 && o.Val < len(vxCorrupt)
	case "load", "delete", "starved-load":
		return true
	case "save-noid":
		return o.Val >= 0 && o.Val < len(vxVals)
	}
	return false
}

// ---------------------------------------------------------------- reference model: two maps fan -> entry

const (
	vxAbsent  = 0
	vxStored  = 1
	vxGarbage = 2
)

type vxEnt struct {
	St  int8 // vxAbsent | vxStored (Idx = value index) | vxGarbage (Idx = corrupt variant)
	Idx int8
}

type vxModel [2][3]vxEnt // [kind][fan]

func (m vxModel) String() string {
	var b strings.Builder
	for k := 0; k < 2; k++ {
		if k > 0 {
			b.WriteString(" | ")
		}
		b.WriteString(vxKindName[k] + "{")
		first := true
		for f := 0; f < 3; f++ {
			e := m[k][f]
			if e.St == vxAbsent {
				continue
			}
			if !first {
				b.WriteString(",")
			}
			first = false
			if e.St == vxStored {
				b.WriteString(vxFanIds[f] + ":" + vxVals[e.Idx].Name)
			} else {
				b.WriteString(vxFanIds[f] + ":CORRUPT(" + vxCorrupt[e.Idx].Name + ")")
			}
		}
		b.WriteString("}")
	}
	return b.String()
}

// ---------------------------------------------------------------- the real system

type vxSys struct {
	p    Persistence
	path string
}

func vxNewSys(path string) *vxSys { return &vxSys{p: NewPersistence(path), path: path} }

type vxRes struct {
	Err   error
	Err2  error // save-noid: error of the load that follows an acknowledged save
	Panic string
	Rpm   map[int]float64
	Pwm   map[int]int
}

func vxCopyRpm(m map[int]float64) map[int]float64 {
	c := make(map[int]float64, len(m))
	for k, v := range m {
		c[k] = v
	}
	return c
}

func vxCopyPwm(m map[int]int) map[int]int {
	c := make(map[int]int, len(m))
	for k, v := range m {
		c[k] = v
	}
	return c
}

func vxFan(id string) *fans.HwMonFan {
	return &fans.HwMonFan{Label: id, Config: configuration.FanConfig{ID: id, Curve: "curve",
		HwMon: &configuration.HwMonFanConfig{Platform: "platform", Index: 1}}}
}

// vxRawPut writes raw bytes under the fan id directly with bbolt (the "corrupt" symbol and test setup).
func vxRawPut(path string, kind int, id string, raw []byte) error {
	db, err := bolt.Open(path, 0600, &bolt.Options{Timeout: 5 * time.Second})
	if err != nil {
		return err
	}
	defer db.Close()
	return db.Update(func(tx *bolt.Tx) error {
		b, err := tx.CreateBucketIfNotExists([]byte(vxBuckets[kind]))
		if err != nil {
			return err
		}
		return b.Put([]byte(id), raw)
	})
}

// apply runs one symbol on the real persistence; panics of the code under test are captured.
func (s *vxSys) apply(op vxOp) (res vxRes) {
	defer func() {
		if r := recover(); r != nil {
			res.Panic = fmt.Sprintf("%v", r)
			if res.Panic == "" {
				res.Panic = "ui.Fatal"
			}
		}
	}()
	if op.Op == "reopen" {
		s.p = NewPersistence(s.path)
		return
	}
	id := vxFanIds[op.Fan]
	switch op.Op {
	case "save":
		if op.Kind == 0 {
			m := vxCopyRpm(vxVals[op.Val].Rpm)
			fan := vxFan(id)
			fan.FanCurveData = &m
			res.Err = s.p.SaveFanPwmData(fan)
		} else {
			res.Err = s.p.SaveFanPwmMap(id, vxCopyPwm(vxVals[op.Val].Pwm))
		}
	case "load":
		if op.Kind == 0 {
			res.Rpm, res.Err = s.p.LoadFanPwmData(vxFan(id))
		} else {
			res.Pwm, res.Err = s.p.LoadFanPwmMap(id)
		}
	case "delete":
		if op.Kind == 0 {
			res.Err = s.p.DeleteFanPwmData(vxFan(id))
		} else {
			res.Err = s.p.DeleteFanPwmMap(id)
		}
	case "corrupt":
		res.Err = vxRawPut(s.path, op.Kind, id, vxCorrupt[op.Val].Bytes)
	case "starved-load":
		// the process is out of file descriptors for the duration of this one load (the database cannot be opened)
		restore := vxStarveFds()
		func() {
			defer restore()
			if op.Kind == 0 {
				res.Rpm, res.Err = s.p.LoadFanPwmData(vxFan(id))
			} else {
				res.Pwm, res.Err = s.p.LoadFanPwmMap(id)
			}
		}()
	case "save-noid":
		// a save the store must refuse (empty key); if it is nevertheless acknowledged it has to be loadable
		if op.Kind == 0 {
			m := vxCopyRpm(vxVals[op.Val].Rpm)
			fan := vxFan("")
			fan.FanCurveData = &m
			res.Err = s.p.SaveFanPwmData(fan)
			if res.Err == nil {
				res.Rpm, res.Err2 = s.p.LoadFanPwmData(vxFan(""))
			}
		} else {
			res.Err = s.p.SaveFanPwmMap("", vxCopyPwm(vxVals[op.Val].Pwm))
			if res.Err == nil {
				res.Pwm, res.Err2 = s.p.LoadFanPwmMap("")
			}
		}
	default:
		panic("vx: unknown op " + op.Op)
	}
	return
}

// ---------------------------------------------------------------- raw view of the database file

type vxRaw struct {
	NoFile   bool         // file absent or zero bytes
	Bucket   [2]bool      // bucket exists
	Ent      [2][3][]byte // nil = key absent
	Extra    []string     // buckets / keys nobody should have created
	CheckErr string       // bbolt's own structural check (only when deep)
}

func vxIndex(l []string, s string) int {
	for i, x := range l {
		if x == s {
			return i
		}
	}
	return -1
}

// vxRawView reads the logical content of both buckets through a read-only bbolt handle.
func vxRawView(path string, deep bool) (r vxRaw, err error) {
	st, e := os.Stat(path)
	if e != nil {
		if os.IsNotExist(e) {
			r.NoFile = true
			return r, nil
		}
		return r, e
	}
	if st.Size() == 0 {
		r.NoFile = true
		return r, nil
	}
	db, e := bolt.Open(path, 0600, &bolt.Options{Timeout: 5 * time.Second, ReadOnly: true})
	if e != nil {
		return r, e
	}
	defer db.Close()
	err = db.View(func(tx *bolt.Tx) error {
		e := tx.ForEach(func(name []byte, b *bolt.Bucket) error {
			ki := vxIndex(vxBuckets, string(name))
			if ki < 0 {
				r.Extra = append(r.Extra, "bucket "+strconv.Quote(string(name)))
				return nil
			}
			r.Bucket[ki] = true
			return b.ForEach(func(k, v []byte) error {
				fi := vxIndex(vxFanIds, string(k))
				if fi < 0 || v == nil {
					r.Extra = append(r.Extra, fmt.Sprintf("key %q in bucket %q", k, name))
					return nil
				}
				r.Ent[ki][fi] = append([]byte{}, v...)
				return nil
			})
		})
		if e != nil {
			return e
		}
		if deep {
			for ce := range tx.Check() {
				r.CheckErr += ce.Error() + "; "
			}
		}
		return nil
	})
	sort.Strings(r.Extra)
	return r, err
}

func vxHashBytes(b []byte) uint64 { h := fnv.New64a(); h.Write(b); return h.Sum64() }

// Key is the canonical state: which buckets exist and the exact stored bytes per fan id.
func (r vxRaw) Key() string {
	var b strings.Builder
	if r.NoFile {
		b.WriteString("nofile ")
	}
	for k := 0; k < 2; k++ {
		b.WriteString(vxBuckets[k])
		if !r.Bucket[k] {
			b.WriteString("=- ")
			continue
		}
		b.WriteString("=[")
		for f := 0; f < 3; f++ {
			if v := r.Ent[k][f]; v != nil {
				fmt.Fprintf(&b, "%s:%d:%016x,", vxFanIds[f], len(v), vxHashBytes(v))
			}
		}
		b.WriteString("] ")
	}
	for _, x := range r.Extra {
		b.WriteString("EXTRA " + x + " ")
	}
	return b.String()
}

// vxDecodeIdx: which catalogue value do these stored bytes denote (independent decoder: JSON object of
// decimal keys to numbers, parsed with strconv, compared bit-exactly)? -1 = none. Memoised.
var vxDecodeMemo = [2]map[string]int{{}, {}}

func vxDecodeIdx(kind int, raw []byte) int {
	if i, ok := vxDecodeMemo[kind][string(raw)]; ok {
		return i
	}
	idx := -1
	dec := json.NewDecoder(bytes.NewReader(raw))
	dec.UseNumber()
	var m map[string]json.Number
	if err := dec.Decode(&m); err == nil && m != nil && !dec.More() {
		for vi, v := range vxVals {
			if kind == 0 && len(m) == len(v.Rpm) {
				ok := true
				for k, n := range m {
					ki, e1 := strconv.Atoi(k)
					f, e2 := strconv.ParseFloat(string(n), 64)
					want, has := v.Rpm[ki]
					if e1 != nil || e2 != nil || !has || math.Float64bits(f) != math.Float64bits(want) {
						ok = false
						break
					}
				}
				if ok {
					idx = vi
					break
				}
			}
			if kind == 1 && len(m) == len(v.Pwm) {
				ok := true
				for k, n := range m {
					ki, e1 := strconv.Atoi(k)
					x, e2 := strconv.ParseInt(string(n), 10, 64)
					want, has := v.Pwm[ki]
					if e1 != nil || e2 != nil || !has || int(x) != want {
						ok = false
						break
					}
				}
				if ok {
					idx = vi
					break
				}
			}
		}
	}
	if len(vxDecodeMemo[kind]) < 4096 {
		vxDecodeMemo[kind][string(raw)] = idx
	}
	return idx
}

func vxClip(b []byte) string {
	if len(b) > 60 {
		return strconv.Quote(string(b[:60])) + fmt.Sprintf("...(%d bytes)", len(b))
	}
	return strconv.Quote(string(b))
}

// vxRawMatches lists the slots where the file content disagrees with the model (empty = agrees).
func vxRawMatches(m vxModel, r vxRaw) []string {
	var d []string
	for k := 0; k < 2; k++ {
		for f := 0; f < 3; f++ {
			e, b := m[k][f], r.Ent[k][f]
			slot := vxKindName[k] + "/" + vxFanIds[f]
			switch e.St {
			case vxAbsent:
				if b != nil {
					d = append(d, fmt.Sprintf("%s: expected no entry, file has %s", slot, vxClip(b)))
				}
			case vxStored:
				if b == nil {
					d = append(d, fmt.Sprintf("%s: expected value %q, file has no entry", slot, vxVals[e.Idx].Name))
				} else if vxDecodeIdx(k, b) != int(e.Idx) {
					d = append(d, fmt.Sprintf("%s: expected value %q, file has %s", slot, vxVals[e.Idx].Name, vxClip(b)))
				}
			case vxGarbage:
				if !bytes.Equal(b, vxCorrupt[e.Idx].Bytes) || b == nil {
					d = append(d, fmt.Sprintf("%s: expected the corrupt bytes %q, file has %s (nil=%v)", slot, vxCorrupt[e.Idx].Name, vxClip(b), b == nil))
				}
			}
		}
	}
	for _, x := range r.Extra {
		d = append(d, "unexpected "+x)
	}
	return d
}

// ---------------------------------------------------------------- oracle

type vxFail struct{ Sig, Msg string }

func vxEqRpm(a, b map[int]float64) string {
	if len(a) != len(b) {
		return fmt.Sprintf("%d entries loaded, %d saved", len(a), len(b))
	}
	for k, bv := range b {
		av, ok := a[k]
		if !ok {
			return fmt.Sprintf("key %d missing", k)
		}
		if math.Float64bits(av) != math.Float64bits(bv) {
			return fmt.Sprintf("key %d: loaded %v (bits %x), saved %v (bits %x)", k, av, math.Float64bits(av), bv, math.Float64bits(bv))
		}
	}
	return ""
}

func vxEqPwm(a, b map[int]int) string {
	if len(a) != len(b) {
		return fmt.Sprintf("%d entries loaded, %d saved", len(a), len(b))
	}
	for k, bv := range b {
		av, ok := a[k]
		if !ok {
			return fmt.Sprintf("key %d missing", k)
		}
		if av != bv {
			return fmt.Sprintf("key %d: loaded %d, saved %d", k, av, bv)
		}
	}
	return ""
}

// vxCheckRet checks the return value of one operation against the model state before it and returns
// the model state after it. cls classifies loads of corrupt entries (recorded, not judged: the
// property only demands that such an entry is discarded and later loads do not fail).
func vxCheckRet(mb vxModel, op vxOp, res vxRes) (ma vxModel, fails []vxFail, cls string) {
	ma = mb
	if op.Op == "reopen" {
		if res.Panic != "" {
			fails = append(fails, vxFail{"C14 panic in reopen", res.Panic})
		}
		return
	}
	kn := vxKindName[op.Kind]
	if res.Panic != "" {
		fails = append(fails, vxFail{"C14 panic in " + op.Op + " " + kn, "panic: " + res.Panic})
		return
	}
	cur := mb[op.Kind][op.Fan]
	n := len(res.Rpm) + len(res.Pwm)
	switch op.Op {
	case "save":
		if res.Err != nil {
			fails = append(fails, vxFail{"C14 save returned error " + kn, res.Err.Error()})
			return
		}
		ma[op.Kind][op.Fan] = vxEnt{vxStored, int8(op.Val)}
	case "corrupt":
		if res.Err != nil {
			fails = append(fails, vxFail{"C14 harness raw write failed", res.Err.Error()})
			return
		}
		ma[op.Kind][op.Fan] = vxEnt{vxGarbage, int8(op.Val)}
	case "delete":
		if res.Err != nil {
			fails = append(fails, vxFail{"C14 delete returned error " + kn, fmt.Sprintf("%v (entry before: %v)", res.Err, cur)})
			return
		}
		ma[op.Kind][op.Fan] = vxEnt{}
	case "starved-load":
		// the environment failed, not fan2go: an error is fine; a result must be the stored one; the store itself is checked by vxCheckRaw
		if res.Err == nil && cur.St == vxStored {
			var d string
			if op.Kind == 0 {
				d = vxEqRpm(res.Rpm, vxVals[cur.Idx].Rpm)
			} else {
				d = vxEqPwm(res.Pwm, vxVals[cur.Idx].Pwm)
			}
			if d != "" {
				fails = append(fails, vxFail{"C14 load returned different data " + kn, fmt.Sprintf("saved value %q: %s", vxVals[cur.Idx].Name, d)})
			}
		}
		if cur.St == vxGarbage && res.Err == nil {
			ma[op.Kind][op.Fan] = vxEnt{} // like load: an undecodable entry may be dropped by the load that finds it
		}
	case "save-noid":
		if res.Err == nil {
			d := ""
			if res.Err2 != nil {
				d = "the load that follows fails: " + res.Err2.Error()
			} else if op.Kind == 0 {
				d = vxEqRpm(res.Rpm, vxVals[op.Val].Rpm)
			} else {
				d = vxEqPwm(res.Pwm, vxVals[op.Val].Pwm)
			}
			if d != "" {
				fails = append(fails, vxFail{"C14 save acknowledged although nothing was stored " + kn, fmt.Sprintf("save under the empty fan id (refused by the store) returned nil; %s", d)})
			}
		}
	case "load":
		switch cur.St {
		case vxAbsent:
			if !errors.Is(res.Err, os.ErrNotExist) || n != 0 {
				fails = append(fails, vxFail{"C14 load of missing entry does not report not-found " + kn,
					fmt.Sprintf("error %v, %d map entries returned", res.Err, n)})
			}
		case vxStored:
			if res.Err != nil {
				fails = append(fails, vxFail{"C14 load of stored entry returned error " + kn, res.Err.Error()})
				return
			}
			var d string
			if op.Kind == 0 {
				d = vxEqRpm(res.Rpm, vxVals[cur.Idx].Rpm)
				if d == "" && res.Rpm == nil {
					d = "nil map"
				}
			} else {
				d = vxEqPwm(res.Pwm, vxVals[cur.Idx].Pwm)
				if d == "" && res.Pwm == nil {
					d = "nil map"
				}
			}
			if d != "" {
				fails = append(fails, vxFail{"C14 load returned different data " + kn, fmt.Sprintf("saved value %q: %s", vxVals[cur.Idx].Name, d)})
			}
		case vxGarbage:
			switch {
			case res.Err != nil && errors.Is(res.Err, os.ErrNotExist):
				cls = "not-found error"
			case res.Err != nil:
				cls = "other error"
			case n == 0:
				cls = "empty result, nil error"
			default:
				cls = "partially decoded map, nil error"
			}
			cls = vxCorrupt[cur.Idx].Name + " -> " + cls
			ma[op.Kind][op.Fan] = vxEnt{}
		}
	}
	return
}

func vxRelation(op vxOp, k, f int) string {
	switch {
	case k == op.Kind:
		return "same kind, other fan"
	case f == op.Fan:
		return "other kind, same fan"
	}
	return "other kind, other fan"
}

// vxCheckRaw: isolation and effect at the storage level. rb/ra = raw view before/after the operation.
func vxCheckRaw(ma vxModel, op vxOp, rb, ra vxRaw) (fails []vxFail) {
	if op.Op != "reopen" {
		for k := 0; k < 2; k++ {
			for f := 0; f < 3; f++ {
				if k == op.Kind && f == op.Fan {
					continue
				}
				if (rb.Ent[k][f] == nil) != (ra.Ent[k][f] == nil) || !bytes.Equal(rb.Ent[k][f], ra.Ent[k][f]) {
					fails = append(fails, vxFail{fmt.Sprintf("C14 isolation: %s %s changed entry of %s", op.Op, vxKindName[op.Kind], vxRelation(op, k, f)),
						fmt.Sprintf("%s changed %s/%s from %s (present=%v) to %s (present=%v)", op, vxKindName[k], vxFanIds[f],
							vxClip(rb.Ent[k][f]), rb.Ent[k][f] != nil, vxClip(ra.Ent[k][f]), ra.Ent[k][f] != nil)})
				}
			}
		}
	}
	if len(fails) == 0 {
		if d := vxRawMatches(ma, ra); len(d) > 0 {
			sig := "C14 stored content wrong after " + op.Op
			if op.Op != "reopen" {
				sig += " " + vxKindName[op.Kind]
				if len(ra.Extra) > 0 {
					sig = "C14 unexpected bucket or key after " + op.Op + " " + vxKindName[op.Kind]
				}
			}
			fails = append(fails, vxFail{sig, strings.Join(d, "\n")})
		}
	}
	return
}

// vxLoadAll loads every (fan, kind) twice through the real persistence and compares with the model.
// It consumes corrupt entries, so callers run it on a file whose state is not used afterwards.
func vxLoadAll(s *vxSys, m vxModel, fanSet []int, count func(string)) (fails []vxFail) {
	for pass := 0; pass < 2; pass++ {
		rb, err := vxRawView(s.path, false)
		if err != nil {
			return append(fails, vxFail{"C14 harness raw view failed", err.Error()})
		}
		for k := 0; k < 2; k++ {
			for _, f := range fanSet {
				op := vxOp{Op: "load", Kind: k, Fan: f}
				res := s.apply(op)
				ma, fl, cls := vxCheckRet(m, op, res)
				if cls != "" && count != nil {
					count(cls)
				}
				for _, x := range fl {
					x.Msg = fmt.Sprintf("read-back pass %d, %s: %s", pass+1, op, x.Msg)
					fails = append(fails, x)
				}
				m = ma
			}
		}
		ra, err := vxRawView(s.path, false)
		if err != nil {
			return append(fails, vxFail{"C14 harness raw view failed", err.Error()})
		}
		if d := vxRawMatches(m, ra); len(d) > 0 {
			fails = append(fails, vxFail{"C14 stored content wrong after loading every entry", fmt.Sprintf("pass %d: %s", pass+1, strings.Join(d, "\n"))})
		}
		if pass == 1 && rb.Key() != ra.Key() {
			fails = append(fails, vxFail{"C14 loads changed stored content", fmt.Sprintf("before: %s\nafter: %s", rb.Key(), ra.Key())})
		}
	}
	return
}

// ---------------------------------------------------------------- scratch + replay dispatch

func vxScratchRoot() string {
	return fmt.Sprintf("/dev/shm/verif-c14-%d", os.Getpid())
}

func vxCopyFile(src, dst string) error {
	b, err := os.ReadFile(src)
	if err != nil {
		if os.IsNotExist(err) {
			_ = os.Remove(dst)
			return nil
		}
		return err
	}
	return os.WriteFile(dst, b, 0600)
}

type vxC14Case struct {
	Part string   `json:"part"` // "a" | "b"
	A    *vxCaseA `json:"a,omitempty"`
	B    *vxCaseB `json:"b,omitempty"`
}

// vxReplayIfAsked runs exactly the case of $VERIF_REPLAY (either part) and reports whether it did.
func vxReplayIfAsked(t *testing.T, rep *mc.Report) bool {
	var c vxC14Case
	if !mc.ReplayCase(&c) {
		return false
	}
	root := vxScratchRoot()
	_ = os.MkdirAll(root, 0700)
	defer os.RemoveAll(root)
	switch {
	case c.A != nil:
		vxReplayA(rep, filepath.Join(root, "replay"), *c.A)
	case c.B != nil:
		vxReplayB(rep, filepath.Join(root, "replay"), *c.B)
	default:
		rep.HarnessError("replay file carries neither an 'a' nor a 'b' case")
	}
	return true
}
