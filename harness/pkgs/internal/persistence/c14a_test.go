package persistence

// C14 part (a): explicit-state BFS over operation histories on the REAL persistence (bbolt file on
// tmpfs). State = logical content of both buckets read through a raw bbolt view; successors by
// file-snapshot restore + one real operation (mc.BFS2); every newly discovered state is re-reached by
// replaying its whole shortest history on a fresh database file with one persistence object
// (snapshot abstraction validated), followed by loading every (fan, kind) twice against the model.

import (
	"fmt"
	"os"
	"path/filepath"
	"sort"
	"testing"
	"time"

	"github.com/markusressel/fan2go/internal/verifshim/mc"
)

type vxCfgA struct {
	Name      string `json:"name"`
	Family    string `json:"family,omitempty"`
	Sample    int    `json:"-"` // 0 none; 1 sample a load of a corrupt entry; 2 a load of a stored entry; 3 a delete
	Fans      []int  `json:"fans"`
	Vals      []int  `json:"vals"`
	Corr      []int  `json:"corr"`
	MaxDepth  int    `json:"maxDepth"`  // 0 = until the frontier closes
	MaxStates int    `json:"maxStates"` // 0 = none
}

type vxCaseA struct {
	Cfg vxCfgA `json:"cfg"`
	Ops []vxOp `json:"ops"`
}

func (c vxCfgA) alphabet() []vxOp {
	var a []vxOp
	for k := 0; k < 2; k++ {
		for _, f := range c.Fans {
			for _, v := range c.Vals {
				a = append(a, vxOp{"save", k, f, v})
			}
			a = append(a, vxOp{"load", k, f, 0}, vxOp{"delete", k, f, 0})
			if f == c.Fans[0] {
				a = append(a, vxOp{"starved-load", k, f, 0})
			}
			for _, x := range c.Corr {
				a = append(a, vxOp{"corrupt", k, f, x})
			}
		}
	}
	if len(c.Vals) > 0 {
		a = append(a, vxOp{"save-noid", 0, 0, c.Vals[len(c.Vals)-1]}, vxOp{"save-noid", 1, 0, c.Vals[len(c.Vals)-1]})
	}
	return append(a, vxOp{Op: "reopen"})
}

// cost = estimated number of transitions (for balancing configurations over shards)
func (c vxCfgA) cost() float64 {
	nsym := float64(len(c.alphabet()))
	slots := 2 * len(c.Fans)
	opts := float64(1 + len(c.Vals) + len(c.Corr))
	states := 1.0
	if c.MaxDepth == 0 {
		for i := 0; i < slots; i++ {
			states *= opts
		}
	} else {
		// states with at most MaxDepth-1 slots changed are expanded
		states = 0
		for d := 0; d < c.MaxDepth; d++ {
			t := 1.0
			for i := 0; i < d; i++ {
				t *= float64(slots-i) / float64(i+1) * (opts - 1)
			}
			states += t
		}
	}
	return states * nsym
}

func vxCfgsA() []vxCfgA {
	var out []vxCfgA
	all5, all3 := []int{0, 1, 2, 3, 4}, []int{0, 1, 2}
	fanPairs := [][]int{{0, 1}, {0, 2}, {1, 2}}
	var valPairs [][]int
	for i := 0; i < 5; i++ {
		for j := i + 1; j < 5; j++ {
			valPairs = append(valPairs, []int{i, j})
		}
	}
	th := mc.Thorough()
	// full alphabet (3 fans x 5 values x 3 corrupt variants, 61 symbols): depth-bounded
	d := 3
	if th {
		d = 4
	}
	out = append(out, vxCfgA{Name: "full-alphabet", Family: "full alphabet: 3 fans x 5 values x 3 corrupt variants", Sample: 1, Fans: all3, Vals: all5, Corr: all3, MaxDepth: d})
	// one fan, everything: closes
	for f := 0; f < 3; f++ {
		out = append(out, vxCfgA{Name: fmt.Sprintf("1fan(%d)-5val-3corr", f), Family: "1 fan x 5 values x 3 corrupt variants", Fans: []int{f}, Vals: all5, Corr: all3})
	}
	// two fans x two values x one corrupt variant: closes (every combination)
	for _, fp := range fanPairs {
		for _, vp := range valPairs {
			for c := 0; c < 3; c++ {
				out = append(out, vxCfgA{Name: fmt.Sprintf("2fans%v-2val%v-corr%d", fp, vp, c), Family: "2 fans x 2 values x 1 corrupt variant (every choice)", Fans: fp, Vals: vp, Corr: []int{c}})
			}
		}
	}
	// two fans, all corrupt variants, all values (6561 contents; thorough) / three values (2401 contents; quick): closes
	for i, fp := range fanPairs {
		if th {
			out = append(out, vxCfgA{Name: fmt.Sprintf("2fans%v-5val-3corr", fp), Family: "2 fans x 5 values x 3 corrupt variants", Sample: 2 * btoi(i == 0), Fans: fp, Vals: all5, Corr: all3})
		} else if i == 0 {
			out = append(out, vxCfgA{Name: fmt.Sprintf("2fans%v-3val[2 3 4]-3corr", fp), Family: "2 fans x 3 values x 3 corrupt variants", Sample: 2, Fans: fp, Vals: []int{2, 3, 4}, Corr: all3})
		}
	}
	// three fans x two values x one corrupt variant: closes (4096 contents)
	for i, vp := range valPairs {
		for c := 0; c < 3; c++ {
			if th || (c == i%3 && (vp[1]-vp[0] == 1 || (vp[0] == 0 && vp[1] == 4))) {
				out = append(out, vxCfgA{Name: fmt.Sprintf("3fans-2val%v-corr%d", vp, c), Family: "3 fans x 2 values x 1 corrupt variant", Sample: 3 * btoi(vp[0] == 2 && vp[1] == 3 && c == i%3), Fans: all3, Vals: vp, Corr: []int{c}})
			}
		}
	}
	if th {
		// three fans x three values x one corrupt variant (15625 contents)
		for i, vs := range [][]int{{0, 1, 2}, {2, 3, 4}, {0, 3, 4}, {1, 2, 3}} {
			out = append(out, vxCfgA{Name: fmt.Sprintf("3fans-3val%v-corr%d", vs, i%3), Family: "3 fans x 3 values x 1 corrupt variant", Fans: all3, Vals: vs, Corr: []int{i % 3}})
		}
		// three fans x two values x all corrupt variants (46656 contents)
		out = append(out, vxCfgA{Name: "3fans-2val[2 3]-3corr", Family: "3 fans x 2 values x 3 corrupt variants", Fans: all3, Vals: []int{2, 3}, Corr: all3})
	}
	return out
}

// vxSchedule lays the configurations out on index slots so that mc.Mine(slot) balances estimated cost
// over the shards (longest-processing-time first); -1 = empty slot.
func vxSchedule(cfgs []vxCfgA) []int {
	_, n := mc.Shard()
	order := make([]int, len(cfgs))
	for i := range order {
		order[i] = i
	}
	sort.SliceStable(order, func(a, b int) bool { return cfgs[order[a]].cost() > cfgs[order[b]].cost() })
	load := make([]float64, n)
	lists := make([][]int, n)
	for _, ci := range order {
		best := 0
		for s := 1; s < n; s++ {
			if load[s] < load[best] {
				best = s
			}
		}
		load[best] += cfgs[ci].cost()
		lists[best] = append(lists[best], ci)
	}
	maxLen := 0
	for _, l := range lists {
		if len(l) > maxLen {
			maxLen = len(l)
		}
	}
	slots := make([]int, maxLen*n)
	for i := range slots {
		slots[i] = -1
	}
	for s, l := range lists {
		for k, ci := range l {
			slots[k*n+s] = ci
		}
	}
	return slots
}

type vxSnapA struct {
	File  []byte // exact database file bytes (nil = no file yet); never modified in place
	Model vxModel
	Raw   vxRaw
}

func vxRestore(path string, file []byte) {
	if file == nil {
		_ = os.Remove(path)
		return
	}
	if err := os.WriteFile(path, file, 0600); err != nil {
		panic(err)
	}
}

func vxViolation(f vxFail, cfg vxCfgA, ops []vxOp, extra string) mc.Violation {
	return mc.Violation{Property: "C14", Signature: f.Sig,
		Detail: fmt.Sprintf("%s\nhistory: %s\nconfiguration: %s%s", f.Msg, vxOpsString(ops), cfg.Name, extra),
		Replay: vxC14Case{Part: "a", A: &vxCaseA{Cfg: cfg, Ops: ops}}}
}

// vxReplayFromScratch executes a whole history on a fresh database file with ONE persistence object,
// oracle on every step; returns the final state key, the final model and the violations.
func vxReplayFromScratch(path string, cfg vxCfgA, ops []vxOp, loadAllEveryStep bool, count func(string)) (string, vxModel, []mc.Violation) {
	_ = os.Remove(path)
	sys := vxNewSys(path)
	var m vxModel
	var viol []mc.Violation
	rb, err := vxRawView(path, false)
	if err != nil {
		panic(err)
	}
	for i, op := range ops {
		res := sys.apply(op)
		ma, fails, _ := vxCheckRet(m, op, res)
		ra, err := vxRawView(path, false)
		if err != nil {
			fails = append(fails, vxFail{"C14 database unreadable after " + op.Op, err.Error()})
		} else if len(fails) == 0 {
			fails = append(fails, vxCheckRaw(ma, op, rb, ra)...)
		}
		for _, f := range fails {
			viol = append(viol, vxViolation(f, cfg, ops[:i+1], ""))
		}
		m, rb = ma, ra
		if loadAllEveryStep && len(fails) == 0 {
			tmp := path + ".loadall"
			if err := vxCopyFile(path, tmp); err != nil {
				panic(err)
			}
			for _, f := range vxLoadAll(vxNewSys(tmp), m, cfg.Fans, count) {
				viol = append(viol, vxViolation(f, cfg, ops[:i+1], "\n(read-back of every entry after the last step)"))
			}
			_ = os.Remove(tmp)
		}
	}
	return rb.Key(), m, viol
}

func vxRunCfgA(rep *mc.Report, dir string, cfg vxCfgA, deadline time.Time) {
	alpha := cfg.alphabet()
	work := filepath.Join(dir, "work.db")
	replay := filepath.Join(dir, "replay.db")
	sys := vxNewSys(work)
	toOps := func(path []int, extra int) []vxOp {
		ops := make([]vxOp, 0, len(path)+1)
		for _, p := range path {
			ops = append(ops, alpha[p])
		}
		if extra >= 0 {
			ops = append(ops, alpha[extra])
		}
		return ops
	}
	countCls := func(cls string) { rep.Count("load of corrupt entry: "+cls, 1) }
	var sample any
	model := mc.Model[*vxSnapA]{
		NSym: len(alpha),
		Init: func() (*vxSnapA, string) {
			_ = os.Remove(work)
			r, err := vxRawView(work, false)
			if err != nil {
				panic(err)
			}
			return &vxSnapA{Raw: r}, r.Key()
		},
		Clone: func(s *vxSnapA) *vxSnapA { c := *s; return &c },
		Step: func(s *vxSnapA, path []int, sym int) (string, []mc.Violation) {
			op := alpha[sym]
			vxRestore(work, s.File)
			res := sys.apply(op)
			rep.Evaluations++
			ma, fails, cls := vxCheckRet(s.Model, op, res)
			if cls != "" {
				countCls(cls)
			}
			ra, err := vxRawView(work, false)
			if err != nil {
				fails = append(fails, vxFail{"C14 database unreadable after " + op.Op, err.Error()})
			} else if len(fails) == 0 {
				fails = append(fails, vxCheckRaw(ma, op, s.Raw, ra)...)
			}
			var viol []mc.Violation
			for _, f := range fails {
				viol = append(viol, vxViolation(f, cfg, toOps(path, sym), ""))
			}
			if len(viol) > 0 {
				return "VIOLATION", viol
			}
			b, err := os.ReadFile(work)
			if err != nil {
				if !os.IsNotExist(err) {
					panic(err)
				}
				b = nil
			}
			s.File, s.Model, s.Raw = b, ma, ra
			if sample == nil && len(path) == 2 && ((cfg.Sample == 1 && cls != "") || (cfg.Sample == 2 && op.Op == "load" && cls == "" && res.Err == nil && len(res.Rpm)+len(res.Pwm) > 2) || (cfg.Sample == 3 && op.Op == "delete" && path[1] != sym-1 && alpha[path[0]].Op == "save" && alpha[path[1]].Op == "corrupt")) {
				sample = map[string]any{"configuration": cfg.Name, "history": vxOpsString(toOps(path, sym)), "model_after": ma.String(), "state_key": ra.Key(),
					"last_op_returned": fmt.Sprintf("err=%v, %d map entries", res.Err, len(res.Rpm)+len(res.Pwm))}
			}
			return ra.Key(), nil
		},
		Replay: func(path []int) string {
			ops := toOps(path, -1)
			key, m, viol := vxReplayFromScratch(replay, cfg, ops, false, nil)
			rep.Count("new-state validations (history replayed on a fresh file, then every entry loaded twice)", 1)
			for _, v := range viol {
				rep.Violate(v)
			}
			if len(viol) == 0 {
				// read every (fan, kind) back through the real code; the replay file is scratch from here on
				for _, f := range vxLoadAll(vxNewSys(replay), m, cfg.Fans, countCls) {
					rep.Violate(vxViolation(f, cfg, ops, "\n(read-back of every entry in the state reached by this history)"))
				}
			}
			return key
		},
	}
	o := mc.BFSOpts{NSym: len(alpha), MaxDepth: cfg.MaxDepth, MaxStates: cfg.MaxStates, Deadline: deadline}
	st := mc.BFS2(rep, o, model)
	rep.Configs++
	rep.States += int64(st.States)
	rep.Transitions += st.Transitions
	rep.AddDistinct(int64(st.States))
	if st.Closed {
		rep.Count("configurations whose frontier closed", 1)
	} else if cfg.MaxDepth > 0 && st.Depth >= cfg.MaxDepth {
		rep.Count("configurations explored to their depth bound", 1)
		rep.Cap(fmt.Sprintf("configuration %s (%d symbols): all histories to depth %d only (%d states)", cfg.Name, len(alpha), cfg.MaxDepth, st.States))
	} else {
		rep.Count("configurations cut by deadline or state cap", 1)
		rep.Cap(fmt.Sprintf("configuration %s: deadline/state cap reached at depth %d (%d states)", cfg.Name, st.Depth, st.States))
	}
	rep.Count("family ["+cfg.Family+"]: configurations", 1)
	rep.Count("family ["+cfg.Family+"]: states", int64(st.States))
	rep.Count("family ["+cfg.Family+"]: transitions", st.Transitions)
	rep.Note(fmt.Sprintf("family [%s]: per configuration %d symbols, %d states, %d transitions, search depth %d, frontier closed=%v", cfg.Family, len(alpha), st.States, st.Transitions, st.Depth, st.Closed))
	if sample != nil {
		rep.Sample(sample)
	}
}

func vxReplayA(rep *mc.Report, dir string, c vxCaseA) {
	_ = os.MkdirAll(dir, 0700)
	for _, op := range c.Ops {
		if !vxOpValid(op) {
			rep.HarnessError(fmt.Sprintf("invalid operation in replay case: %+v", op))
			return
		}
	}
	if len(c.Cfg.Fans) == 0 {
		c.Cfg.Fans = []int{0, 1, 2}
	}
	_, _, viol := vxReplayFromScratch(filepath.Join(dir, "replay.db"), c.Cfg, c.Ops, true, nil)
	for _, v := range viol {
		rep.Violate(v)
	}
	rep.Evaluations = int64(len(c.Ops))
}

func TestVX_C14a(t *testing.T) {
	rep := mc.NewReport("C14", "persistence/kv-histories")
	defer rep.Write()
	if vxReplayIfAsked(t, rep) {
		return
	}
	root := vxScratchRoot()
	dir := filepath.Join(root, "a")
	if err := os.MkdirAll(dir, 0700); err != nil {
		t.Fatal(err)
	}
	defer os.RemoveAll(root)
	cfgs := vxCfgsA()
	deadline := mc.Deadline(70*time.Second, 10*time.Minute)
	for slot, ci := range vxSchedule(cfgs) {
		if ci < 0 || !mc.Mine(slot) {
			continue
		}
		if mc.RealNow().After(deadline) {
			rep.Cap("deadline reached before configuration " + cfgs[ci].Name)
			continue
		}
		vxRunCfgA(rep, dir, cfgs[ci], deadline)
	}
	rep.Note("state = which buckets exist + exact stored bytes per (kind, fan id) read through a read-only bbolt handle; " +
		"oracle per transition: return value vs two-map model, every other (fan, kind) entry byte-identical before/after, target entry as the model says; " +
		"every new state: shortest history replayed on a fresh file, then every (fan, kind) loaded twice and compared (exact float bits); " +
		"load symbols are part of the alphabet, so every expanded state is also loaded entry by entry; " +
		"distinct_nontrivial = distinct reachable states summed over configurations (configurations overlap in the states they share)")
	rep.Note("observed, not judged (the property only demands that an undecodable entry is discarded and later loads do not fail): the first load of an " +
		"undecodable entry returns a nil error with an empty map (syntax error / wrong JSON type) or with the partially decoded map (half-valid object); see counters 'load of corrupt entry: ...'")
}
