package configuration

// C18 (run 2 of 2): the permission rule applied to the configuration file itself.
//
// A real YAML configuration file under /dev/shm/verif-c18cfg-<pid>/ is loaded through viper
// (InitConfig + readInConfig + LoadConfig) in four variants - no cmd entry, cmd sensor only, cmd fan
// only, both - and then put through owner {0,1234} x group {0,1234} x all 512 modes x {direct path,
// symlink} = 4096 states per variant, each judged by the real Validate(path); then all ordered pairs
// of 32 core states as "validate, chown/chmod, validate again".
// Oracle: the configuration declares a cmd sensor or fan and the file is not (root-owned, not writable
// by a non-root group, not writable by others) => Validate returns an error.

import (
	"fmt"
	"os"
	"path/filepath"
	"strings"
	"testing"

	"github.com/markusressel/fan2go/internal/verifshim/mc"
	"github.com/markusressel/fan2go/internal/verifshim/vcmd"
	"github.com/pterm/pterm"
	"github.com/spf13/viper"
)

func init() {
	pterm.DisableOutput()
	os.Unsetenv("DISPLAY")
}

type vxC18CfgCase struct {
	Config  string         `json:"config"` // none | cmd-sensor | cmd-fan | both
	Symlink bool           `json:"symlink"`
	A       vcmd.PermState `json:"a"`
	HasB    bool           `json:"hasB"`
	B       vcmd.PermState `json:"b"`
}

func (c vxC18CfgCase) String() string {
	how := "direct path"
	if c.Symlink {
		how = "via symlink"
	}
	if c.HasB {
		return fmt.Sprintf("config[%s] file %v -> chown/chmod -> %v, %s", c.Config, c.A, c.B, how)
	}
	return fmt.Sprintf("config[%s] file %v, %s", c.Config, c.A, how)
}

// "unused-cmd-sensor": the only cmd entry is a sensor that no curve references (the daemon still polls it);
// "second-cmd-sensor" / "second-cmd-fan": the cmd entry is not the first entry of its list
// "cmd-sensor-no-fans": a monitoring-only configuration (cmd sensor, curve, no fan entry at all)
var vxC18Variants = []string{"none", "cmd-sensor", "cmd-fan", "both", "unused-cmd-sensor", "second-cmd-sensor", "second-cmd-fan", "cmd-sensor-no-fans"}

func vxC18Yaml(variant, dir string) string {
	fileSensor := "    file:\n      path: " + filepath.Join(dir, "temp_input") + "\n"
	cmdSensor := "    cmd:\n      exec: /bin/echo\n      args: [\"42000\"]\n"
	fileFan := "    file:\n      path: " + filepath.Join(dir, "pwm") + "\n      rpmPath: " + filepath.Join(dir, "rpm") + "\n"
	cmdFan := "    cmd:\n      setPwm:\n        exec: /bin/true\n        args: [\"%pwm%\"]\n      getPwm:\n        exec: /bin/echo\n        args: [\"128\"]\n"
	sensors := "  - id: s1\n" + fileSensor
	fans := "  - id: f1\n    curve: c1\n    neverStop: false\n" + fileFan
	curves := "  - id: c1\n    linear:\n      sensor: s1\n      min: 40\n      max: 80\n"
	switch variant {
	case "cmd-sensor":
		sensors = "  - id: s1\n" + cmdSensor
	case "cmd-fan":
		fans = "  - id: f1\n    curve: c1\n    neverStop: false\n" + cmdFan
	case "both":
		sensors = "  - id: s1\n" + cmdSensor
		fans = "  - id: f1\n    curve: c1\n    neverStop: false\n" + cmdFan
	case "cmd-sensor-no-fans":
		sensors = "  - id: s1\n" + cmdSensor
		return "dbPath: " + filepath.Join(dir, "fan2go.db") + "\n" + "sensors:\n" + sensors + "curves:\n" + curves
	case "unused-cmd-sensor":
		sensors += "  - id: s2\n" + cmdSensor
	case "second-cmd-sensor":
		sensors += "  - id: s2\n" + cmdSensor
		curves += "  - id: c2\n    linear:\n      sensor: s2\n      min: 40\n      max: 80\n"
		fans += "  - id: f2\n    curve: c2\n    neverStop: false\n    file:\n      path: " + filepath.Join(dir, "pwm2") + "\n"
	case "second-cmd-fan":
		fans += "  - id: f2\n    curve: c1\n    neverStop: false\n" + cmdFan
	}
	return "dbPath: " + filepath.Join(dir, "fan2go.db") + "\n" + "sensors:\n" + sensors + "curves:\n" + curves + "fans:\n" + fans
}

// vxC18Load writes the variant's YAML to path and loads it the way fan2go does at start-up.
func vxC18Load(variant, dir, path string) error {
	if err := os.WriteFile(path, []byte(vxC18Yaml(variant, dir)), 0o644); err != nil {
		return err
	}
	viper.Reset()
	InitConfig(path)
	if err := readInConfig(); err != nil {
		return fmt.Errorf("readInConfig: %v", err)
	}
	LoadConfig()
	nCmdSensors, nCmdFans := 0, 0
	for _, x := range CurrentConfig.Sensors {
		if x.Cmd != nil {
			nCmdSensors++
		}
	}
	for _, x := range CurrentConfig.Fans {
		if x.Cmd != nil {
			nCmdFans++
		}
	}
	wantSensor := variant == "cmd-sensor" || variant == "both" || variant == "unused-cmd-sensor" || variant == "second-cmd-sensor" || variant == "cmd-sensor-no-fans"
	wantFan := variant == "cmd-fan" || variant == "both" || variant == "second-cmd-fan"
	if (nCmdSensors > 0) != wantSensor || (nCmdFans > 0) != wantFan || len(CurrentConfig.Sensors) == 0 || (len(CurrentConfig.Fans) == 0) != (variant == "cmd-sensor-no-fans") {
		return fmt.Errorf("variant %s: loaded %d sensors (%d cmd), %d curves, %d fans (%d cmd)", variant, len(CurrentConfig.Sensors), nCmdSensors, len(CurrentConfig.Curves), len(CurrentConfig.Fans), nCmdFans)
	}
	return nil
}

func vxC18Validate(path string) (err error, panicked string) {
	defer func() {
		if x := recover(); x != nil {
			panicked = fmt.Sprint(x)
		}
	}()
	return Validate(path), ""
}

func vxC18Judge(rep *mc.Report, c vxC18CfgCase, call string, st vcmd.PermState, err error, panicked string) {
	hasCmd := c.Config != "none"
	how := "direct"
	if c.Symlink {
		how = "symlink"
	}
	if panicked != "" {
		rep.Count("panics (left to C19)", 1)
	}
	allowed := vcmd.Allowed(st.Uid, st.Gid, st.Mode)
	switch {
	case !hasCmd:
		// the rule does not apply; recorded only
		if err == nil {
			rep.Count("no cmd entry: accepted (rule not applicable)", 1)
		} else {
			rep.Count("no cmd entry: rejected", 1)
		}
	case allowed:
		if err == nil {
			rep.Count("cmd entry, allowed file: accepted", 1)
		} else {
			rep.Count("cmd entry, allowed file: rejected", 1)
		}
	default:
		rep.Count("cmd entry, disallowed file", 1)
		if err == nil && panicked == "" {
			why := vcmd.WhyNot(st.Uid, st.Gid, st.Mode)
			pre := "C18 config file: "
			if call == "second" {
				pre = "C18 config file, second validation after change: "
			}
			rep.Violate(mc.Violation{Signature: pre + "accepted although disallowed (" + c.Config + ", " + why + ", " + how + ")",
				Detail: fmt.Sprintf("%v: %s Validate returned no error although the configuration declares a cmd entry and the file is %v [%s]", c, call, st, why), Replay: c})
		} else if err != nil && !strings.Contains(err.Error(), "permission") {
			rep.Count("cmd entry, disallowed file: rejected with another error", 1)
		}
	}
}

func vxC18RunCase(rep *mc.Report, dir string, c vxC18CfgCase, loaded *string) {
	file := filepath.Join(dir, "fan2go-"+c.Config+".yaml")
	link := filepath.Join(dir, "fan2go-"+c.Config+"-link.yaml")
	if *loaded != c.Config {
		_ = os.Remove(link)
		if err := vxC18Load(c.Config, dir, file); err != nil {
			rep.HarnessError(err.Error())
			return
		}
		if err := os.Symlink(file, link); err != nil {
			rep.HarnessError(err.Error())
			return
		}
		*loaded = c.Config
	}
	path := file
	if c.Symlink {
		path = link
	}
	rep.Evaluations++
	if err := c.A.Apply(file); err != nil {
		panic(err)
	}
	err, p := vxC18Validate(path)
	vxC18Judge(rep, c, "first", c.A, err, p)
	if c.HasB {
		if err := c.B.Apply(file); err != nil {
			panic(err)
		}
		err, p = vxC18Validate(path)
		vxC18Judge(rep, c, "second", c.B, err, p)
	}
}

func TestVX_C18config(t *testing.T) {
	rep := mc.NewReport("C18", "configuration/validate")
	defer rep.Write()
	sc := vcmd.NewScratch("c18cfg")
	defer sc.Close()
	loaded := ""

	var rc vxC18CfgCase
	if mc.ReplayCase(&rc) {
		if rc.Config == "" {
			rep.HarnessError("replay case belongs to TestVX_C18 (executable grid)")
			return
		}
		vxC18RunCase(rep, sc.Dir, rc, &loaded)
		return
	}

	var n1, n2 int64
	for vi, variant := range vxC18Variants {
		if !mc.Mine(vi) {
			continue
		}
		for _, uid := range vcmd.Owners {
			for _, gid := range vcmd.Owners {
				for mode := 0; mode < 512; mode++ {
					for _, link := range []bool{false, true} {
						vxC18RunCase(rep, sc.Dir, vxC18CfgCase{Config: variant, Symlink: link, A: vcmd.PermState{Uid: uid, Gid: gid, Mode: os.FileMode(mode)}}, &loaded)
						n1++
					}
				}
			}
		}
		core := vcmd.CoreStates()
		for _, a := range core {
			for _, b := range core {
				for _, link := range []bool{false, true} {
					vxC18RunCase(rep, sc.Dir, vxC18CfgCase{Config: variant, Symlink: link, A: a, HasB: true, B: b}, &loaded)
					n2++
				}
			}
		}
	}
	rep.Count("config grid cases (variant x owner x group x 512 modes x direct/symlink)", n1)
	rep.Count("config change-between-validations pairs", n2)
	rep.AddDistinct(n1 + n2)
	rep.Configs = n1 + n2
	if s, _ := mc.Shard(); s == 0 {
		rep.Sample(map[string]any{"config": "cmd-sensor", "file": "0:0 0646 direct", "expect": "Validate returns 'invalid permissions' error"})
		rep.Sample(map[string]any{"config": "none", "file": "1234:1234 0777", "expect": "rule not applicable (recorded only)"})
		rep.Note("configuration variants: " + strings.Join(vxC18Variants, ", ") + "; each is a complete valid YAML file (1 sensor, 1 linear curve, 1 fan) loaded through viper like at start-up, then validated with the real Validate(path)")
	}
}
