package configuration

// C08 (option run): the smoothing window the user states reaches the sensor monitor. The sensor runs set
// CurrentConfig.TempRollingWindowSize directly; this run loads every stated window size through the real start-up path
// (viper.Reset, InitConfig, readInConfig, LoadConfig), from the file or from the environment, next to other window and
// polling options. Oracle: CurrentConfig.TempRollingWindowSize / RpmRollingWindowSize equal the stated value (default 10).

import (
	"fmt"
	"os"
	"path/filepath"
	"strconv"
	"testing"

	"github.com/markusressel/fan2go/internal/verifshim/mc"
	"github.com/markusressel/fan2go/internal/verifshim/vcmd"
)

type vxC08OptCase struct {
	Temp    int    `json:"temp"` // 0 = not stated
	Rpm     int    `json:"rpm"`  // 0 = not stated
	EnvTemp int    `json:"envTemp"`
	Others  string `json:"others"`
	C08Opt  bool   `json:"c08opt"`
}

func (c vxC08OptCase) String() string {
	return fmt.Sprintf("file: tempRollingWindowSize=%s rpmRollingWindowSize=%s; environment TEMPROLLINGWINDOWSIZE=%s; other settings %q",
		vxC08Stated(c.Temp), vxC08Stated(c.Rpm), vxC08Stated(c.EnvTemp), c.Others)
}

func vxC08Stated(v int) string {
	if v == 0 {
		return "(not stated)"
	}
	return strconv.Itoa(v)
}

func vxC08OptRun(rep *mc.Report, dir string, c vxC08OptCase) {
	rep.Evaluations++
	path := filepath.Join(dir, "fan2go.yaml")
	others := c.Others
	if c.Temp != 0 {
		others += fmt.Sprintf("tempRollingWindowSize: %d\n", c.Temp)
	}
	if c.Rpm != 0 {
		others += fmt.Sprintf("rpmRollingWindowSize: %d\n", c.Rpm)
	}
	if err := os.WriteFile(path, []byte(vxC16OptYaml(dir, "", "", false, others)), 0o644); err != nil {
		rep.HarnessError(err.Error())
		return
	}
	os.Unsetenv("TEMPROLLINGWINDOWSIZE")
	if c.EnvTemp != 0 {
		os.Setenv("TEMPROLLINGWINDOWSIZE", strconv.Itoa(c.EnvTemp))
		defer os.Unsetenv("TEMPROLLINGWINDOWSIZE")
	}
	_, fail := vxC16OptLoad(path)
	if fail != "" {
		rep.Violate(mc.Violation{Property: "C08", Signature: "C08 option: configuration stating the rolling window sizes cannot be loaded", Detail: c.String() + ": " + fail, Replay: c})
		return
	}
	wantTemp, wantRpm := 10, 10
	if c.Temp != 0 {
		wantTemp = c.Temp
	}
	if c.EnvTemp != 0 {
		wantTemp = c.EnvTemp
	}
	if c.Rpm != 0 {
		wantRpm = c.Rpm
	}
	gotTemp, gotRpm := CurrentConfig.TempRollingWindowSize, CurrentConfig.RpmRollingWindowSize
	rep.Outcome(fmt.Sprintf("%d/%d/%d/%d/%s", wantTemp, wantRpm, gotTemp, gotRpm, c.Others))
	if gotTemp != wantTemp {
		rep.Violate(mc.Violation{Property: "C08", Signature: "C08 option: stated tempRollingWindowSize does not reach the sensor monitor",
			Detail: fmt.Sprintf("%v: after InitConfig+readInConfig+LoadConfig CurrentConfig.TempRollingWindowSize = %d, stated %d: readings are smoothed with the factor 1-1/%d instead of 1-1/%d", c, gotTemp, wantTemp, gotTemp, wantTemp), Replay: c})
	}
	if gotRpm != wantRpm {
		rep.Violate(mc.Violation{Property: "C08", Signature: "C08 option: stated rpmRollingWindowSize does not reach the RPM monitor",
			Detail: fmt.Sprintf("%v: CurrentConfig.RpmRollingWindowSize = %d, stated %d", c, gotRpm, wantRpm), Replay: c})
	}
}

func TestVX_C08option(t *testing.T) {
	rep := mc.NewReport("C08", "configuration/window-option-loading")
	defer rep.Write()
	sc := vcmd.NewScratch("c08opt")
	defer sc.Close()
	var rc vxC08OptCase
	if mc.ReplayCase(&rc) {
		if !rc.C08Opt {
			return
		}
		vxC08OptRun(rep, sc.Dir, rc)
		return
	}
	sizes := []int{0, 1, 2, 3, 9, 10, 11, 50, 1000}
	var cases []vxC08OptCase
	for _, others := range []string{"", "tempSensorPollingRate: 50ms\nrpmPollingRate: 2s\n", "controllerAdjustmentTickRate: 1s\nfanResponseDelay: 0\n"} {
		for _, temp := range sizes {
			for _, rpm := range sizes {
				cases = append(cases, vxC08OptCase{Temp: temp, Rpm: rpm, Others: others, C08Opt: true})
			}
			for _, e := range []int{1, 2, 10, 50} {
				cases = append(cases, vxC08OptCase{Temp: temp, EnvTemp: e, Others: others, C08Opt: true})
			}
		}
	}
	for i, c := range cases {
		if !mc.Mine(i) {
			continue
		}
		vxC08OptRun(rep, sc.Dir, c)
	}
	rep.Note("every stated window size {1,2,3,9,10,11,50,1000, not stated} for temperatures x RPM, from the file or the environment, loaded through the real start-up path; oracle: the stated value (default 10) is the one the monitors use")
}
