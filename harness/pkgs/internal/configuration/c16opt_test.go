package configuration

// C16 (run 2 of 2): the option that decides whether the analysis lock is taken, on its way from the user to the
// controller. The controller run (internal/controller TestVX_C16) sets CurrentConfig.RunFanInitializationInParallel
// directly; this run enumerates every way a user can state the option and loads it the way fan2go does at start-up
// (viper.Reset, InitConfig, readInConfig, LoadConfig): configuration file {absent, true, false} x spelling of the key x
// position in the file x environment variable {unset, false, true, 0, 1} x previous load in the same process
// {none, the opposite value}, and the option next to boundary values of every other top-level setting. Oracle (from the documented precedence environment > file > default true):
// CurrentConfig.RunFanInitializationInParallel after loading.

import (
	"fmt"
	"os"
	"path/filepath"
	"strconv"
	"strings"
	"testing"

	"github.com/markusressel/fan2go/internal/verifshim/mc"
	"github.com/markusressel/fan2go/internal/verifshim/vcmd"
	"github.com/spf13/viper"
)

type vxC16OptCase struct {
	File     string `json:"file"`     // "" (not mentioned) | "true" | "false"
	Key      string `json:"key"`      // spelling of the key in the file
	Last     bool   `json:"last"`     // key is the last entry of the file instead of the first
	Env      string `json:"env"`      // "" (unset) or the value of RUNFANINITIALIZATIONINPARALLEL
	Previous string `json:"previous"` // "" or the value of the option in a configuration loaded before in the same process
	Others   string `json:"others"`   // other top-level settings stated in the same file ("" or YAML lines)
}

func (c vxC16OptCase) String() string {
	f := "not mentioned in the file"
	if c.File != "" {
		pos := "first"
		if c.Last {
			pos = "last"
		}
		f = fmt.Sprintf("%s: %s (%s entry of the file)", c.Key, c.File, pos)
	}
	e := "environment variable unset"
	if c.Env != "" {
		e = "RUNFANINITIALIZATIONINPARALLEL=" + c.Env
	}
	p := ""
	if c.Previous != "" {
		p = ", after a configuration with the value " + c.Previous + " was loaded in the same process"
	}
	o := ""
	if c.Others != "" {
		o = ", next to " + strings.ReplaceAll(strings.TrimSpace(c.Others), "\n", "; ")
	}
	return f + ", " + e + p + o
}

const vxC16EnvName = "RUNFANINITIALIZATIONINPARALLEL"

func vxC16OptYaml(dir, key, val string, last bool, others string) string {
	body := others + "dbPath: " + filepath.Join(dir, "fan2go.db") + "\n" +
		"sensors:\n  - id: s1\n    file:\n      path: " + filepath.Join(dir, "temp_input") + "\n" +
		"curves:\n  - id: c1\n    linear:\n      sensor: s1\n      min: 40\n      max: 80\n" +
		"fans:\n  - id: f1\n    curve: c1\n    file:\n      path: " + filepath.Join(dir, "pwm") + "\n"
	if val == "" {
		return body
	}
	if last {
		return body + key + ": " + val + "\n"
	}
	return key + ": " + val + "\n" + body
}

func vxC16OptLoad(path string) (val bool, fail string) {
	defer func() {
		if x := recover(); x != nil {
			fail = fmt.Sprint("panic: ", x)
		}
	}()
	viper.Reset()
	InitConfig(path)
	if err := readInConfig(); err != nil {
		return false, "readInConfig: " + err.Error()
	}
	LoadConfig()
	if len(CurrentConfig.Fans) != 1 {
		return false, fmt.Sprintf("loaded %d fans", len(CurrentConfig.Fans))
	}
	return CurrentConfig.RunFanInitializationInParallel, ""
}

func vxC16OptRun(rep *mc.Report, dir string, c vxC16OptCase) {
	rep.Evaluations++
	path := filepath.Join(dir, "fan2go.yaml")
	os.Unsetenv(vxC16EnvName)
	if c.Previous != "" {
		prev := filepath.Join(dir, "previous.yaml")
		if err := os.WriteFile(prev, []byte(vxC16OptYaml(dir, "runFanInitializationInParallel", c.Previous, false, "")), 0o644); err != nil {
			rep.HarnessError(err.Error())
			return
		}
		if _, fail := vxC16OptLoad(prev); fail != "" {
			rep.HarnessError(fail)
			return
		}
	}
	if err := os.WriteFile(path, []byte(vxC16OptYaml(dir, c.Key, c.File, c.Last, c.Others)), 0o644); err != nil {
		rep.HarnessError(err.Error())
		return
	}
	if c.Env != "" {
		os.Setenv(vxC16EnvName, c.Env)
		defer os.Unsetenv(vxC16EnvName)
	}
	got, fail := vxC16OptLoad(path)
	want := true
	src := "default"
	if c.File != "" {
		want, _ = strconv.ParseBool(c.File)
		src = "file"
	}
	if c.Env != "" {
		want, _ = strconv.ParseBool(c.Env)
		src = "environment"
	}
	rep.Count(fmt.Sprintf("option decided by the %s: %v", src, want), 1)
	rep.Outcome(fmt.Sprintf("%s/%v/%v/%s/%v/%s/%s", src, want, got, c.Key, c.Last, c.Previous, c.Others))
	if fail != "" {
		rep.Violate(mc.Violation{Signature: "C16 option: configuration stating runFanInitializationInParallel cannot be loaded", Detail: c.String() + ": " + fail, Replay: c})
		return
	}
	if got != want {
		sig := fmt.Sprintf("C16 option: runFanInitializationInParallel stated as %v (%s) reaches the controller as %v", want, src, got)
		rep.Violate(mc.Violation{Signature: sig,
			Detail: fmt.Sprintf("%v: after InitConfig+readInConfig+LoadConfig CurrentConfig.RunFanInitializationInParallel = %v, stated %v; with the value %v the analysis lock is %s", c, got, want, got,
				map[bool]string{true: "never taken, so analyses overlap", false: "taken although the user allowed parallel analyses"}[got]), Replay: c})
	}
}

func TestVX_C16option(t *testing.T) {
	rep := mc.NewReport("C16", "configuration/option-loading")
	defer rep.Write()
	sc := vcmd.NewScratch("c16opt")
	defer sc.Close()
	var rc vxC16OptCase
	if mc.ReplayCase(&rc) {
		if rc.Key == "" && rc.File == "" && rc.Env == "" && rc.Previous == "" && rc.Others == "" {
			return
		}
		vxC16OptRun(rep, sc.Dir, rc)
		return
	}
	var cases []vxC16OptCase
	for _, prev := range []string{"", "true", "false"} {
		for _, env := range []string{"", "false", "true", "0", "1", "FALSE", "True"} {
			cases = append(cases, vxC16OptCase{Env: env, Previous: prev})
			for _, file := range []string{"true", "false"} {
				for _, key := range []string{"runFanInitializationInParallel", "RunFanInitializationInParallel", "runfaninitializationinparallel"} {
					for _, last := range []bool{false, true} {
						cases = append(cases, vxC16OptCase{File: file, Key: key, Last: last, Env: env, Previous: prev})
					}
				}
			}
		}
	}
	// the option next to boundary values of every other top-level setting: it must not depend on them
	for _, others := range []string{"fanResponseDelay: 0\n", "fanResponseDelay: -1\n", "maxRpmDiffForSettledFan: 0\n", "maxRpmDiffForSettledFan: -5\n",
		"fanResponseDelay: 0\nmaxRpmDiffForSettledFan: 0\n", "tempRollingWindowSize: 1\nrpmRollingWindowSize: 1\n", "tempRollingWindowSize: 0\nrpmRollingWindowSize: 0\n",
		"controllerAdjustmentTickRate: 0\n", "rpmPollingRate: 0\ntempSensorPollingRate: 0\n", "controllerAdjustmentTickRate: 50ms\nrpmPollingRate: 10s\ntempSensorPollingRate: 1ms\n",
		"statistics:\n  enabled: true\n  port: 0\n", "api:\n  enabled: true\n  host: \"\"\n  port: 0\n", "profiling:\n  enabled: false\n"} {
		for _, env := range []string{"", "false", "true"} {
			for _, file := range []string{"", "true", "false"} {
				for _, last := range []bool{false, true} {
					if file == "" && last {
						continue
					}
					cases = append(cases, vxC16OptCase{File: file, Key: "runFanInitializationInParallel", Last: last, Env: env, Others: others})
				}
			}
		}
	}
	for i, c := range cases {
		if !mc.Mine(i) {
			continue
		}
		vxC16OptRun(rep, sc.Dir, c)
	}
	rep.Note("every way of stating runFanInitializationInParallel (file value x key spelling x position x environment variable x earlier load in the process) loaded through the real start-up path; oracle: environment > file > default true")
}
