package internal

// C04 at the daemon's controller factory: each fan's request must settle at a target determined by ITS curve
// value alone — also when several fans use the default control algorithm and another fan's curve jumps around.
// Real initializeFanControllers() (algorithm selection and defaults), real controllers, virtual time.

import (
	"context"
	"fmt"
	"os"
	"path/filepath"
	"sync"
	"testing"
	"testing/synctest"
	"time"

	"github.com/markusressel/fan2go/internal/configuration"
	"github.com/markusressel/fan2go/internal/curves"
	"github.com/markusressel/fan2go/internal/fans"
	"github.com/markusressel/fan2go/internal/persistence"
	"github.com/markusressel/fan2go/internal/verifshim/env"
	"github.com/markusressel/fan2go/internal/verifshim/mc"
	"github.com/prometheus/client_golang/prometheus"
)

type vxStubCurve struct {
	id string
	v  int
}

func (c *vxStubCurve) GetId() string          { return c.id }
func (c *vxStubCurve) Evaluate() (int, error) { return c.v, nil }
func (c *vxStubCurve) CurrentValue() int      { return c.v }

type vxC04SharedCase struct {
	Algo   string `json:"algo"`   // default | pid | direct (rate-limited) | direct-plain (no maxPwmChangePerCycle) | direct-empty (direct: {}) | deprecated
	Other  []int  `json:"other"`  // curve values the OTHER fan toggles between
	Steady int    `json:"steady"` // constant curve value of the observed fan
}

func vxC04SharedRun(t *testing.T, c vxC04SharedCase, fs *env.FS) (fail [2]string, lo, hi int) {
	synctest.Test(t, func(t *testing.T) {
		fs.Reset()
		configuration.CurrentConfig = configuration.Configuration{ControllerAdjustmentTickRate: 200 * time.Millisecond, RpmRollingWindowSize: 10, TempRollingWindowSize: 997}
		prometheus.DefaultRegisterer = prometheus.NewRegistry()
		ca, cb := &vxStubCurve{"c04-a", c.Steady}, &vxStubCurve{"c04-b", c.Other[0]}
		curves.RegisterSpeedCurve(ca)
		curves.RegisterSpeedCurve(cb)
		fanMap := map[configuration.FanConfig]fans.Fan{}
		var fa fans.Fan
		for i, cv := range []string{"c04-a", "c04-b"} {
			fc := configuration.FanConfig{ID: fmt.Sprintf("c04fan%d", i), Curve: cv, File: &configuration.FileFanConfig{Path: fs.Add(fmt.Sprintf("c04fan%d/pwm", i), 0)}}
			switch c.Algo {
			case "pid":
				fc.ControlAlgorithm = &configuration.ControlAlgorithmConfig{Pid: &configuration.PidControlAlgorithmConfig{P: 0.3, I: 0.02, D: 0.005}}
			case "direct":
				m := 10
				fc.ControlAlgorithm = &configuration.ControlAlgorithmConfig{Direct: &configuration.DirectControlAlgorithmConfig{MaxPwmChangePerCycle: &m}}
			case "direct-plain", "direct-empty":
				// `controlAlgorithm: direct` / `direct: {}`: no rate limit, the request is the target at once
				fc.ControlAlgorithm = &configuration.ControlAlgorithmConfig{Direct: &configuration.DirectControlAlgorithmConfig{}}
			case "deprecated":
				fc.ControlLoop = &configuration.ControlLoopConfig{P: 0.3, I: 0.02, D: 0.005} //nolint:all
			}
			f, err := fans.NewFan(fc)
			if err != nil {
				panic(err)
			}
			fanMap[fc] = f
			if i == 0 {
				fa = f
			}
		}
		dbDir, _ := os.MkdirTemp("/dev/shm", "verif-c04shared-")
		defer os.RemoveAll(dbDir)
		ctls, err := initializeFanControllers(persistence.NewPersistence(filepath.Join(dbDir, "fan2go.db")), fanMap)
		if err != nil {
			fail = [2]string{"C04 initializeFanControllers failed", err.Error()}
			return
		}
		// the real Run(): start-up (PWM map sweep for these file fans), then the 200 ms control loop
		ctx, cancel := context.WithCancel(context.Background())
		var wg sync.WaitGroup
		for _, ctl := range ctls {
			ctl := ctl
			wg.Add(1)
			go func() {
				defer wg.Done()
				if p := vxGuard08(func() { _ = ctl.Run(ctx) }); p != "" {
					fail = [2]string{"C04 controller panicked", p}
				}
			}()
		}
		pathA := fa.(*fans.FileFan).Config.File.Path
		lo, hi = 1<<30, -1
		time.Sleep(6 * time.Second) // start-up wait + sweep + first-second delay
		for k := 0; k < 1800; k++ {
			time.Sleep(100*time.Millisecond + 11*time.Microsecond)
			cb.v = c.Other[(k/50)%len(c.Other)]
			from := 600
			if c.Algo == "direct-plain" || c.Algo == "direct-empty" {
				from = 15 // the plain direct algorithm is at its steady value with the first regulation cycle
			}
			if k >= from {
				v := fs.Val(pathA)
				if v < lo {
					lo = v
				}
				if v > hi {
					hi = v
				}
			}
		}
		cancel()
		wg.Wait()
	})
	if fail[0] == "" && (c.Algo == "direct-plain" || c.Algo == "direct-empty") && (lo != c.Steady || hi != c.Steady) {
		fail = [2]string{"C04 plain direct algorithm (no maxPwmChangePerCycle) is not at its steady value from the first regulation cycle on",
			fmt.Sprintf("observed fan: curve constant at %d, written PWM ranged %d..%d from 1.5 s after regulation began (fan built by the daemon's controller factory)", c.Steady, lo, hi)}
	}
	if fail[0] == "" && (hi < c.Steady-1 || lo > c.Steady+1) {
		fail = [2]string{"C04 steady request differs from the plain direct value (" + c.Algo + " algorithm, controller factory)",
			fmt.Sprintf("observed fan: curve constant at %d (file fan, full range: plain direct gives %d), written PWM settled in %d..%d", c.Steady, c.Steady, lo, hi)}
	}
	if fail[0] == "" && hi-lo > 2 {
		fail = [2]string{"C04 a fan's request keeps moving at a constant curve value while ANOTHER fan's curve changes (" + c.Algo + " algorithm)",
			fmt.Sprintf("observed fan: curve constant at %d, written PWM ranged %d..%d over the last 120 virtual seconds while the other fan's curve toggled between %v", c.Steady, lo, hi, c.Other)}
	}
	return
}

func TestVX_C04shared(t *testing.T) {
	rep := mc.NewReport("C04", "internal/controller-factory")
	defer rep.Write()
	fs := env.New()
	defer fs.Close()
	var rc vxC04SharedCase
	var cases []vxC04SharedCase
	if mc.ReplayCase(&rc) {
		if rc.Algo == "" {
			return
		}
		cases = []vxC04SharedCase{rc}
	} else {
		for _, algo := range []string{"default", "pid", "direct", "deprecated", "direct-plain", "direct-empty"} {
			for _, other := range [][]int{{20, 240}, {0, 255}, {100, 100}} {
				for _, steady := range []int{0, 100, 255} {
					cases = append(cases, vxC04SharedCase{algo, other, steady})
				}
			}
		}
	}
	for i, c := range cases {
		if !mc.Mine(i) {
			continue
		}
		f, lo, hi := vxC04SharedRun(t, c, fs)
		rep.Evaluations++
		if f[0] != "" {
			rep.Violate(mc.Violation{Signature: f[0], Detail: f[1], Replay: c})
			continue
		}
		rep.AddDistinct(1)
		if i%7 == 0 {
			rep.Sample(map[string]any{"case": fmt.Sprintf("%+v", c), "observed_fan_pwm_range_after_settling": []int{lo, hi}})
		}
	}
	rep.Note("two fans built by the real initializeFanControllers with the default / explicit pid / rate-limited direct / deprecated controlLoop configuration; the observed fan's curve is constant, the other fan's curve toggles every 5 virtual seconds; real Run() loops for 3 virtual minutes")
}
