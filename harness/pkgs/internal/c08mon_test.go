package internal

// C08 through the real sensor monitor loop (sensorMonitor.Run) with SLOW reads, under the vsched
// controlled scheduler: whenever several goroutines are runnable at the same virtual instant, every
// order in which they pass the sensor's lock operations is enumerated (deviation-bounded). A monitor
// that overlaps polls of one sensor loses updates; the sequential monitor cannot.

import (
	"context"
	"fmt"
	"math"
	"path/filepath"
	"testing"
	"testing/synctest"
	"time"

	"github.com/markusressel/fan2go/internal/configuration"
	"github.com/markusressel/fan2go/internal/hwmon"
	"github.com/markusressel/fan2go/internal/sensors"
	"github.com/markusressel/fan2go/internal/verifshim/env"
	"github.com/markusressel/fan2go/internal/verifshim/mc"
	"github.com/markusressel/fan2go/internal/verifshim/vsched"
	"github.com/prometheus/client_golang/prometheus"
)

type vxC08MonCfg struct {
	Window    int   `json:"window"`
	ReadMs    []int `json:"readMs"` // duration of the k-th read (cyclic), in virtual milliseconds
	HorizonMs int   `json:"horizonMs"`
}

type vxC08MonCase struct {
	Cfg  vxC08MonCfg `json:"cfg"`
	Tape []int       `json:"tape"`
}

func vxC08MonExec(t *testing.T, cfg vxC08MonCfg, x *mc.X, fs *env.FS) (viol []mc.Violation) {
	var final float64
	var completed, maxParked int
	var fail string
	synctest.Test(t, func(t *testing.T) {
		fs.Reset()
		path := fs.Add("hwmon0/temp1_input", 40000)
		configuration.CurrentConfig = configuration.Configuration{TempRollingWindowSize: cfg.Window, RpmRollingWindowSize: 991,
			Sensors: []configuration.SensorConfig{{ID: "vxmon", HwMon: &configuration.HwMonSensorConfig{Platform: "vxchip", Index: 1}}}}
		controllers := []*hwmon.HwMonController{{Name: "vxchip", Platform: "vxchip", Path: filepath.Dir(path),
			Sensors: map[int]*sensors.HwmonSensor{1: {Index: 1, Input: path}}}}
		prometheus.DefaultRegisterer = prometheus.NewRegistry()
		if p := vxGuard08(func() {
			if err := initializeSensors(controllers); err != nil {
				panic(err)
			}
		}); p != "" {
			fail = "seeding failed: " + p
			return
		}
		s, _ := sensors.GetSensor("vxmon")
		fs.Set(path, 60000)
		reads := 0
		fs.Intercept = func(kind, p string, value int) *env.Result {
			if kind == "read" && p == path {
				d := cfg.ReadMs[reads%len(cfg.ReadMs)]
				reads++
				if d > 0 {
					time.Sleep(time.Duration(d)*time.Millisecond + 3*time.Microsecond)
				}
				completed++
			}
			return nil
		}
		sched, stop := vsched.Start(func(n int, labels []string) int {
			return x.Choose(n, fmt.Sprintf("which of %d goroutines parked at a sensor lock runs next", n))
		})
		ctx, cancel := context.WithCancel(context.Background())
		done := make(chan struct{})
		go func() {
			defer close(done)
			_ = NewSensorMonitor(s, 200*time.Millisecond).Run(ctx)
		}()
		time.Sleep(time.Duration(cfg.HorizonMs)*time.Millisecond + 57*time.Microsecond)
		cancel()
		<-done
		// polls that are still in flight (only possible if the monitor overlaps polls) finish within the longest read
		time.Sleep(3 * time.Second)
		maxParked = sched.MaxParked
		stop()
		fs.Intercept = nil
		final = s.GetMovingAvg()
	})
	x.Logf("window=%d reads=%v completed=%d final=%v maxParked=%d", cfg.Window, cfg.ReadMs, completed, final, maxParked)
	bad := func(sig, msg string) {
		viol = append(viol, mc.Violation{Property: "C08", Signature: sig, Detail: fmt.Sprintf("%s\nwindow %d, read durations %v ms, %d completed polls of the constant reading 60000 starting from 40000; final smoothed value %v; schedule tape %v", msg, cfg.Window, cfg.ReadMs, completed, final, x.Tape()), Replay: vxC08MonCase{cfg, x.Tape()}})
	}
	if fail != "" {
		bad("C08 monitor harness: seeding failed", fail)
		return
	}
	if math.IsNaN(final) || final < 40000-1e-6 || final > 60000+1e-6 {
		bad("C08 smoothed value outside the hull of observed readings (monitor loop)", "out of [40000,60000]")
		return
	}
	allowed := math.Pow(1-1/float64(cfg.Window), float64(completed))*20000 + 1e-6
	if math.Abs(final-60000) > allowed {
		bad("C08 monitor loop loses sensor updates (remaining distance larger than (1-1/n)^polls)", fmt.Sprintf("remaining distance %v, allowed %v", math.Abs(final-60000), allowed))
	}
	return
}

func TestVX_C08monitor(t *testing.T) {
	rep := mc.NewReport("C08", "internal/sensor-monitor-loop")
	defer rep.Write()
	fs := env.New()
	defer fs.Close()
	var rc vxC08MonCase
	if mc.ReplayCase(&rc) {
		if rc.Cfg.Window == 0 {
			return
		}
		for _, v := range vxC08MonExec(t, rc.Cfg, mc.NewX(rc.Tape), fs) {
			rep.Violate(v)
		}
		rep.Evaluations = 1
		return
	}
	var cfgs []vxC08MonCfg
	for _, w := range []int{1, 2, 10} {
		for _, rd := range [][]int{{0}, {300}, {600, 400, 200}, {400, 200}, {500, 300, 100, 0}, {800, 600, 400, 200}} {
			cfgs = append(cfgs, vxC08MonCfg{Window: w, ReadMs: rd, HorizonMs: 2100})
		}
	}
	bound := 2
	if mc.Thorough() {
		bound = 4
	}
	for ci, cfg := range cfgs {
		if !mc.Mine(ci) {
			continue
		}
		st := mc.Explore(rep, mc.ExploreOpts{Bound: bound, RecheckN: 50, Deadline: mc.Deadline(40*time.Second, 5*time.Minute)}, func(prefix []int) mc.Exec {
			x := mc.NewX(prefix)
			v := vxC08MonExec(t, cfg, x, fs)
			return mc.Exec{Points: x.Points, Outcome: fmt.Sprintf("%+v | %s", cfg, x.Obs()), Viol: v}
		})
		rep.Configs++
		if st.Capped {
			rep.Cap("deadline reached in the monitor-loop schedules")
		}
		if ci%4 == 0 {
			rep.Sample(map[string]any{"window": cfg.Window, "read_durations_ms": cfg.ReadMs, "executions": st.Executions, "max_choice_points": st.MaxPoints})
		}
	}
	rep.Note("real sensorMonitor.Run at 200 ms with reads that take 0..800 virtual ms; vsched parks goroutines at every sensor lock operation and the explorer enumerates which parked goroutine runs next (deviation bound 2 quick / 4 thorough)")
}
