package internal

// Daemon-level harness: the real RunDaemon() (YAML -> loader -> validator -> InitializeObjects ->
// actor group with sensor monitors, controllers and the signal actor) runs inside a testing/synctest
// bubble, ONE OS PROCESS PER EXECUTION, so that panics, os.Exit and "send on closed channel" have
// their real effect; the fake device tree is mirrored to tmpfs files that the parent inspects after
// the process is gone. Signals are delivered through the vsignal stand-in at points chosen by the
// explorer (before any file operation, or at idle instants); faults are injected in time windows.

import (
	"encoding/json"
	"fmt"
	"net/http"
	"net/http/httptest"
	"os"
	"os/exec"
	"path/filepath"
	"strconv"
	"strings"
	"syscall"
	"testing"
	"testing/synctest"
	"time"

	"github.com/markusressel/fan2go/internal/api"
	"github.com/markusressel/fan2go/internal/configuration"
	"github.com/markusressel/fan2go/internal/fans"
	"github.com/markusressel/fan2go/internal/persistence"
	"github.com/markusressel/fan2go/internal/verifshim/env"
	"github.com/markusressel/fan2go/internal/verifshim/mc"
	"github.com/markusressel/fan2go/internal/verifshim/vsignal"
	"github.com/md14454/gosensors"
	"github.com/prometheus/client_golang/prometheus"
	"github.com/spf13/viper"
)

type vxJobFan struct {
	ID       string `json:"id"`
	Kind     string `json:"kind"` // hwmon | file | cmd
	OrigMode int    `json:"origMode"`
	OrigPwm  int    `json:"origPwm"`
	NoEnable bool   `json:"noEnable,omitempty"`
	Stored   bool   `json:"stored"`
	MaxPwm   int    `json:"maxPwm,omitempty"` // configured maxPwm (0 = not configured)
}

type vxFault struct {
	Component string `json:"component"`         // sensor | rpm | pwmread | pwmwrite | modewrite | moderead
	Kind      string `json:"kind"`              // error | garbage | ignored
	Window    int    `json:"window"`            // control-cycle window index after regulation began
	Persist   bool   `json:"persist,omitempty"` // the fault stays active until the process ends (still active at shutdown)
}

type vxJob struct {
	Dir        string     `json:"dir"`
	Fans       []vxJobFan `json:"fans"`
	Sensor     string     `json:"sensor"` // hwmon | file | cmd
	Curve      string     `json:"curve"`  // linear | pid | func-linear | func-pid
	Tape       []int      `json:"tape"`
	OpChoices  bool       `json:"opChoices"`  // signal choice points before every file operation
	MaxSignals int        `json:"maxSignals"` // how many signals the explorer may deliver in addition to the final one
	Faults     []vxFault  `json:"faults"`
	Cycles     int        `json:"cycles"`               // control cycles before the final SIGTERM
	InstantsMs []int      `json:"instantsMs,omitempty"` // idle instants for signal choice points (default: start-up wait, first-second delay, between ticks)
	FinalAtMs  int        `json:"finalAtMs,omitempty"`  // time of the final SIGTERM (default: after Cycles control cycles)
	// TempStepTo > 0: the sensor (hwmon/file) jumps from 60000 to this value in the middle of control-cycle window 1, so that the
	// target keeps changing for the rest of the run; ExpectFinalPwm >= 0 with TempStepTo: the PWM value the fault-free run of
	// the same job shows just before the final SIGTERM (oracle "keeps regulating").
	TempStepTo     int `json:"tempStepTo,omitempty"`
	ExpectFinalPwm int `json:"expectFinalPwm,omitempty"`
	// Observers: REST API requests (every list and item endpoint) and Prometheus scrapes run every 50 virtual ms while the
	// daemon regulates. Trace: every PWM write of fan2go is logged as an event ("pwmwrite <fan> <value>").
	Observers bool `json:"observers,omitempty"`
	Trace     bool `json:"trace,omitempty"`
}

func (j vxJob) Describe() string {
	var fs []string
	for _, f := range j.Fans {
		fs = append(fs, fmt.Sprintf("%s(%s mode=%d pwm=%d noEnable=%v stored=%v maxPwm=%d)", f.ID, f.Kind, f.OrigMode, f.OrigPwm, f.NoEnable, f.Stored, f.MaxPwm))
	}
	return fmt.Sprintf("fans=%v sensor=%s curve=%s faults=%v", fs, j.Sensor, j.Curve, j.Faults)
}

const (
	vxTempRate = 200*time.Millisecond + 7*time.Microsecond
	vxRpmRate  = time.Second + 13*time.Microsecond
	vxTick     = 200 * time.Millisecond
)

// first control cycle of a fan with stored data, relative to daemon start
func vxFirstCycleAt() time.Duration { return 2*time.Second + 2*vxTempRate + time.Second + vxTick }

type vxFanDev struct {
	spec                    vxJobFan
	pwm, enable, rpm        string // env paths (hwmon/file)
	cmdPwm, cmdMode, cmdLog string // cmd fan state files
}

type vxWorld struct {
	job      vxJob
	fs       *env.FS
	fans     []*vxFanDev
	tempPath string // hwmon/file sensor
	sensMode string // cmd sensor mode file
	cfgPath  string
	dbPath   string
}

func vxWriteScript(path, body string) {
	if err := os.WriteFile(path, []byte("#!/bin/sh\n"+body), 0755); err != nil {
		panic(err)
	}
}

// vxBuildWorld creates the fake devices, scripts, configuration file and database of a job.
func vxBuildWorld(job vxJob) *vxWorld {
	w := &vxWorld{job: job}
	w.fs = env.NewAt(filepath.Join(job.Dir, "sys"))
	w.fs.Real = true // device values live in real tmpfs files: fan2go's real read/parse/write code runs, and the parent can inspect them afterwards
	w.fs.Locked = true
	w.dbPath = filepath.Join(job.Dir, "fan2go.db")
	w.cfgPath = filepath.Join(job.Dir, "fan2go.yaml")
	chip := gosensors.ChipSpec{Prefix: "vxchip", BusType: 1, BusNr: 0, Addr: 0x290, Path: filepath.Join(w.fs.Dir, "hwmon0")}
	var y strings.Builder
	fmt.Fprintf(&y, "dbPath: %s\ntempSensorPollingRate: %s\nrpmPollingRate: %s\ncontrollerAdjustmentTickRate: %s\nrpmRollingWindowSize: 10\ntempRollingWindowSize: 10\n", w.dbPath, vxTempRate, vxRpmRate, vxTick)
	y.WriteString("fans:\n")
	for i, f := range job.Fans {
		d := &vxFanDev{spec: f}
		fmt.Fprintf(&y, "  - id: %s\n    curve: vxcurve\n    neverStop: false\n    controlAlgorithm: direct\n", f.ID)
		if f.MaxPwm > 0 {
			fmt.Fprintf(&y, "    maxPwm: %d\n", f.MaxPwm)
		}
		switch f.Kind {
		case "hwmon":
			ch := i + 1
			dev := w.fs.NewDev("hwmon0", ch, f.OrigPwm, f.OrigMode, !f.NoEnable, true)
			dev.RpmOf = func(pwm int) int { return 300 + pwm*10 }
			d.pwm, d.enable, d.rpm = dev.Pwm, dev.Enable, dev.Rpm
			chip.Fans = append(chip.Fans, ch)
			fmt.Fprintf(&y, "    hwmon:\n      platform: vxchip\n      rpmChannel: %d\n", ch)
		case "file":
			d.pwm = w.fs.Add(fmt.Sprintf("file%d/pwm", i), f.OrigPwm)
			d.rpm = w.fs.Add(fmt.Sprintf("file%d/rpm", i), 0)
			pwmPath := d.pwm
			w.fs.F(d.rpm).OnRead = func() (int, error) { return 300 + w.fs.Val(pwmPath)*10, nil }
			fmt.Fprintf(&y, "    file:\n      path: %s\n      rpmPath: %s\n", d.pwm, d.rpm)
		case "cmd":
			base := filepath.Join(job.Dir, fmt.Sprintf("cmd%d", i))
			os.MkdirAll(base, 0755)
			d.cmdPwm = filepath.Join(base, "pwm")
			d.cmdMode = filepath.Join(base, "mode")
			d.cmdLog = filepath.Join(base, "log")
			os.WriteFile(d.cmdPwm, []byte(strconv.Itoa(f.OrigPwm)), 0644)
			os.WriteFile(d.cmdMode, []byte("ok"), 0644)
			// behaviour of each script is selected by words in the mode file: <component>:<kind>
			vxWriteScript(filepath.Join(base, "set.sh"), fmt.Sprintf("m=$(cat %s)\ncase \"$m\" in *pwmwrite:error*) echo \"refused $1\" >> %s; echo refused >&2; exit 1;; *pwmwrite:ignored*) echo \"ignored $1\" >> %s; exit 0;; esac\necho \"set $1\" >> %s\nprintf %%s \"$1\" > %s\n", d.cmdMode, d.cmdLog, d.cmdLog, d.cmdLog, d.cmdPwm))
			vxWriteScript(filepath.Join(base, "get.sh"), fmt.Sprintf("m=$(cat %s)\ncase \"$m\" in *pwmread:error*) exit 1;; *pwmread:garbage*) echo n/a; exit 0;; *pwmread:blank*) echo; exit 0;; *pwmread:empty*) exit 0;; esac\ncat %s\n", d.cmdMode, d.cmdPwm))
			vxWriteScript(filepath.Join(base, "rpm.sh"), fmt.Sprintf("m=$(cat %s)\ncase \"$m\" in *rpm:error*) exit 1;; *rpm:garbage*) echo n/a; exit 0;; *rpm:blank*) echo; exit 0;; *rpm:empty*) exit 0;; esac\necho $(( 300 + $(cat %s) * 10 ))\n", d.cmdMode, d.cmdPwm))
			fmt.Fprintf(&y, "    cmd:\n      setPwm:\n        exec: %s/set.sh\n        args: [\"%%pwm%%\"]\n      getPwm:\n        exec: %s/get.sh\n      getRpm:\n        exec: %s/rpm.sh\n", base, base, base)
		}
		w.fans = append(w.fans, d)
	}
	y.WriteString("sensors:\n  - id: vxsensor\n")
	switch job.Sensor {
	case "hwmon":
		w.tempPath = w.fs.Add("hwmon0/temp1_input", 60000)
		chip.Temps = []int{1}
		y.WriteString("    hwmon:\n      platform: vxchip\n      index: 1\n")
	case "file":
		w.tempPath = w.fs.Add("filesensor/temp", 60000)
		fmt.Fprintf(&y, "    file:\n      path: %s\n", w.tempPath)
	case "cmd":
		w.sensMode = filepath.Join(job.Dir, "sensor.mode")
		os.WriteFile(w.sensMode, []byte("ok"), 0644)
		vxWriteScript(filepath.Join(job.Dir, "sensor.sh"), fmt.Sprintf("m=$(cat %s)\ncase \"$m\" in *sensor:error*) exit 1;; *sensor:garbage*) echo n/a; exit 0;; *sensor:blank*) echo; exit 0;; *sensor:empty*) exit 0;; esac\necho 60000\n", w.sensMode))
		fmt.Fprintf(&y, "    cmd:\n      exec: %s/sensor.sh\n", job.Dir)
	}
	y.WriteString("curves:\n")
	lin := func(id string) string {
		return fmt.Sprintf("  - id: %s\n    linear:\n      sensor: vxsensor\n      min: 40\n      max: 80\n", id)
	}
	pid := func(id string) string {
		return fmt.Sprintf("  - id: %s\n    pid:\n      sensor: vxsensor\n      setPoint: 60\n      p: -0.05\n      i: -0.005\n      d: -0.005\n", id)
	}
	switch job.Curve {
	case "linear":
		y.WriteString(lin("vxcurve"))
	case "pid":
		y.WriteString(pid("vxcurve"))
	case "func-linear":
		y.WriteString(lin("member1") + lin("member2") + "  - id: vxcurve\n    function:\n      type: maximum\n      curves:\n        - member1\n        - member2\n")
	case "func-pid":
		y.WriteString(pid("member1") + lin("member2") + "  - id: vxcurve\n    function:\n      type: average\n      curves:\n        - member1\n        - member2\n")
	default:
		// func2pid-<type>: a function curve of the given type over two PID curves that share the sensor
		if strings.HasPrefix(job.Curve, "func2pid-") {
			y.WriteString(pid("member1") + pid("member2") + "  - id: vxcurve\n    function:\n      type: " + strings.TrimPrefix(job.Curve, "func2pid-") + "\n      curves:\n        - member1\n        - member2\n")
		} else {
			panic("unknown curve kind " + job.Curve)
		}
	}
	if err := os.WriteFile(w.cfgPath, []byte(y.String()), 0644); err != nil {
		panic(err)
	}
	gosensors.VerifSetSpec([]gosensors.ChipSpec{chip})
	return w
}

// vxPrepopulate stores RPM curve + PWM map for the fans that are marked stored (before the daemon starts).
func (w *vxWorld) vxPrepopulate() {
	pers := persistence.NewPersistence(w.dbPath)
	for _, f := range w.job.Fans {
		if !f.Stored {
			continue
		}
		data := map[int]float64{}
		m := map[int]int{}
		for p := 0; p <= 255; p++ {
			data[p] = float64(300 + p*10)
			m[p] = p
		}
		hf := &fans.HwMonFan{Config: configuration.FanConfig{ID: f.ID}, FanCurveData: &data}
		if err := pers.SaveFanPwmData(hf); err != nil {
			panic(err)
		}
		if err := pers.SaveFanPwmMap(f.ID, m); err != nil {
			panic(err)
		}
	}
}

func vxAppend(path, line string) {
	f, err := os.OpenFile(path, os.O_APPEND|os.O_CREATE|os.O_WRONLY, 0644)
	if err != nil {
		panic(err)
	}
	f.WriteString(line + "\n")
	f.Close()
}

// TestVX_daemonChild is the body of one execution (re-executed test binary); it never returns normally:
// RunDaemon ends the process with os.Exit.
func TestVX_daemonChild(t *testing.T) {
	jobFile := os.Getenv("VX_DAEMON_JOB")
	if jobFile == "" {
		t.Skip("child only")
	}
	var job vxJob
	b, err := os.ReadFile(jobFile)
	if err != nil {
		panic(err)
	}
	if err := json.Unmarshal(b, &job); err != nil {
		panic(err)
	}
	points := filepath.Join(job.Dir, "points.log")
	events := filepath.Join(job.Dir, "events.log")
	// a desktop session without a matching `who` entry: fan2go's desktop notification (sent on control errors) runs its
	// look-up helpers and finds nobody to notify
	fake := filepath.Join(job.Dir, "desktop-bin")
	os.MkdirAll(fake, 0755)
	for name, body := range map[string]string{"who": "echo 'vxuser   tty1         2026-01-01 00:00'", "id": "echo 1234", "sudo": "exit 0", "notify-send": "exit 0"} {
		os.WriteFile(filepath.Join(fake, name), []byte("#!/bin/sh\n"+body+"\n"), 0755)
	}
	os.Setenv("PATH", fake+":"+os.Getenv("PATH"))
	os.Setenv("DISPLAY", ":7")
	synctest.Test(t, func(t *testing.T) {
		w := vxBuildWorld(job)
		w.vxPrepopulate()
		t0 := time.Now()
		w.fs.KeepLog = false
		stamp := func() string { return fmt.Sprintf("%.6f", time.Since(t0).Seconds()) }
		x := mc.NewX(job.Tape)
		choose := func(n int, label string) int {
			c := x.Choose(n, label)
			vxAppend(points, fmt.Sprintf("%d\t%s\t%d", n, label, c))
			return c
		}
		delivered := 0
		finalSent := false
		deliver := func(sig syscall.Signal, why string) {
			delivered++
			vxAppend(events, fmt.Sprintf("%s signal %v (%s)", stamp(), sig, why))
			vsignal.Deliver(sig)
		}
		vsignal.VerifReset()
		vsignal.DefaultAction = func(sig os.Signal) {
			vxAppend(events, fmt.Sprintf("%s default-disposition %v: process terminated by signal", stamp(), sig))
			os.Exit(143)
		}
		firstCycle := vxFirstCycleAt()
		if job.TempStepTo > 0 && w.tempPath != "" {
			go func() {
				time.Sleep(firstCycle + vxTick/2 + 31*time.Microsecond)
				os.WriteFile(w.tempPath, []byte(strconv.Itoa(job.TempStepTo)), 0644)
				vxAppend(events, fmt.Sprintf("%s sensor now reads %d", stamp(), job.TempStepTo))
			}()
		}
		if job.Observers {
			rest := api.CreateRestService()
			paths := []string{"/fan/", "/sensor/", "/curve/", "/curve/vxcurve/", "/alive/"}
			for _, f := range job.Fans {
				paths = append(paths, "/fan/"+f.ID+"/")
			}
			go func() {
				for {
					time.Sleep(50*time.Millisecond + 3*time.Microsecond)
					for _, p := range paths {
						rec := httptest.NewRecorder()
						rest.ServeHTTP(rec, httptest.NewRequest(http.MethodGet, p, nil))
						if rec.Code >= 500 {
							vxAppend(events, fmt.Sprintf("%s api %s -> %d", stamp(), p, rec.Code))
						}
					}
					if _, err := prometheus.DefaultGatherer.Gather(); err != nil {
						vxAppend(events, stamp()+" gather error: "+err.Error())
					}
				}
			}()
		}
		// fault windows
		active := map[string]string{} // component -> kind
		pathRole := func(path, kind string) string {
			if path == w.tempPath {
				return "sensor"
			}
			for _, d := range w.fans {
				switch {
				case path == d.rpm:
					return "rpm"
				case path == d.pwm && kind == "read":
					return "pwmread"
				case path == d.pwm:
					return "pwmwrite"
				case path == d.enable && kind != "read":
					return "modewrite"
				case path == d.enable:
					return "moderead"
				}
			}
			return ""
		}
		good := map[string]string{} // last good content of files that currently show unparsable content
		isBad := func(c string) bool { return c == "n/a\n" || c == "\n" || c == "" || c == "65535\n" || c == "-32768\n" }
		restore := func() {
			for p, c := range good {
				if cur, err := os.ReadFile(p); err == nil && isBad(string(cur)) {
					os.WriteFile(p, []byte(c), 0644)
				}
				delete(good, p)
			}
		}
		nops := 0
		waiting := false // a goroutine is inside synctest.Wait (only one may be)
		w.fs.Intercept = func(kind, path string, value int) *env.Result {
			nops++
			if job.OpChoices && delivered-b2i(finalSent) < job.MaxSignals {
				regulating := time.Since(t0) >= firstCycle-vxTick
				if regulating {
					c := choose(3, fmt.Sprintf("signal before %s %s", kind, filepath.Base(path)))
					switch c {
					case 1:
						deliver(syscall.SIGTERM, fmt.Sprintf("before op #%d %s %s", nops, kind, filepath.Base(path)))
					case 2:
						deliver(syscall.SIGINT, fmt.Sprintf("before op #%d %s %s", nops, kind, filepath.Base(path)))
					}
					if c != 0 && !waiting {
						waiting = true
						// let the signal be handled (all other goroutines run until they block) before this
						// goroutine continues: the opposite order equals delivering the signal before a later operation
						synctest.Wait()
						waiting = false
					}
				}
			}
			role := pathRole(path, kind)
			if job.Trace && role == "pwmwrite" {
				for i, d := range w.fans {
					if d.pwm == path {
						vxAppend(events, fmt.Sprintf("%s pwmwrite %s %d", stamp(), job.Fans[i].ID, value))
					}
				}
			}
			if k, ok := active[role]; ok && role != "" {
				vxAppend(events, fmt.Sprintf("%s fault %s:%s on %s %s=%d", stamp(), role, k, kind, filepath.Base(path), value))
				switch k {
				case "error", "nostart":
					return &env.Result{Val: -1, Err: env.ErrNoEnt(path)}
				case "ignored":
					return &env.Result{}
				case "garbage", "blank", "empty", "absurd", "absurd-negative":
					// the REAL file shows unparsable content for this read; fan2go's own parser decides what happens
					// ("absurd": a well-formed integer far outside the range of the register)
					content := map[string]string{"garbage": "n/a\n", "blank": "\n", "empty": "", "absurd": "65535\n", "absurd-negative": "-32768\n"}[k]
					if cur, err := os.ReadFile(path); err == nil && !isBad(string(cur)) {
						good[path] = string(cur)
					}
					if dyn := w.fs.F(path); dyn != nil && dyn.OnRead != nil {
						saved := dyn.OnRead
						dyn.OnRead = nil // no device-model refresh for this read
						defer func() { dyn.OnRead = saved }()
					}
					os.WriteFile(path, []byte(content), 0644)
					return nil
				}
			}
			return nil
		}
		setCmdModes := func() {
			// kind "nostart": the command cannot be started at all (x bit lost)
			x := map[string]os.FileMode{"sensor": 0755, "rpm": 0755, "pwmread": 0755, "pwmwrite": 0755}
			for c, k := range active {
				if k == "nostart" {
					x[c] = 0644
				}
			}
			for i := range w.fans {
				if w.fans[i].cmdMode != "" {
					base := filepath.Dir(w.fans[i].cmdMode)
					os.Chmod(filepath.Join(base, "rpm.sh"), x["rpm"])
					os.Chmod(filepath.Join(base, "get.sh"), x["pwmread"])
					os.Chmod(filepath.Join(base, "set.sh"), x["pwmwrite"])
				}
			}
			if w.sensMode != "" {
				os.Chmod(filepath.Join(job.Dir, "sensor.sh"), x["sensor"])
			}
			var words []string
			for c, k := range active {
				words = append(words, c+":"+k)
			}
			mode := "ok " + strings.Join(words, " ")
			for _, d := range w.fans {
				if d.cmdMode != "" {
					os.WriteFile(d.cmdMode, []byte(mode), 0644)
				}
			}
			if w.sensMode != "" {
				os.WriteFile(w.sensMode, []byte(mode), 0644)
			}
		}
		for _, f := range job.Faults {
			f := f
			start := firstCycle + time.Duration(f.Window)*vxTick - vxTick/2 + 31*time.Microsecond
			if start <= 0 {
				// a fault that is present when the daemon starts (first reads of initializeSensors / Run)
				active[f.Component] = f.Kind
				setCmdModes()
			}
			go func() {
				if start > 0 {
					time.Sleep(start)
					active[f.Component] = f.Kind
					setCmdModes()
				}
				if f.Persist {
					return
				}
				time.Sleep(vxTick)
				delete(active, f.Component)
				restore()
				setCmdModes()
			}()
		}
		// idle-instant signal choice points and the final SIGTERM
		go func() {
			instants := []time.Duration{500 * time.Millisecond, 2900 * time.Millisecond, firstCycle + vxTick/2, firstCycle + 3*vxTick/2, firstCycle + 5*vxTick/2}
			if len(job.InstantsMs) > 0 {
				instants = nil
				for _, ms := range job.InstantsMs {
					instants = append(instants, time.Duration(ms)*time.Millisecond)
				}
			}
			last := time.Duration(0)
			if job.MaxSignals > 0 {
				for _, at := range instants {
					at += 53 * time.Microsecond
					time.Sleep(at - last)
					last = at
					if delivered < job.MaxSignals {
						switch choose(3, fmt.Sprintf("signal at idle instant %v", at.Round(time.Millisecond))) {
						case 1:
							deliver(syscall.SIGTERM, "idle instant")
						case 2:
							deliver(syscall.SIGINT, "idle instant")
						}
					}
				}
			}
			end := firstCycle + time.Duration(job.Cycles)*vxTick - vxTick/2 + 77*time.Microsecond
			if job.FinalAtMs > 0 {
				end = time.Duration(job.FinalAtMs)*time.Millisecond + 77*time.Microsecond
			}
			if end > last {
				time.Sleep(end - last)
			}
			finalSent = true
			for i, d := range w.fans {
				v := -1
				if d.pwm != "" {
					v = w.fs.Val(d.pwm)
				} else {
					v = vxReadInt(d.cmdPwm)
				}
				vxAppend(events, fmt.Sprintf("%s regulating %s pwm=%d", stamp(), job.Fans[i].ID, v))
			}
			deliver(syscall.SIGTERM, "final")
			// if the daemon ignores it, give up after a virtual minute (an initialisation sequence in progress is
			// finished first, which takes up to about 9 virtual minutes: allow 15)
			giveUp := time.Minute
			for _, f := range job.Fans {
				if !f.Stored {
					giveUp = 15 * time.Minute
				}
			}
			time.Sleep(giveUp)
			vxAppend(events, stamp()+" daemon still running one minute after the final SIGTERM")
			os.Exit(99)
		}()
		viper.Reset()
		configuration.InitConfig(w.cfgPath)
		p := configuration.DetectAndReadConfigFile()
		configuration.LoadConfig()
		if err := configuration.Validate(p); err != nil {
			vxAppend(events, "config rejected: "+err.Error())
			os.Exit(98)
		}
		vxAppend(events, stamp()+" RunDaemon")
		RunDaemon()
	})
}

func b2i(b bool) int {
	if b {
		return 1
	}
	return 0
}

// ---------------------------------------------------------------- parent side

type vxFanEnd struct {
	ID   string
	Mode int // -1 = no mode file
	Pwm  int
}

type vxOutcome struct {
	Exit     int
	Signaled bool
	Stderr   string
	Events   []string
	Points   []mc.Point
	Fans     []vxFanEnd
	Panic    string
}

var vxJobSeq int64

func vxReadInt(path string) int {
	b, err := os.ReadFile(path)
	if err != nil {
		return -1
	}
	v, err := strconv.Atoi(strings.TrimSpace(string(b)))
	if err != nil {
		return -1
	}
	return v
}

// vxRunJob executes one job in a child process and collects what is left afterwards.
func vxRunJob(scratch string, job vxJob, id int64) vxOutcome {
	job.Dir = filepath.Join(scratch, fmt.Sprintf("job%d", id))
	os.MkdirAll(job.Dir, 0755)
	defer os.RemoveAll(job.Dir)
	jb, _ := json.Marshal(job)
	jobFile := filepath.Join(job.Dir, "job.json")
	os.WriteFile(jobFile, jb, 0644)
	cmd := exec.Command(os.Args[0], "-test.run", "^TestVX_daemonChild$", "-test.timeout", "120s")
	cmd.Env = append(os.Environ(), "VX_DAEMON_JOB="+jobFile, "GOMAXPROCS=1", "VERIF_OUT=", "GOTRACEBACK=all")
	cmd.Dir = job.Dir
	var stderr strings.Builder
	cmd.Stderr = &stderr
	cmd.Stdout = &stderr
	err := cmd.Run()
	var o vxOutcome
	if err != nil {
		if ee, ok := err.(*exec.ExitError); ok {
			o.Exit = ee.ExitCode()
			if ws, ok := ee.Sys().(syscall.WaitStatus); ok && ws.Signaled() {
				o.Signaled = true
			}
		} else {
			o.Exit = -1
		}
	}
	o.Stderr = stderr.String()
	if i := strings.Index(o.Stderr, "panic: "); i >= 0 {
		o.Panic = firstLine(o.Stderr[i:])
	} else if i := strings.Index(o.Stderr, "fatal error: "); i >= 0 {
		o.Panic = firstLine(o.Stderr[i:])
	}
	if b, err := os.ReadFile(filepath.Join(job.Dir, "events.log")); err == nil {
		o.Events = strings.Split(strings.TrimSpace(string(b)), "\n")
	}
	if b, err := os.ReadFile(filepath.Join(job.Dir, "points.log")); err == nil {
		for _, l := range strings.Split(strings.TrimSpace(string(b)), "\n") {
			p := strings.SplitN(l, "\t", 3)
			if len(p) == 3 {
				n, _ := strconv.Atoi(p[0])
				c, _ := strconv.Atoi(p[2])
				o.Points = append(o.Points, mc.Point{N: n, Label: p[1], Chosen: c})
			}
		}
	}
	sys := filepath.Join(job.Dir, "sys")
	for i, f := range job.Fans {
		e := vxFanEnd{ID: f.ID, Mode: -1}
		switch f.Kind {
		case "hwmon":
			e.Pwm = vxReadInt(filepath.Join(sys, "hwmon0", fmt.Sprintf("pwm%d", i+1)))
			if !f.NoEnable {
				e.Mode = vxReadInt(filepath.Join(sys, "hwmon0", fmt.Sprintf("pwm%d_enable", i+1)))
			}
		case "file":
			e.Pwm = vxReadInt(filepath.Join(sys, fmt.Sprintf("file%d", i), "pwm"))
		case "cmd":
			e.Pwm = vxReadInt(filepath.Join(job.Dir, fmt.Sprintf("cmd%d", i), "pwm"))
			if b, err := os.ReadFile(filepath.Join(job.Dir, fmt.Sprintf("cmd%d", i), "log")); err == nil {
				for _, l := range strings.Split(string(b), "\n") {
					if strings.HasPrefix(l, "refused ") || strings.HasPrefix(l, "ignored ") {
						o.Events = append(o.Events, fmt.Sprintf("cmdlog %s fault pwmwrite %s pwm=%s", f.ID, strings.Fields(l)[0], strings.Fields(l)[1]))
					}
				}
			}
		}
		o.Fans = append(o.Fans, e)
	}
	return o
}

func firstLine(s string) string {
	if i := strings.IndexByte(s, '\n'); i >= 0 {
		return s[:i]
	}
	return s
}

func vxHas(events []string, sub string) bool {
	for _, e := range events {
		if strings.Contains(e, sub) {
			return true
		}
	}
	return false
}

// final-state oracle shared by C03 (layer 2) and C09
func vxFansRestored(job vxJob, o vxOutcome) (bad []string) {
	for i, f := range job.Fans {
		e := o.Fans[i]
		handedBack := e.Mode >= 0 && e.Mode == f.OrigMode && f.OrigMode != 1
		if !handedBack && e.Pwm != 255 {
			bad = append(bad, fmt.Sprintf("%s(%s): original mode %d pwm %d; left with pwm_enable=%d pwm=%d", f.ID, f.Kind, f.OrigMode, f.OrigPwm, e.Mode, e.Pwm))
		}
	}
	return
}

func vxOutcomeString(job vxJob, o vxOutcome) string {
	return fmt.Sprintf("exit=%d signaled=%v panic=%q fans=%+v events=%v", o.Exit, o.Signaled, o.Panic, o.Fans, o.Events)
}

func vxScratch(name string) string {
	d, err := os.MkdirTemp("/dev/shm", "verif-"+name+"-")
	if err != nil {
		panic(err)
	}
	return d
}

var _ = time.Now
