package internal

// C20, observers are observers: REST API requests and Prometheus scrapes share fans, sensors, curves and controllers with
// the control loops. Whatever synchronisation is used, a request must not change what the control loops do. The real
// daemon is run twice per configuration in virtual time - once alone, once with every list/item endpoint and the metrics
// gatherer polled every 50 ms - and the sequence of PWM values fan2go writes to each fan must be identical (deterministic
// necessary condition; the race-detector run is the other half of C20).

import (
	"fmt"
	"os"
	"strings"
	"testing"

	"github.com/markusressel/fan2go/internal/verifshim/mc"
)

type vxObsCase struct {
	Job vxJob `json:"job"`
}

func vxPwmTrace(o vxOutcome) []string {
	var tr []string
	for _, e := range o.Events {
		if i := strings.Index(e, " pwmwrite "); i >= 0 {
			tr = append(tr, e[i+len(" pwmwrite "):])
		}
	}
	return tr
}

func TestVX_C20observers(t *testing.T) {
	rep := mc.NewReport("C20", "internal/observers-are-read-only")
	defer rep.Write()
	scratch := vxScratch("c20obs")
	defer os.RemoveAll(scratch)
	var rc vxObsCase
	var jobs []vxJob
	if mc.ReplayCase(&rc) {
		if len(rc.Job.Fans) == 0 {
			return
		}
		jobs = []vxJob{rc.Job}
	} else {
		for _, fk := range []string{"hwmon", "file"} {
			for _, cv := range []string{"linear", "pid", "func-pid", "func2pid-maximum", "func-linear"} {
				j := vxJob{Fans: []vxJobFan{{ID: "fanA", Kind: fk, OrigMode: 2, OrigPwm: 70, Stored: true}}, Sensor: "hwmon", Curve: cv, Cycles: 12, TempStepTo: 72000, Trace: true}
				if fk != "hwmon" {
					j.Fans[0].OrigMode = -1
				}
				jobs = append(jobs, j)
			}
		}
	}
	for ji, j := range jobs {
		if !mc.Mine(ji) {
			continue
		}
		alone := j
		alone.Observers = false
		watched := j
		watched.Observers = true
		a := vxRunJob(scratch, alone, int64(2*ji+1))
		b := vxRunJob(scratch, watched, int64(2*ji+2))
		rep.Evaluations += 2
		ta, tb := vxPwmTrace(a), vxPwmTrace(b)
		for _, o := range []vxOutcome{a, b} {
			if o.Panic != "" || !vxHas(o.Events, "(final)") {
				rep.Violate(mc.Violation{Signature: "C20 daemon died while observed / alone", Detail: fmt.Sprintf("%s\n%s", o.Panic, vxOutcomeString(j, o)), Replay: vxObsCase{j}})
			}
		}
		for _, e := range b.Events {
			if strings.Contains(e, " api /") || strings.Contains(e, "gather error") {
				rep.Violate(mc.Violation{Signature: "C20 API/metrics request failed", Detail: e, Replay: vxObsCase{j}})
			}
		}
		if len(ta) < 3 {
			rep.HarnessError(fmt.Sprintf("observer harness: the daemon wrote only %d PWM values (%v): %s", len(ta), ta, vxOutcomeString(j, a)))
			continue
		}
		if strings.Join(ta, ",") != strings.Join(tb, ",") {
			rep.Violate(mc.Violation{Signature: "C20 API/metrics requests change what the control loop does (" + j.Curve + " curve)",
				Detail: fmt.Sprintf("%s\nPWM writes without requests: %v\nPWM writes with API + metrics requests every 50 ms: %v", j.Describe(), ta, tb), Replay: vxObsCase{j}})
			continue
		}
		rep.AddDistinct(1)
		rep.Outcome(j.Describe() + strings.Join(ta, ","))
		if ji%3 == 0 {
			rep.Sample(map[string]any{"job": j.Describe(), "pwm_writes": ta})
		}
	}
	rep.Note("real RunDaemon in a virtual-time bubble, one OS process per run; sensor steps from 60 to 72 degrees during the second control cycle; 12 control cycles; with/without REST (list + item endpoints) and Prometheus gather every 50 ms")
}
