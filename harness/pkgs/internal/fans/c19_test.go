package fans

// C19 (run 2 of 3): the catalogue of external-command failure modes through the real
// CmdFan.GetPwm / GetRpm / SetPwm (fixed 2 s timeout inside fan2go). Oracle: the call returns
// (no panic) within 2 s + 3 s; a getter that reports success returns the number the command printed.

import (
	"fmt"
	"strconv"
	"strings"
	"sync"
	"testing"
	"time"

	"github.com/markusressel/fan2go/internal/configuration"
	"github.com/markusressel/fan2go/internal/verifshim/mc"
	"github.com/markusressel/fan2go/internal/verifshim/vcmd"
)

const vxC19Test = "TestVX_C19fans"

var vxC19Sites = []string{"fans.CmdFan.GetPwm", "fans.CmdFan.GetRpm", "fans.CmdFan.SetPwm"}

func vxC19Fan(path string) Fan {
	ex := func() *configuration.ExecConfig { return &configuration.ExecConfig{Exec: path, Args: []string{}} }
	fan, err := NewFan(configuration.FanConfig{
		ID:    "vxcmd",
		Curve: "c",
		Cmd: &configuration.CmdFanConfig{
			GetPwm: ex(),
			GetRpm: ex(),
			SetPwm: &configuration.ExecConfig{Exec: path, Args: []string{"%pwm%"}},
		},
	})
	if err != nil {
		panic(err)
	}
	return fan
}

// vxC19Number: what a getter must return when it reports success for a command that printed s.
func vxC19Number(s string) (int, bool) {
	f, err := strconv.ParseFloat(s, 64)
	if err != nil {
		return 0, false
	}
	return int(f), true
}

func vxC19One(rep *mc.Report, site string, c vcmd.Case, guard time.Duration) {
	const timeout = 2 * time.Second
	call := vcmd.Call{Site: site, Case: c.Name, TimeoutMs: int(timeout / time.Millisecond), Test: vxC19Test}
	fan := vxC19Fan(c.Path)
	var mu sync.Mutex
	var out vcmd.Outcome
	tm := vcmd.Guarded(guard, func() {
		var v int
		var err error
		getter := true
		switch site {
		case "fans.CmdFan.GetPwm":
			v, err = fan.GetPwm()
		case "fans.CmdFan.GetRpm":
			v, err = fan.GetRpm()
		default:
			getter = false
			err = fan.SetPwm(128)
		}
		mu.Lock()
		defer mu.Unlock()
		if err != nil {
			out = vcmd.Outcome{Err: err.Error()}
			return
		}
		out = vcmd.Outcome{Ok: true}
		if getter {
			want, numeric := vxC19Number(c.Stdout)
			if !numeric {
				out.Problem = fmt.Sprintf("returned %d without error although the command printed %q (not a number)", v, vxC19Clip(c.Stdout))
			} else if v != want {
				out.Problem = fmt.Sprintf("returned %d without error, the command printed %q", v, vxC19Clip(c.Stdout))
			}
		}
	})
	mu.Lock()
	o := out
	mu.Unlock()
	vcmd.Judge(rep, call, c, timeout, tm, o)
}

func vxC19Clip(s string) string {
	if len(s) > 60 {
		return s[:60] + "..."
	}
	return s
}

func TestVX_C19fans(t *testing.T) {
	rep := mc.NewReport("C19", "fans/cmd")
	defer rep.Write()
	sc := vcmd.NewScratch("c19f")
	defer func() { rep.Count("stray-processes-killed", int64(sc.Close())) }()
	cases := vcmd.Catalogue(sc.Dir)
	guard := vcmd.Guard(12 * time.Second)

	var rc vcmd.Call
	if mc.ReplayCase(&rc) {
		if rc.Test != vxC19Test {
			rep.HarnessError("replay case belongs to " + rc.Test + " (site " + rc.Site + "): run that test with VERIF_REPLAY")
			return
		}
		c, ok := vcmd.FindCase(cases, rc.Case)
		if !ok {
			rep.HarnessError("unknown case " + rc.Case)
			return
		}
		rep.Evaluations = 1
		vxC19One(rep, rc.Site, c, guard)
		return
	}

	var jobs []func()
	i := 0
	for _, c := range cases {
		for _, site := range vxC19Sites {
			i++
			if !mc.Mine(i) {
				continue
			}
			c, site := c, site
			jobs = append(jobs, func() { vxC19One(rep, site, c, guard) })
		}
	}
	vcmd.RunAll(jobs, 15*time.Millisecond)
	rep.Evaluations = int64(len(jobs))
	rep.AddDistinct(int64(len(jobs)))
	rep.Configs = int64(len(cases))
	rep.Sample(map[string]any{"site": "fans.CmdFan.GetPwm", "case": "output-non-numeric", "script": "#!/bin/sh\necho 'hello world'", "timeout_s": 2})
	rep.Note("call sites: " + strings.Join(vxC19Sites, ", ") + " (timeout fixed at 2 s by fan2go)")
}
