package fans

// C19 (run 2 of 3): the catalogue of external-command failure modes through the real
// CmdFan.GetPwm / GetRpm / SetPwm (fixed 2 s timeout inside fan2go). Oracle: the call returns
// (no panic) within 2 s + 3 s; a getter that reports success returns the number the command printed.

import (
	"fmt"
	"strconv"
	"strings"
	"sync"
	"testing"
	"time"

	"github.com/markusressel/fan2go/internal/configuration"
	"github.com/markusressel/fan2go/internal/verifshim/mc"
	"github.com/markusressel/fan2go/internal/verifshim/vcmd"
)

const vxC19Test = "TestVX_C19fans"

var vxC19Sites = []string{"fans.CmdFan.GetPwm", "fans.CmdFan.GetRpm", "fans.CmdFan.SetPwm"}

func vxC19Fan(path string) Fan {
	ex := func() *configuration.ExecConfig { return &configuration.ExecConfig{Exec: path, Args: []string{}} }
	fan, err := NewFan(configuration.FanConfig{
		ID:    "vxcmd",
		Curve: "c",
		Cmd: &configuration.CmdFanConfig{
			GetPwm: ex(),
			GetRpm: ex(),
			SetPwm: &configuration.ExecConfig{Exec: path, Args: []string{"%pwm%"}},
		},
	})
	if err != nil {
		panic(err)
	}
	return fan
}

// vxC19Number: what a getter must return when it reports success for a command that printed s.
func vxC19Number(s string) (int, bool) {
	f, err := strconv.ParseFloat(s, 64)
	if err != nil {
		return 0, false
	}
	return int(f), true
}

func vxC19One(rep *mc.Report, site string, c vcmd.Case, guard time.Duration) {
	const timeout = 2 * time.Second
	call := vcmd.Call{Site: site, Case: c.Name, TimeoutMs: int(timeout / time.Millisecond), Test: vxC19Test}
	fan := vxC19Fan(c.Path)
	var mu sync.Mutex
	var out vcmd.Outcome
	tm := vcmd.Guarded(guard, func() {
		var v int
		var err error
		getter := true
		switch site {
		case "fans.CmdFan.GetPwm":
			v, err = fan.GetPwm()
		case "fans.CmdFan.GetRpm":
			v, err = fan.GetRpm()
		default:
			getter = false
			err = fan.SetPwm(128)
		}
		mu.Lock()
		defer mu.Unlock()
		if err != nil {
			out = vcmd.Outcome{Err: err.Error()}
			return
		}
		out = vcmd.Outcome{Ok: true}
		if getter {
			want, numeric := vxC19Number(c.Stdout)
			if !numeric {
				out.Problem = fmt.Sprintf("returned %d without error although the command printed %q (not a number)", v, vxC19Clip(c.Stdout))
			} else if v != want {
				out.Problem = fmt.Sprintf("returned %d without error, the command printed %q", v, vxC19Clip(c.Stdout))
			}
		}
	})
	mu.Lock()
	o := out
	mu.Unlock()
	vcmd.Judge(rep, call, c, timeout, tm, o)
}

// vxC19Concurrent: the users of one CmdFan run on their own goroutines (control loop, RPM monitor, statistics,
// REST api). Three of them are inside GetRpm with the getRpm command of case c; a fourth one then makes the probe
// call (its own command is the benign one, or none at all for the in-memory accessors). Every one of the four
// calls is judged on its own clock: back within 2 s + margin, whatever the others are doing.
var vxC19Probes = []string{"GetRpm", "GetPwm", "SetPwm", "GetRpmAvg", "SetRpmAvg"}

func vxC19Concurrent(rep *mc.Report, probe string, c vcmd.Case, ok vcmd.Case, guard time.Duration) {
	const timeout = 2 * time.Second
	fan, err := NewFan(configuration.FanConfig{
		ID:    "vxcmd",
		Curve: "c",
		Cmd: &configuration.CmdFanConfig{
			GetPwm: &configuration.ExecConfig{Exec: ok.Path, Args: []string{}},
			GetRpm: &configuration.ExecConfig{Exec: c.Path, Args: []string{}},
			SetPwm: &configuration.ExecConfig{Exec: ok.Path, Args: []string{"%pwm%"}},
		},
	})
	if err != nil {
		panic(err)
	}
	var wg sync.WaitGroup
	for k := 0; k < 3; k++ {
		wg.Add(1)
		go func(k int) {
			defer wg.Done()
			call := vcmd.Call{Site: fmt.Sprintf("concurrent:%s:blocker%d", probe, k), Case: c.Name, TimeoutMs: 2000, Test: vxC19Test}
			var o vcmd.Outcome
			var mu sync.Mutex
			tm := vcmd.Guarded(guard, func() {
				_, err := fan.GetRpm()
				mu.Lock()
				defer mu.Unlock()
				if err != nil {
					o = vcmd.Outcome{Err: err.Error()}
				} else {
					o = vcmd.Outcome{Ok: true}
				}
			})
			mu.Lock()
			oo := o
			mu.Unlock()
			vcmd.Judge(rep, call, c, timeout, tm, oo)
		}(k)
		time.Sleep(40 * time.Millisecond)
	}
	time.Sleep(150 * time.Millisecond)
	call := vcmd.Call{Site: "concurrent:" + probe, Case: c.Name, TimeoutMs: 2000, Test: vxC19Test}
	pc := ok
	var o vcmd.Outcome
	var mu sync.Mutex
	tm := vcmd.Guarded(guard, func() {
		var err error
		switch probe {
		case "GetRpm":
			pc = c
			_, err = fan.GetRpm()
		case "GetPwm":
			_, err = fan.GetPwm()
		case "SetPwm":
			err = fan.SetPwm(100)
		case "GetRpmAvg":
			_ = fan.GetRpmAvg()
		case "SetRpmAvg":
			fan.SetRpmAvg(1000)
		}
		mu.Lock()
		defer mu.Unlock()
		if err != nil {
			o = vcmd.Outcome{Err: err.Error()}
		} else {
			o = vcmd.Outcome{Ok: true}
		}
	})
	mu.Lock()
	oo := o
	mu.Unlock()
	if !tm.Returned || tm.Elapsed > timeout+vcmd.Margin {
		rep.Count("late-behind-other-callers", 1)
		what := fmt.Sprintf("returned only after %v", tm.Elapsed.Round(10*time.Millisecond))
		if !tm.Returned {
			what = fmt.Sprintf("still blocked after the %v guard", tm.Elapsed.Round(time.Second))
		}
		rep.Violate(mc.Violation{Signature: "C19 call on a cmd fan waits for the commands of other concurrent callers",
			Detail: fmt.Sprintf("CmdFan.%s (own command: %q) called while three other goroutines are inside CmdFan.GetRpm with getRpm = case %s (%q): %s; bound: 2 s + %v",
				probe, vxC19Clip(pc.Script), c.Name, vxC19Clip(c.Script), what, vcmd.Margin), Replay: call})
	} else {
		vcmd.Judge(rep, call, pc, timeout, tm, oo)
	}
	wg.Wait()
}

func vxC19Clip(s string) string {
	if len(s) > 60 {
		return s[:60] + "..."
	}
	return s
}

func TestVX_C19fans(t *testing.T) {
	rep := mc.NewReport("C19", "fans/cmd")
	defer rep.Write()
	sc := vcmd.NewScratch("c19f")
	defer func() { rep.Count("stray-processes-killed", int64(sc.Close())) }()
	cases := vcmd.Catalogue(sc.Dir)
	guard := vcmd.Guard(12 * time.Second)

	var rc vcmd.Call
	if mc.ReplayCase(&rc) {
		if rc.Test != vxC19Test {
			rep.HarnessError("replay case belongs to " + rc.Test + " (site " + rc.Site + "): run that test with VERIF_REPLAY")
			return
		}
		c, ok := vcmd.FindCase(cases, rc.Case)
		if !ok {
			rep.HarnessError("unknown case " + rc.Case)
			return
		}
		rep.Evaluations = 1
		if strings.HasPrefix(rc.Site, "concurrent:") {
			okc, _ := vcmd.FindCase(cases, "ok")
			vxC19Concurrent(rep, strings.Split(rc.Site, ":")[1], c, okc, guard)
			return
		}
		vxC19One(rep, rc.Site, c, guard)
		return
	}

	var jobs []func()
	i := 0
	for _, c := range cases {
		for _, site := range vxC19Sites {
			i++
			if !mc.Mine(i) {
				continue
			}
			c, site := c, site
			jobs = append(jobs, func() { vxC19One(rep, site, c, guard) })
		}
	}
	okc, _ := vcmd.FindCase(cases, "ok")
	for _, c := range cases {
		switch c.Name {
		case "ok", "exit1-no-output", "sleep-exec-beyond-deadline", "sleep-child-beyond-deadline", "grandchild-holds-stdout", "grandchild-and-sleeping-parent", "missing-interpreter":
		default:
			continue
		}
		for _, probe := range vxC19Probes {
			i++
			if !mc.Mine(i) {
				continue
			}
			c, probe := c, probe
			jobs = append(jobs, func() { vxC19Concurrent(rep, probe, c, okc, guard) })
		}
	}
	vcmd.RunAll(jobs, 15*time.Millisecond)
	rep.Evaluations = int64(len(jobs))
	rep.AddDistinct(int64(len(jobs)))
	rep.Configs = int64(len(cases))
	rep.Sample(map[string]any{"site": "fans.CmdFan.GetPwm", "case": "output-non-numeric", "script": "#!/bin/sh\necho 'hello world'", "timeout_s": 2})
	rep.Note("concurrent callers: 3 goroutines inside CmdFan.GetRpm (7 getRpm failure modes) while a 4th calls GetRpm/GetPwm/SetPwm/GetRpmAvg/SetRpmAvg on the same fan; each call judged on its own clock")
	rep.Note("call sites: " + strings.Join(vxC19Sites, ", ") + " (timeout fixed at 2 s by fan2go)")
}
