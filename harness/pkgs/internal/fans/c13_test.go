package fans

// C13: measured fan limits follow the RPM curve; configured limits always win.
//
// Real NewFan + AttachFanRpmCurveData (+ a second attachment with different data) against an
// independent reference scan:
//   part 1: every map over PWM keys {0,1,50,128,254,255} x RPM values {0,1,500,500.7,1000}
//           (6^6 = 46 656 maps incl. the empty map) + nil, x 8 configured/unconfigured combinations
//           of minPwm/startPwm/maxPwm x neverStop x {hwmon,file,cmd};
//   part 2: all ordered pairs of maps from a core (first attachment, then a second one).

import (
	"fmt"
	"os"
	"sort"
	"testing"

	"github.com/markusressel/fan2go/internal/configuration"
	"github.com/markusressel/fan2go/internal/verifshim/mc"
	"github.com/pterm/pterm"
)

func init() {
	pterm.DisableOutput()
	os.Unsetenv("DISPLAY")
}

var vxC13Keys = []int{0, 1, 50, 128, 254, 255}
var vxC13Rpms = []float64{0, 1, 500, 500.7, 1000}
var vxC13Kinds = []string{"hwmon", "file", "cmd"}

// configured values: chosen so that none coincides with a key of the data or a default (0, 1, 255)
const (
	vxC13CfgMin   = 7
	vxC13CfgStart = 33
	vxC13CfgMax   = 200
)

type vxC13Pt struct {
	Pwm int     `json:"pwm"`
	Rpm float64 `json:"rpm"`
}

type vxC13Data struct {
	Nil bool      `json:"nil,omitempty"`
	Pts []vxC13Pt `json:"pts"`
}

func (d vxC13Data) Map() *map[int]float64 {
	if d.Nil {
		return nil
	}
	m := make(map[int]float64, len(d.Pts))
	for _, p := range d.Pts {
		m[p.Pwm] = p.Rpm
	}
	return &m
}

func (d vxC13Data) String() string {
	if d.Nil {
		return "nil"
	}
	s := "{"
	for i, p := range d.Pts {
		if i > 0 {
			s += " "
		}
		s += fmt.Sprintf("%d:%v", p.Pwm, p.Rpm)
	}
	return s + "}"
}

type vxC13Case struct {
	Kind      string    `json:"kind"`
	NeverStop bool      `json:"neverStop"`
	CfgMin    *int      `json:"cfgMin"` // nil = not configured
	CfgStart  *int      `json:"cfgStart"`
	CfgMax    *int      `json:"cfgMax"`
	First     vxC13Data `json:"first"`
	HasSecond bool      `json:"hasSecond"`
	Second    vxC13Data `json:"second"`
	// Reuse: how the second data set reaches the fan: 0 = a new map object, 1 = the SAME map object refilled in place
	// (what UpdateFanRpmCurveValue does to attached data), 2 = the same variable now holding a new map
	Reuse int `json:"reuse,omitempty"`
}

func (c vxC13Case) String() string {
	p := func(x *int) string {
		if x == nil {
			return "-"
		}
		return fmt.Sprint(*x)
	}
	s := fmt.Sprintf("%s neverStop=%v configured(min=%s start=%s max=%s) first=%v", c.Kind, c.NeverStop, p(c.CfgMin), p(c.CfgStart), p(c.CfgMax), c.First)
	if c.HasSecond {
		s += fmt.Sprintf(" second=%v", c.Second)
	}
	return s
}

// ---- independent reference

type vxC13Ref struct {
	Empty    bool // nil or no points: attachment must be refused
	AllZero  bool // no measured PWM has a whole-number RPM > 0: the statement defines no start PWM
	Start    int  // lowest measured PWM with whole-number RPM > 0
	Max      int  // lowest measured PWM at which the highest whole-number RPM is reached
	MaxWhole int
}

func vxC13Reference(d vxC13Data) vxC13Ref {
	if d.Nil || len(d.Pts) == 0 {
		return vxC13Ref{Empty: true}
	}
	pts := append([]vxC13Pt(nil), d.Pts...)
	sort.Slice(pts, func(i, j int) bool { return pts[i].Pwm < pts[j].Pwm })
	r := vxC13Ref{AllZero: true}
	// highest whole-number RPM over all points
	for _, p := range pts {
		if w := int(p.Rpm); w > r.MaxWhole {
			r.MaxWhole = w
		}
	}
	for _, p := range pts { // ascending PWM: first hit = lowest PWM
		if int(p.Rpm) > 0 {
			r.Start = p.Pwm
			r.AllZero = false
			break
		}
	}
	for _, p := range pts {
		if int(p.Rpm) == r.MaxWhole {
			r.Max = p.Pwm
			break
		}
	}
	return r
}

type vxC13Limits struct{ Min, Start, Max int }

func vxC13Read(f Fan) vxC13Limits {
	return vxC13Limits{f.GetMinPwm(), f.GetStartPwm(), f.GetMaxPwm()}
}

func vxC13NewFan(c vxC13Case) (Fan, error) {
	cp := func(x *int) *int {
		if x == nil {
			return nil
		}
		v := *x
		return &v
	}
	cfg := configuration.FanConfig{ID: "vx", Curve: "c", NeverStop: c.NeverStop, MinPwm: cp(c.CfgMin), StartPwm: cp(c.CfgStart), MaxPwm: cp(c.CfgMax)}
	switch c.Kind {
	case "hwmon":
		cfg.HwMon = &configuration.HwMonFanConfig{Platform: "vx", Index: 1, PwmPath: "/nonexistent/pwm1", RpmInputPath: "/nonexistent/fan1_input", PwmEnablePath: "/nonexistent/pwm1_enable"}
	case "file":
		cfg.File = &configuration.FileFanConfig{Path: "/nonexistent/pwm", RpmPath: "/nonexistent/rpm"}
	case "cmd":
		cfg.Cmd = &configuration.CmdFanConfig{
			SetPwm: &configuration.ExecConfig{Exec: "/nonexistent/set"},
			GetPwm: &configuration.ExecConfig{Exec: "/nonexistent/get"},
		}
	}
	return NewFan(cfg)
}

type vxC13Fail struct{ sig, detail string }

// vxC13Stats is filled by the harness for notes / non-vacuity.
type vxC13Stats struct {
	allZeroHwmon      map[string]int64 // what the code reports for all-zero data (not judged)
	nonHwmonCfgIgnore int64            // file/cmd fans report fixed limits although limits are configured (not judged under C13)
	measuredJudged    int64
	refusals          int64
}

// vxC13Check runs one case through the real code; returns failures (empty = holds).
func vxC13Check(c vxC13Case, st *vxC13Stats) (fails []vxC13Fail) {
	defer func() {
		if x := recover(); x != nil {
			fails = append(fails, vxC13Fail{"C13 panic in attach/limits", fmt.Sprintf("%v: panic: %v", c, x)})
		}
	}()
	fan, err := vxC13NewFan(c)
	if err != nil || fan == nil {
		return []vxC13Fail{{"C13 NewFan failed", fmt.Sprintf("%v: %v", c, err)}}
	}
	var held *map[int]float64 // what the first attachment passed
	attach := func(which string, d vxC13Data, prevMeasured *vxC13Ref) {
		before := vxC13Read(fan)
		arg := d.Map()
		if which == "second" && held != nil && arg != nil {
			switch c.Reuse {
			case 1:
				for k := range *held {
					delete(*held, k)
				}
				for k, v := range *arg {
					(*held)[k] = v
				}
				arg = held
			case 2:
				*held = *arg
				arg = held
			}
		}
		if which == "first" {
			held = arg
		}
		err := fan.AttachFanRpmCurveData(arg)
		after := vxC13Read(fan)
		ref := vxC13Reference(d)
		pre := "C13 " + which + " attachment: "
		say := func(class, format string, a ...any) {
			fails = append(fails, vxC13Fail{pre + class, fmt.Sprintf("%v: %s attachment of %v: ", c, which, d) + fmt.Sprintf(format, a...) +
				fmt.Sprintf(" [limits before min/start/max=%v after=%v]", before, after)})
		}
		// configured limits always win (every kind of data, every fan kind that honours limits at all)
		if c.Kind == "hwmon" {
			if c.CfgStart != nil && after.Start != *c.CfgStart {
				say("configured startPwm replaced", "GetStartPwm()=%d, configured %d", after.Start, *c.CfgStart)
			}
			if c.CfgMax != nil && after.Max != *c.CfgMax {
				say("configured maxPwm replaced", "GetMaxPwm()=%d, configured %d", after.Max, *c.CfgMax)
			}
			if c.NeverStop && c.CfgMin != nil && after.Min != *c.CfgMin {
				say("configured minPwm replaced", "GetMinPwm()=%d, configured %d", after.Min, *c.CfgMin)
			}
		} else {
			// file / cmd fans do not derive limits from measurements: an attachment must not change anything
			if after != before {
				say("limits of a fan kind without measured limits changed", "limits changed from %v to %v", before, after)
			}
			if c.CfgMin != nil || c.CfgStart != nil || c.CfgMax != nil {
				st.nonHwmonCfgIgnore++
			}
		}
		if !c.NeverStop && after.Min != 0 {
			say("minimum not 0 without neverStop", "GetMinPwm()=%d for a fan without neverStop", after.Min)
		}
		if c.Kind != "hwmon" {
			return
		}
		if ref.Empty {
			st.refusals++
			if err == nil {
				say("empty data accepted", "no error for data without measurements")
			}
			if after != before {
				say("empty data changed limits", "limits changed from %v to %v", before, after)
			}
			return
		}
		if err != nil {
			say("non-empty data refused", "error %v", err)
			return
		}
		if ref.AllZero {
			// no measured PWM has RPM > 0: the statement defines no start PWM; any non-crashing result is accepted
			if c.CfgStart == nil && c.CfgMax == nil && !(c.NeverStop && c.CfgMin != nil) {
				if which == "first" {
					st.allZeroHwmon[fmt.Sprintf("first attachment, neverStop=%v: min/start/max=%v", c.NeverStop, after)]++
				} else if after.Start == before.Start && after.Min == before.Min {
					st.allZeroHwmon[fmt.Sprintf("second attachment, neverStop=%v: start and minimum stay what they were before, max=%d", c.NeverStop, after.Max)]++
				} else {
					st.allZeroHwmon[fmt.Sprintf("second attachment, neverStop=%v: min/start/max=%v (before: %v)", c.NeverStop, after, before)]++
				}
			}
			return
		}
		st.measuredJudged++
		// a wrong value that equals what the FIRST data yields = the stale-measurement class
		stale := func(got int) bool {
			return prevMeasured != nil && !prevMeasured.Empty && !prevMeasured.AllZero && got == prevMeasured.Start
		}
		staleSig := "C13 second attachment keeps stale measured start/min"
		if c.CfgStart == nil && after.Start != ref.Start {
			if stale(after.Start) {
				fails = append(fails, vxC13Fail{staleSig, fmt.Sprintf("%v: after the second attachment GetStartPwm()=%d = first spin of the FIRST data; the attached data first spins at %d [before=%v after=%v]", c, after.Start, ref.Start, before, after)})
			} else {
				say("start PWM is not the lowest PWM with RPM > 0", "GetStartPwm()=%d, lowest measured PWM with whole RPM > 0 is %d", after.Start, ref.Start)
			}
		}
		if c.CfgMax == nil && after.Max != ref.Max {
			say("max PWM is not the lowest PWM reaching the highest RPM", "GetMaxPwm()=%d, highest whole RPM %d is first reached at %d", after.Max, ref.MaxWhole, ref.Max)
		}
		if c.NeverStop && c.CfgMin == nil {
			// the statement does not define a measured minimum; the code documents "no way to determine this yet"
			// and uses the start PWM: accept the measured start or the effective (configured) start, nothing else
			effStart := ref.Start
			if c.CfgStart != nil {
				effStart = *c.CfgStart
			}
			if after.Min != ref.Start && after.Min != effStart {
				if stale(after.Min) {
					fails = append(fails, vxC13Fail{staleSig, fmt.Sprintf("%v: after the second attachment GetMinPwm()=%d = first spin of the FIRST data; the attached data first spins at %d [before=%v after=%v]", c, after.Min, ref.Start, before, after)})
				} else {
					say("measured minimum is neither the measured nor the effective start PWM", "GetMinPwm()=%d, measured start %d, effective start %d", after.Min, ref.Start, effStart)
				}
			}
		}
	}
	attach("first", c.First, nil)
	if c.HasSecond {
		r1 := vxC13Reference(c.First)
		attach("second", c.Second, &r1)
	}
	return fails
}

// ---- enumeration

func vxC13DataOf(code int) vxC13Data {
	d := vxC13Data{Pts: []vxC13Pt{}}
	for i := 0; i < len(vxC13Keys); i++ {
		digit := code % (len(vxC13Rpms) + 1)
		code /= len(vxC13Rpms) + 1
		if digit != 0 {
			d.Pts = append(d.Pts, vxC13Pt{vxC13Keys[i], vxC13Rpms[digit-1]})
		}
	}
	return d
}

type vxC13Cfg struct {
	kind      string
	neverStop bool
	min       *int
	start     *int
	max       *int
}

func vxC13Configs(vals [][3]int) []vxC13Cfg {
	var r []vxC13Cfg
	for _, v := range vals {
		for _, kind := range vxC13Kinds {
			for _, ns := range []bool{false, true} {
				for mask := 0; mask < 8; mask++ {
					if mask == 0 && v != vals[0] {
						continue // the all-unconfigured combination is the same for every value set
					}
					c := vxC13Cfg{kind: kind, neverStop: ns}
					if mask&1 != 0 {
						x := v[0]
						c.min = &x
					}
					if mask&2 != 0 {
						x := v[1]
						c.start = &x
					}
					if mask&4 != 0 {
						x := v[2]
						c.max = &x
					}
					r = append(r, c)
				}
			}
		}
	}
	return r
}

func vxC13P(pairs ...float64) vxC13Data {
	d := vxC13Data{Pts: []vxC13Pt{}}
	for i := 0; i+1 < len(pairs); i += 2 {
		d.Pts = append(d.Pts, vxC13Pt{int(pairs[i]), pairs[i+1]})
	}
	return d
}

// vxC13Core: the maps of the repeated-attachment pairs (first spin / maximum at every key, all-zero, plateaus,
// non-monotonic, single points, fractional RPM, dense ramp, empty, nil).
func vxC13Core() []vxC13Data {
	core := []vxC13Data{
		{Nil: true},
		vxC13P(),
		// single points
		vxC13P(0, 0), vxC13P(0, 500), vxC13P(1, 1), vxC13P(50, 500), vxC13P(128, 0), vxC13P(255, 1000), vxC13P(255, 0), vxC13P(20, 700),
		// all zero
		vxC13P(0, 0, 50, 0, 255, 0), vxC13P(1, 0, 128, 0),
		// first spin at each key, maximum at the end
		vxC13P(0, 500, 50, 700, 255, 1000),
		vxC13P(0, 0, 1, 1, 50, 500, 255, 1000),
		vxC13P(0, 0, 1, 0, 50, 500, 128, 800, 255, 1000),
		vxC13P(0, 0, 50, 0, 128, 500, 254, 900, 255, 1000),
		vxC13P(0, 0, 50, 0, 128, 0, 254, 500, 255, 1000),
		vxC13P(0, 0, 50, 0, 128, 0, 254, 0, 255, 1000),
		vxC13P(0, 0, 20, 500, 255, 1000),        // DESIGN probe: first spin at 20 ...
		vxC13P(0, 0, 20, 0, 50, 500, 255, 1000), // ... after first spin at 50
		vxC13P(0, 0, 10, 0, 30, 300, 100, 900, 200, 1000),
		// plateaus at the top: maximum reached early
		vxC13P(0, 0, 50, 1000, 128, 1000, 255, 1000),
		vxC13P(0, 0, 50, 500, 128, 1000, 254, 1000, 255, 1000),
		vxC13P(0, 1000, 255, 1000),
		vxC13P(1, 500, 50, 500, 128, 500),
		vxC13P(0, 0, 50, 500, 128, 500.7, 255, 500), // same whole RPM: max at 50
		vxC13P(0, 0, 50, 500.7, 128, 500, 255, 500.7),
		vxC13P(50, 500, 128, 500.7, 255, 1000),
		// plateaus at the bottom / in the middle
		vxC13P(0, 0, 1, 0, 50, 0, 128, 1, 254, 1, 255, 1),
		vxC13P(0, 1, 1, 1, 50, 500, 128, 500, 254, 1000, 255, 1000),
		// non-monotonic
		vxC13P(0, 500, 50, 0, 128, 1000, 255, 500),
		vxC13P(0, 0, 50, 1000, 128, 500, 255, 1000),
		vxC13P(0, 1000, 50, 500, 128, 1, 255, 0),
		vxC13P(0, 0, 1, 500, 50, 0, 128, 500, 254, 0, 255, 500),
		vxC13P(1, 1, 50, 0, 254, 1000, 255, 1),
		vxC13P(0, 0, 128, 1000, 254, 0, 255, 0),
		// sparse
		vxC13P(0, 0, 255, 1000), vxC13P(0, 0, 255, 1), vxC13P(1, 0, 254, 500), vxC13P(50, 0, 128, 1000), vxC13P(254, 1, 255, 1000),
		vxC13P(0, 0, 254, 1000), vxC13P(128, 500, 255, 1000), vxC13P(1, 1000), vxC13P(254, 500.7),
		// values below one whole RPM
		vxC13P(0, 0, 50, 0.4, 128, 500, 255, 1000),
		vxC13P(0, 0.9, 50, 0.9, 255, 0.9),
		// first spin late / at the last key, maximum in the middle
		vxC13P(0, 0, 1, 0, 50, 0, 128, 0, 254, 0, 255, 1),
		vxC13P(0, 0, 1, 0, 50, 1000, 128, 500, 254, 1, 255, 0),
		vxC13P(0, 0, 100, 400, 150, 1200, 200, 1100, 255, 1150),
		vxC13P(0, 0, 40, 0, 41, 300, 255, 2000),
		vxC13P(0, 0, 60, 0, 61, 300, 240, 2000, 255, 2000),
		vxC13P(0, 300, 10, 300, 255, 300),
		vxC13P(5, 0, 6, 100),
		vxC13P(0, 0, 2, 100, 3, 100),
		vxC13P(0, 1, 255, 1),
		vxC13P(0, 0, 1, 1000, 255, 1000),
		vxC13P(0, 0, 1, 0, 50, 1, 128, 500, 254, 500.7, 255, 1000),
		vxC13P(0, 1000, 1, 500.7, 50, 500, 128, 1, 254, 0, 255, 0),
		vxC13P(0, 500.7, 1, 500),
	}
	// dense ramp 0..255 with first spin at 30 and saturation at 220
	d := vxC13Data{Pts: []vxC13Pt{}}
	for pwm := 0; pwm <= 255; pwm++ {
		rpm := 0.0
		if pwm >= 30 {
			rpm = float64(300 + (pwm-30)*10)
		}
		if pwm >= 220 {
			rpm = 2200
		}
		d.Pts = append(d.Pts, vxC13Pt{pwm, rpm})
	}
	core = append(core, d)
	return core
}

func vxC13CaseOf(cfg vxC13Cfg, first vxC13Data, second *vxC13Data) vxC13Case {
	c := vxC13Case{Kind: cfg.kind, NeverStop: cfg.neverStop, CfgMin: cfg.min, CfgStart: cfg.start, CfgMax: cfg.max, First: first}
	if second != nil {
		c.HasSecond = true
		c.Second = *second
	}
	return c
}

func TestVX_C13(t *testing.T) {
	rep := mc.NewReport("C13", "fans/limits")
	defer rep.Write()
	st := &vxC13Stats{allZeroHwmon: map[string]int64{}}
	report := func(c vxC13Case, fails []vxC13Fail) {
		for _, f := range fails {
			rep.Violate(mc.Violation{Signature: f.sig, Detail: f.detail, Replay: c})
		}
	}
	var rc vxC13Case
	if mc.ReplayCase(&rc) {
		rep.Evaluations = 1
		report(rc, vxC13Check(rc, st))
		return
	}

	valueSets := [][3]int{{vxC13CfgMin, vxC13CfgStart, vxC13CfgMax}}
	if mc.Thorough() {
		// boundary values for the configured limits as well (0 / 255 coincide with defaults and data keys)
		valueSets = append(valueSets, [3]int{0, 255, 255}, [3]int{255, 0, 0}, [3]int{50, 50, 128})
	}
	cfgs := vxC13Configs(valueSets)
	rep.Configs = int64(len(cfgs))

	// ---- part 1: every map x every configuration, single attachment
	nmaps := 1
	for range vxC13Keys {
		nmaps *= len(vxC13Rpms) + 1
	}
	var evals, nontrivial int64
	for code := -1; code < nmaps; code++ { // -1 = nil
		if !mc.Mine(code + 1) {
			continue
		}
		var d vxC13Data
		if code < 0 {
			d = vxC13Data{Nil: true}
		} else {
			d = vxC13DataOf(code)
		}
		ref := vxC13Reference(d)
		for _, cfg := range cfgs {
			c := vxC13CaseOf(cfg, d, nil)
			evals++
			fails := vxC13Check(c, st)
			if len(fails) > 0 {
				report(c, fails)
			}
			if cfg.kind == "hwmon" && !ref.Empty && !ref.AllZero {
				nontrivial++
			}
		}
		if code == 7*6*6*6+3*6+2 || code == 12345 || code == -1 {
			c := vxC13CaseOf(cfgs[0], d, nil)
			fan, _ := vxC13NewFan(c)
			err := fan.AttachFanRpmCurveData(d.Map())
			rep.Sample(map[string]any{"case": c.String(), "error": fmt.Sprint(err), "min/start/max": fmt.Sprint(vxC13Read(fan)), "reference": fmt.Sprintf("%+v", ref)})
		}
	}
	rep.Count("part1-single-attachment-cases", evals)

	// ---- part 2: all ordered pairs of core maps, two attachments
	core := vxC13Core()
	if mc.Thorough() {
		// plus every map over keys {1,50,128,255} x RPM {0,500,1000}
		keys := []int{1, 50, 128, 255}
		rpms := []float64{0, 500, 1000}
		for code := 1; code < 256; code++ {
			d := vxC13Data{Pts: []vxC13Pt{}}
			x := code
			for _, k := range keys {
				digit := x % 4
				x /= 4
				if digit != 0 {
					d.Pts = append(d.Pts, vxC13Pt{k, rpms[digit-1]})
				}
			}
			core = append(core, d)
		}
	}
	var pairs int64
	idx := 0
	for i := range core {
		for j := range core {
			idx++
			if !mc.Mine(idx) {
				continue
			}
			r2 := vxC13Reference(core[j])
			for _, cfg := range cfgs {
				for reuse := 0; reuse < 3; reuse++ {
					c := vxC13CaseOf(cfg, core[i], &core[j])
					c.Reuse = reuse
					pairs++
					fails := vxC13Check(c, st)
					if len(fails) > 0 {
						report(c, fails)
					}
				}
				if cfg.kind == "hwmon" && !r2.Empty && !r2.AllZero && i != j {
					nontrivial++
				}
			}
		}
	}
	rep.Count("part2-double-attachment-cases", pairs)
	rep.Evaluations = evals + pairs
	rep.AddDistinct(nontrivial)
	rep.Count("hwmon-attachments-judged-against-reference-scan", st.measuredJudged)
	rep.Count("hwmon-empty-or-nil-attachments", st.refusals)
	rep.Count("file/cmd-cases-with-configured-limits-reported-as-fixed-0/1/255", st.nonHwmonCfgIgnore)
	if s, n := mc.Shard(); s == 0 {
		_ = n
		rep.Sample(map[string]any{"pair": vxC13CaseOf(cfgs[0], core[19], &core[18]).String(), "expected": "after the second attachment start (and never-stop minimum) = 20"})
		var keys []string
		for k := range st.allZeroHwmon {
			keys = append(keys, k)
		}
		sort.Strings(keys)
		for _, k := range keys {
			rep.Note(fmt.Sprintf("not judged - all-zero data (no PWM with RPM > 0, the statement defines no start PWM), no limit configured: code reports %s (%d cases on shard 0)", k, st.allZeroHwmon[k]))
		}
		rep.Note("not judged under C13 - file and cmd fans do not derive limits from measurements and report fixed min/start/max = 0/1/255 even when minPwm/startPwm/maxPwm are configured; " +
			"the oracle for these kinds is: attachment changes nothing, minimum 0 without neverStop, no panic; empty data is not refused by them (nothing is derived)")
		rep.Note(fmt.Sprintf("part 1: %d maps (6^6 incl. empty) + nil over keys %v x RPM %v; configured values min/start/max = %v; part 2: %d core maps -> %d ordered pairs; distinct_nontrivial = hwmon cases whose (last) attached data has a PWM with RPM > 0 (second differs from first)",
			nmaps, vxC13Keys, vxC13Rpms, valueSets, len(core), len(core)*len(core)))
	}
}
