package curves

// C07/C06 under concurrency: several fan controllers evaluate ONE shared function curve object at the same time (each
// controller ticks on its own goroutine). The controlled scheduler (vsched) parks every goroutine inside every member
// evaluation; the explorer enumerates which parked goroutine continues, i.e. all interleavings of the evaluations at
// member granularity. Oracle per thread: the value it gets for the hotter member values equals the definition of the
// function over those values (so it is >= the value it got for the cooler ones: hotter never means slower).

import (
	"bytes"
	"fmt"
	"runtime"
	"sync"
	"testing"
	"testing/synctest"
	"time"

	"github.com/markusressel/fan2go/internal/configuration"
	"github.com/markusressel/fan2go/internal/verifshim/mc"
	"github.com/markusressel/fan2go/internal/verifshim/vsched"
)

type vxConcCfg struct {
	Outer   string `json:"outer"`
	Inner   string `json:"inner"` // "" = flat
	Members int    `json:"members"`
	Threads int    `json:"threads"`
	Cool    []int  `json:"cool"`
	Hot     []int  `json:"hot"`
}

type vxConcCase struct {
	Cfg  vxConcCfg `json:"cfg"`
	Tape []int     `json:"tape"`
}

// vxPStub: member curve whose evaluation is a scheduling point (labelled with the evaluating thread).
type vxPStub struct {
	id  string
	val int
}

var vxConcNames sync.Map // goroutine id -> thread label

func vxGoid() string {
	b := make([]byte, 64)
	b = b[:runtime.Stack(b, false)]
	b = bytes.TrimPrefix(b, []byte("goroutine "))
	if i := bytes.IndexByte(b, ' '); i > 0 {
		b = b[:i]
	}
	return string(b)
}

func (s *vxPStub) GetId() string { return s.id }
func (s *vxPStub) Evaluate() (int, error) {
	if n, ok := vxConcNames.Load(vxGoid()); ok {
		vsched.Point(n.(string))
	}
	return s.val, nil
}
func (s *vxPStub) CurrentValue() int { return s.val }

var vxPStubs []*vxPStub

func vxConcRef(cfg vxConcCfg, vals []int) int {
	if cfg.Inner == "" {
		return vxRefFunc(cfg.Outer, vals[:cfg.Members])
	}
	// outer(m0, inner(m1..))
	return vxRefFunc(cfg.Outer, []int{vals[0], vxRefFunc(cfg.Inner, vals[1:cfg.Members])})
}

func vxConcExec(t *testing.T, cfg vxConcCfg, x *mc.X) (viol []mc.Violation) {
	if vxPStubs == nil {
		for i := 0; i < 4; i++ {
			s := &vxPStub{id: fmt.Sprintf("vxp%d", i)}
			vxPStubs = append(vxPStubs, s)
			RegisterSpeedCurve(s)
		}
	}
	var ids []string
	for i := 0; i < cfg.Members; i++ {
		ids = append(ids, vxPStubs[i].id)
	}
	var root SpeedCurve
	if cfg.Inner == "" {
		root = vxNewCurve(configuration.CurveConfig{ID: "vxconc", Function: &configuration.FunctionCurveConfig{Type: cfg.Outer, Curves: ids}})
	} else {
		inner := vxNewCurve(configuration.CurveConfig{ID: "vxconc-inner", Function: &configuration.FunctionCurveConfig{Type: cfg.Inner, Curves: ids[1:]}})
		RegisterSpeedCurve(inner)
		root = vxNewCurve(configuration.CurveConfig{ID: "vxconc", Function: &configuration.FunctionCurveConfig{Type: cfg.Outer, Curves: []string{ids[0], "vxconc-inner"}}})
	}
	r1 := make([]int, cfg.Threads)
	r2 := make([]int, cfg.Threads)
	errs := make([]string, cfg.Threads)
	maxParked := 0
	synctest.Test(t, func(t *testing.T) {
		// phase 1: the cooler values, one thread after the other
		for i := 0; i < cfg.Members; i++ {
			vxPStubs[i].val = cfg.Cool[i]
		}
		for k := 0; k < cfg.Threads; k++ {
			v, err := root.Evaluate()
			if err != nil {
				errs[k] = err.Error()
			}
			r1[k] = v
		}
		// phase 2: hotter values, all threads at once under the controlled scheduler
		for i := 0; i < cfg.Members; i++ {
			vxPStubs[i].val = cfg.Hot[i]
		}
		sched, stop := vsched.Start(func(n int, labels []string) int {
			return x.Choose(n, fmt.Sprintf("which of %d controllers inside a member evaluation continues", n))
		})
		var wg sync.WaitGroup
		for k := 0; k < cfg.Threads; k++ {
			wg.Add(1)
			go func(k int) {
				defer wg.Done()
				id := vxGoid()
				vxConcNames.Store(id, fmt.Sprintf("ctl%d", k))
				defer vxConcNames.Delete(id)
				defer func() {
					if p := recover(); p != nil {
						errs[k] = fmt.Sprintf("panic: %v", p)
					}
				}()
				v, err := root.Evaluate()
				if err != nil {
					errs[k] = err.Error()
				}
				r2[k] = v
			}(k)
		}
		wg.Wait()
		maxParked = sched.MaxParked
		stop()
	})
	x.Logf("r1=%v r2=%v parked=%d", r1, r2, maxParked)
	wantCool, wantHot := vxConcRef(cfg, cfg.Cool), vxConcRef(cfg, cfg.Hot)
	for k := 0; k < cfg.Threads; k++ {
		desc := fmt.Sprintf("%d controllers evaluate the shared curve %s concurrently; member values %v then (hotter) %v; controller %d got %d then %d; definition gives %d then %d; schedule tape %v",
			cfg.Threads, vxConcName(cfg), cfg.Cool[:cfg.Members], cfg.Hot[:cfg.Members], k, r1[k], r2[k], wantCool, wantHot, x.Tape())
		switch {
		case errs[k] != "":
			viol = append(viol, mc.Violation{Property: "C07", Signature: "C07 concurrent evaluation of a shared function curve fails", Detail: errs[k] + "\n" + desc, Replay: vxConcCase{cfg, x.Tape()}})
		case r2[k] < r1[k] && wantHot >= wantCool:
			viol = append(viol, mc.Violation{Property: "C07", Signature: "C07 hotter means slower when controllers share a function curve", Detail: desc, Replay: vxConcCase{cfg, x.Tape()}})
		case r2[k] != wantHot || r1[k] != wantCool:
			viol = append(viol, mc.Violation{Property: "C07", Signature: "C07 concurrent evaluation of a shared function curve differs from its definition", Detail: desc, Replay: vxConcCase{cfg, x.Tape()}})
		}
	}
	if maxParked < 2 && cfg.Threads > 1 {
		viol = append(viol, mc.Violation{Property: "C07", Signature: "C07 harness: controllers never met inside a member evaluation", Detail: fmt.Sprintf("max parked %d", maxParked), Replay: vxConcCase{cfg, x.Tape()}})
	}
	return
}

func vxConcName(cfg vxConcCfg) string {
	if cfg.Inner == "" {
		return fmt.Sprintf("%s(m0..m%d)", cfg.Outer, cfg.Members-1)
	}
	return fmt.Sprintf("%s(m0, %s(m1..m%d))", cfg.Outer, cfg.Inner, cfg.Members-1)
}

func TestVX_C07conc(t *testing.T) {
	rep := mc.NewReport("C07", "curves/shared-function-curve")
	defer rep.Write()
	vxSetup()
	defer vxCleanup()
	var rc vxConcCase
	if mc.ReplayCase(&rc) {
		if rc.Cfg.Outer == "" {
			return
		}
		for _, v := range vxConcExec(t, rc.Cfg, mc.NewX(rc.Tape)) {
			rep.Violate(v)
		}
		rep.Evaluations = 1
		return
	}
	var cfgs []vxConcCfg
	types := []string{configuration.FunctionSum, configuration.FunctionMaximum, configuration.FunctionMinimum, configuration.FunctionAverage, configuration.FunctionDelta, configuration.FunctionDifference}
	cool, hot := []int{70, 30, 10, 5}, []int{75, 35, 20, 6}
	for _, ty := range types {
		cfgs = append(cfgs, vxConcCfg{Outer: ty, Members: 2, Threads: 2, Cool: cool, Hot: hot})
		cfgs = append(cfgs, vxConcCfg{Outer: ty, Members: 3, Threads: 2, Cool: cool, Hot: hot})
		cfgs = append(cfgs, vxConcCfg{Outer: ty, Inner: configuration.FunctionMaximum, Members: 3, Threads: 2, Cool: cool, Hot: hot})
		cfgs = append(cfgs, vxConcCfg{Outer: configuration.FunctionAverage, Inner: ty, Members: 3, Threads: 2, Cool: cool, Hot: hot})
		if mc.Thorough() {
			cfgs = append(cfgs, vxConcCfg{Outer: ty, Members: 2, Threads: 3, Cool: cool, Hot: hot})
			cfgs = append(cfgs, vxConcCfg{Outer: ty, Members: 4, Threads: 2, Cool: cool, Hot: hot})
		}
	}
	for ci, cfg := range cfgs {
		if !mc.Mine(ci) {
			continue
		}
		st := mc.Explore(rep, mc.ExploreOpts{Bound: 16, RecheckN: 50, Deadline: mc.Deadline(60*time.Second, 10*time.Minute)}, func(prefix []int) mc.Exec {
			x := mc.NewX(prefix)
			v := vxConcExec(t, cfg, x)
			return mc.Exec{Points: x.Points, Outcome: fmt.Sprintf("%+v | %s", cfg, x.Obs()), Viol: v}
		})
		rep.Configs++
		if st.Capped {
			rep.Cap("deadline reached in the shared-curve schedules of " + vxConcName(cfg))
		}
		if ci%6 == 0 {
			rep.Sample(map[string]any{"curve": vxConcName(cfg), "controllers": cfg.Threads, "interleavings": st.Executions, "max_choice_points": st.MaxPoints})
		}
	}
	rep.Note("controllers sharing one function curve object: every member evaluation is a scheduling point, all interleavings enumerated (unbounded number of preemptions); oracle = each controller's value equals the definition over the current member values")
}
