package curves

// C06 while the sensor monitor is at work: a controller evaluates a linear curve while the monitor goroutine stores a new
// smoothed value in the same sensor. Every lock operation of the sensor is a scheduling point (vsched); all interleavings are
// enumerated. The value must be the curve's value for ONE of the two sensor states (before or after the update) - in
// particular inside 0..255 - never a mixture of both.

import (
	"fmt"
	"sync"
	"testing"
	"testing/synctest"
	"time"

	"github.com/markusressel/fan2go/internal/configuration"
	"github.com/markusressel/fan2go/internal/verifshim/mc"
	"github.com/markusressel/fan2go/internal/verifshim/vsched"
)

type vxC06ConcCfg struct {
	Steps  bool    `json:"steps"`
	Before float64 `json:"before"`
	After  float64 `json:"after"`
}

type vxC06ConcCase struct {
	Cfg  vxC06ConcCfg `json:"cfg"`
	Tape []int        `json:"tape"`
}

func vxC06ConcExec(t *testing.T, cfg vxC06ConcCfg, x *mc.X) (viol []mc.Violation) {
	cc := configuration.CurveConfig{ID: "vxc06conc", Linear: &configuration.LinearCurveConfig{Sensor: "vxs", Min: 40, Max: 80}}
	if cfg.Steps {
		cc.Linear = &configuration.LinearCurveConfig{Sensor: "vxs", Steps: map[int]float64{40: 10, 60: 100, 80: 250}}
	}
	curve := vxNewCurve(cc)
	var got int
	var errS string
	maxParked := 0
	var refBefore, refAfter int
	synctest.Test(t, func(t *testing.T) {
		vxSharedSensor.SetMovingAvg(cfg.After)
		refAfter, _ = curve.Evaluate()
		vxSharedSensor.SetMovingAvg(cfg.Before)
		refBefore, _ = curve.Evaluate()
		sched, stop := vsched.Start(func(n int, labels []string) int {
			return x.Choose(n, fmt.Sprintf("which of %d goroutines at a sensor lock continues", n))
		})
		var wg sync.WaitGroup
		wg.Add(2)
		go func() {
			defer wg.Done()
			vsched.SetName("controller")
			defer vsched.ClearName()
			defer func() {
				if p := recover(); p != nil {
					errS = fmt.Sprintf("panic: %v", p)
				}
			}()
			v, err := curve.Evaluate()
			if err != nil {
				errS = err.Error()
			}
			got = v
		}()
		go func() {
			defer wg.Done()
			vsched.SetName("monitor")
			defer vsched.ClearName()
			vxSharedSensor.SetMovingAvg(cfg.After)
		}()
		wg.Wait()
		maxParked = sched.MaxParked
		stop()
	})
	x.Logf("got=%d refs=%d/%d parked=%d", got, refBefore, refAfter, maxParked)
	desc := fmt.Sprintf("linear curve (steps=%v; min 40 / max 80 or steps 40:10 60:100 80:250), smoothed value %v -> %v stored by the monitor while the controller evaluates; evaluation returned %d; the curve gives %d before and %d after the update; schedule tape %v",
		cfg.Steps, cfg.Before, cfg.After, got, refBefore, refAfter, x.Tape())
	switch {
	case errS != "":
		viol = append(viol, mc.Violation{Property: "C06", Signature: "C06 evaluation fails while the sensor is updated", Detail: errS + "\n" + desc, Replay: vxC06ConcCase{cfg, x.Tape()}})
	case got < 0 || got > 255:
		viol = append(viol, mc.Violation{Property: "C06", Signature: "C06 linear curve value outside 0..255 while the sensor is updated", Detail: desc, Replay: vxC06ConcCase{cfg, x.Tape()}})
	case got != refBefore && got != refAfter:
		viol = append(viol, mc.Violation{Property: "C06", Signature: "C06 linear curve value mixes two sensor states", Detail: desc, Replay: vxC06ConcCase{cfg, x.Tape()}})
	}
	if maxParked < 2 {
		viol = append(viol, mc.Violation{Property: "C06", Signature: "C06 harness: controller and monitor never met at a sensor lock", Detail: fmt.Sprintf("max parked %d", maxParked), Replay: vxC06ConcCase{cfg, x.Tape()}})
	}
	return
}

func TestVX_C06conc(t *testing.T) {
	rep := mc.NewReport("C06", "curves/evaluate-during-sensor-update")
	defer rep.Write()
	vxSetup()
	defer vxCleanup()
	var rc vxC06ConcCase
	if mc.ReplayCase(&rc) {
		if rc.Cfg.Before == 0 && rc.Cfg.After == 0 {
			return
		}
		for _, v := range vxC06ConcExec(t, rc.Cfg, mc.NewX(rc.Tape)) {
			rep.Violate(v)
		}
		rep.Evaluations = 1
		return
	}
	pairs := [][2]float64{{79900, 81000}, {81000, 79900}, {40100, 39000}, {39000, 40100}, {50000, 1e300}, {50000, -1e300}, {60000, 60000}, {45000, 75000}, {79999, 80001}, {1e300, 50000}}
	var cfgs []vxC06ConcCfg
	for _, st := range []bool{false, true} {
		for _, p := range pairs {
			cfgs = append(cfgs, vxC06ConcCfg{Steps: st, Before: p[0], After: p[1]})
		}
	}
	for ci, cfg := range cfgs {
		if !mc.Mine(ci) {
			continue
		}
		st := mc.Explore(rep, mc.ExploreOpts{Bound: 16, RecheckN: 20, Deadline: mc.Deadline(40*time.Second, 5*time.Minute)}, func(prefix []int) mc.Exec {
			x := mc.NewX(prefix)
			v := vxC06ConcExec(t, cfg, x)
			return mc.Exec{Points: x.Points, Outcome: fmt.Sprintf("%+v | %s", cfg, x.Obs()), Viol: v}
		})
		rep.Configs++
		if st.Capped {
			rep.Cap("deadline reached")
		}
		if ci%5 == 0 {
			rep.Sample(map[string]any{"config": fmt.Sprintf("%+v", cfg), "interleavings": st.Executions, "max_choice_points": st.MaxPoints})
		}
	}
	rep.Note("controller goroutine in LinearSpeedCurve.Evaluate vs monitor goroutine in HwmonSensor.SetMovingAvg; scheduling points at every lock operation of the sensor; all interleavings; oracle: value equals the curve's value for the state before or after the update")
}
