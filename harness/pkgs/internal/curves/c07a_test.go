package curves

// C07 (curve half): hotter never means slower.
//
// Ascending dense sweeps of the smoothed temperature (1 m-degree steps within +-50 m-degree of every
// breakpoint, 100 m-degree steps elsewhere, from 2 degrees below the lowest to 2 degrees above the highest
// breakpoint) through the REAL curve objects; every value must be >= the previous one (adjacent pairs of an
// ascending sweep imply all pairs T1 <= T2 of the grid):
//
//   - every linear min<max pair from {-20,0,1,40,41,80,120};
//   - every NON-DECREASING step set over temperatures {-10,0,40,41,80} x speeds {0,1,128,254,255} (1001 sets);
//   - every sum / maximum / minimum / average tree with <= 3 function nodes (<= 3 levels) over a catalogue of
//     monotone linear members, (a) all members on one shared sensor, (b) every member on its own sensor:
//     one sensor is raised through its member's range while the others rest at each combination of
//     {cold, in-range, hot}.

import (
	"fmt"
	"sort"
	"testing"

	"github.com/markusressel/fan2go/internal/configuration"
	"github.com/markusressel/fan2go/internal/sensors"
	"github.com/markusressel/fan2go/internal/verifshim/mc"
)

type vxMember struct {
	Name  string
	Min   int
	Max   int
	StepT []int
	StepV []int
}

func (m vxMember) bps() []int {
	if m.StepT != nil {
		return m.StepT
	}
	return []int{m.Min, m.Max}
}

// catalogue of monotone members for the function-tree sweeps
var vxMonoMembers = []vxMember{
	{Name: "m0", Min: 40, Max: 80},
	{Name: "m1", StepT: []int{40, 41, 80}, StepV: []int{0, 128, 255}},
	{Name: "m2", Min: 0, Max: 41},
	{Name: "m3", StepT: []int{-10, 0, 41, 80}, StepV: []int{1, 1, 254, 255}},
}

var (
	vxMonoTypes   = []string{configuration.FunctionSum, configuration.FunctionMaximum, configuration.FunctionMinimum, configuration.FunctionAverage}
	vxMonoFixed   = []int{-30000, 40500, 130000} // resting values of the sensors that are not being raised
	vxMonoSensors []sensors.Sensor               // own sensor of catalogue member j (FileSensor objects)
	vxMonoReady   bool
)

func (m vxMember) linear(sensor string) *configuration.LinearCurveConfig {
	if m.StepT == nil {
		return &configuration.LinearCurveConfig{Sensor: sensor, Min: m.Min, Max: m.Max}
	}
	steps := map[int]float64{}
	for i, x := range m.StepT {
		steps[x] = float64(m.StepV[i])
	}
	return &configuration.LinearCurveConfig{Sensor: sensor, Steps: steps}
}

func vxMonoSetup() {
	if vxMonoReady {
		return
	}
	vxMonoReady = true
	for j, m := range vxMonoMembers {
		p := vxFS.Add(fmt.Sprintf("file_sensor_%d", j), 0)
		s := vxNewSensor(configuration.SensorConfig{ID: fmt.Sprintf("vxi%d", j), File: &configuration.FileSensorConfig{Path: p}})
		vxMonoSensors = append(vxMonoSensors, s)
		vxNewCurve(configuration.CurveConfig{ID: "vxmono-s-" + m.Name, Linear: m.linear("vxs")})
		vxNewCurve(configuration.CurveConfig{ID: "vxmono-i-" + m.Name, Linear: m.linear(s.GetId())})
	}
}

func vxMemberIndex(name string) int {
	for j, m := range vxMonoMembers {
		if m.Name == name {
			return j
		}
	}
	panic("unknown member " + name)
}

// vxSweep: ascending m-degree grid for the given breakpoints (degrees).
func vxSweep(bps []int) []int {
	lo, hi := bps[0], bps[0]
	for _, b := range bps {
		if b < lo {
			lo = b
		}
		if b > hi {
			hi = b
		}
	}
	seen := map[int]bool{}
	var g []int
	for t := (lo - 2) * 1000; t <= (hi+2)*1000; t += 100 {
		if !seen[t] {
			seen[t] = true
			g = append(g, t)
		}
	}
	for _, b := range bps {
		for d := -50; d <= 50; d++ {
			if t := b*1000 + d; !seen[t] {
				seen[t] = true
				g = append(g, t)
			}
		}
	}
	sort.Ints(g)
	return g
}

// vxSweepCheck raises sensor s through grid and evaluates the real curve at every point.
func vxSweepCheck(rep *mc.Report, root SpeedCurve, s sensors.Sensor, grid []int) (f *vxFail) {
	defer func() {
		if r := recover(); r != nil {
			f = &vxFail{"panic", fmt.Sprintf("Evaluate panicked: %v", r)}
		}
	}()
	prev, prevT := 0, 0
	var rises int64
	vals := make([]int, len(grid))
	defer func() {
		if f != nil || len(grid) < 3 {
			return
		}
		// second pass over the SAME curve objects in a non-monotone visiting order (downwards in strides of 5, then
		// upwards in strides of 7 from an offset): the value at a temperature must be the one the ascending sweep saw
		// there, otherwise some pair T1 <= T2 of this walk has v(T1) > v(T2) (values that depend on the visiting history)
		var order []int
		for k := len(grid) - 1; k >= 0; k -= 5 {
			order = append(order, k)
		}
		for k := 3; k < len(grid); k += 7 {
			order = append(order, k)
		}
		lastK := -1
		for _, k := range order {
			s.SetMovingAvg(float64(grid[k]))
			v, err := root.Evaluate()
			rep.Evaluations++
			if err != nil {
				f = &vxFail{"error", fmt.Sprintf("Evaluate at %d m-degree returned error: %v", grid[k], err)}
				return
			}
			if v != vals[k] {
				from := "the start of the walk"
				if lastK >= 0 {
					from = fmt.Sprintf("%d m-degree", grid[lastK])
				}
				f = &vxFail{"not monotone", fmt.Sprintf("temperature walk down and up again: coming from %s, %d m-degree -> %d, but the ascending sweep over the same curve gave %d there (the value depends on the visiting history, so hotter can mean slower)", from, grid[k], v, vals[k])}
				return
			}
			lastK = k
		}
	}()
	for k, t := range grid {
		s.SetMovingAvg(float64(t))
		v, err := root.Evaluate()
		vals[k] = v
		rep.Evaluations++
		if err != nil {
			return &vxFail{"error", fmt.Sprintf("Evaluate at %d m-degree returned error: %v", t, err)}
		}
		if k > 0 && v < prev {
			return &vxFail{"not monotone", fmt.Sprintf("temperature %d m-degree -> %d, but hotter %d m-degree -> %d", prevT, prev, t, v)}
		}
		if k > 0 && v > prev {
			rises++
		}
		prev, prevT = v, t
	}
	rep.Transitions += int64(len(grid) - 1)
	rep.AddDistinct(rises) // adjacent pairs (T1<T2) across which the value actually moves
	return nil
}

func vxMonoLinear(rep *mc.Report, c vxCase) *vxFail {
	curve, bps, _ := vxLinearCurve(c)
	return vxSweepCheck(rep, curve, vxSharedSensor, vxSweep(bps))
}

func vxTreeMembers(t *vxTree, set map[int]bool) {
	if t.Leaf != "" {
		set[vxMemberIndex(t.Leaf)] = true
		return
	}
	for _, k := range t.Kids {
		vxTreeMembers(k, set)
	}
}

// vxMonoTreeShared: all members of the tree read the one shared sensor.
func vxMonoTreeShared(rep *mc.Report, t *vxTree) *vxFail {
	vxMonoSetup()
	used := map[int]bool{}
	vxTreeMembers(t, used)
	var bps []int
	for j := range vxMonoMembers {
		if used[j] {
			bps = append(bps, vxMonoMembers[j].bps()...)
		}
	}
	root, _ := vxBuildTree(t, func(name string) string { return "vxmono-s-" + name })
	return vxSweepCheck(rep, root, vxSharedSensor, vxSweep(bps))
}

// vxMonoTreeIndepOne: every member on its own sensor; sensor of member `raise` is swept, the others rest at fixed[j].
func vxMonoTreeIndepOne(rep *mc.Report, t *vxTree, raise int, fixed []int) *vxFail {
	vxMonoSetup()
	for j, s := range vxMonoSensors {
		if j < len(fixed) {
			s.SetMovingAvg(float64(fixed[j]))
		}
	}
	root, _ := vxBuildTree(t, func(name string) string { return "vxmono-i-" + name })
	return vxSweepCheck(rep, root, vxMonoSensors[raise], vxSweep(vxMonoMembers[raise].bps()))
}

// vxMonoTreeIndep enumerates, for a tree, every member to raise x every resting combination of the other used members.
func vxMonoTreeIndep(rep *mc.Report, t *vxTree) (sweeps int) {
	used := map[int]bool{}
	vxTreeMembers(t, used)
	var us []int
	for j := range vxMonoMembers {
		if used[j] {
			us = append(us, j)
		}
	}
	if len(us) < 2 {
		return 0 // identical to the shared-sensor sweep
	}
	for _, raise := range us {
		combos := 1
		for i := 0; i < len(us)-1; i++ {
			combos *= len(vxMonoFixed)
		}
		for code := 0; code < combos; code++ {
			fixed := make([]int, len(vxMonoMembers))
			x := code
			for _, j := range us {
				if j == raise {
					continue
				}
				fixed[j] = vxMonoFixed[x%len(vxMonoFixed)]
				x /= len(vxMonoFixed)
			}
			sweeps++
			if f := vxMonoTreeIndepOne(rep, t, raise, fixed); f != nil {
				cs := vxCase{Kind: "mono-tree", Tree: t, Independent: true, Raise: raise, Fixed: fixed}
				vxViolate(rep, "C07", "function-tree independent-sensors", f, cs,
					fmt.Sprintf("function tree %s, raising the sensor of %s, other sensors resting at %v", t, vxMonoMembers[raise].Name, fixed))
				return
			}
		}
	}
	return
}

func vxMonoReplay(rep *mc.Report, c vxCase) {
	switch c.Kind {
	case "mono-minmax", "mono-steps":
		if f := vxMonoLinear(rep, c); f != nil {
			vxViolate(rep, "C07", vxLinearFamily(c.Kind[5:]), f, c, vxDescribe(c))
		}
	case "mono-tree":
		vxMonoSetup()
		if c.Independent {
			if f := vxMonoTreeIndepOne(rep, c.Tree, c.Raise, c.Fixed); f != nil {
				vxViolate(rep, "C07", "function-tree independent-sensors", f, c, vxDescribe(c))
			}
		} else if f := vxMonoTreeShared(rep, c.Tree); f != nil {
			vxViolate(rep, "C07", "function-tree shared-sensor", f, c, vxDescribe(c))
		}
	}
}

func vxNonDecreasing(ys []int) bool {
	for i := 1; i < len(ys); i++ {
		if ys[i] < ys[i-1] {
			return false
		}
	}
	return true
}

func TestVX_C07a(t *testing.T) {
	rep := mc.NewReport("C07", "curves/mono")
	defer rep.Write()
	defer vxCleanup()
	vxSetup()
	var rc vxCase
	if mc.ReplayCase(&rc) {
		switch rc.Kind {
		case "mono-minmax", "mono-steps", "mono-tree":
			vxMonoReplay(rep, rc)
		default:
			rep.Note("replay case of kind " + rc.Kind + " does not belong to TestVX_C07a; nothing run")
		}
		return
	}
	vxMonoSetup()
	idx := 0
	// 1. min/max pairs
	for i := 0; i < len(vxMinMaxVals); i++ {
		for j := i + 1; j < len(vxMinMaxVals); j++ {
			idx++
			if !vxMine(idx) {
				continue
			}
			c := vxCase{Kind: "mono-minmax", Min: vxMinMaxVals[i], Max: vxMinMaxVals[j]}
			rep.Configs++
			rep.Count("minmax-sweeps", 1)
			if f := vxMonoLinear(rep, c); f != nil {
				vxViolate(rep, "C07", "linear-minmax", f, c, vxDescribe(c))
			}
			if c.Min == 40 && c.Max == 80 {
				rep.Sample(map[string]any{"case": vxDescribe(c), "sweepPoints": len(vxSweep([]int{c.Min, c.Max})), "result": "non-decreasing"})
			}
		}
	}
	// 2. non-decreasing step sets
	for code := 1; code <= vxNumStepSets; code++ {
		xs, ys := vxStepSet(code)
		if !vxNonDecreasing(ys) {
			continue
		}
		idx++
		if !vxMine(idx) {
			continue
		}
		c := vxCase{Kind: "mono-steps", StepT: xs, StepV: ys}
		rep.Configs++
		rep.Count("steps-sweeps", 1)
		if f := vxMonoLinear(rep, c); f != nil {
			vxViolate(rep, "C07", "linear-steps", f, c, vxDescribe(c))
		}
		if code == 1+3*6+0+5*216 {
			rep.Sample(map[string]any{"case": vxDescribe(c), "sweepPoints": len(vxSweep(xs)), "result": "non-decreasing"})
		}
	}
	// 3. function trees over monotone members
	nLeaves := map[int]int{1: 4, 2: 4, 3: 2} // catalogue prefix used per number of function nodes
	indepNodes := 2                          // independent-sensor sweeps for trees with up to this many function nodes
	if mc.Thorough() {
		nLeaves = map[int]int{1: 4, 2: 4, 3: 3}
		indepNodes = 3
	}
	for n := 1; n <= 3; n++ {
		var leaves []string
		for _, m := range vxMonoMembers[:nLeaves[n]] {
			leaves = append(leaves, m.Name)
		}
		rootAr := 2
		if n == 1 {
			rootAr = 3
		}
		shapes := vxShapes(n, 2, rootAr, leaves)
		nt := 1
		for i := 0; i < n; i++ {
			nt *= len(vxMonoTypes)
		}
		if vxShardI == 0 {
			rep.Note(fmt.Sprintf("tree part: %d shapes with %d function nodes over members %v x %d type assignments (independent-sensor sweeps: %v)", len(shapes), n, leaves, nt, n <= indepNodes))
		}
		for si, sh := range shapes {
			for code := 0; code < nt; code++ {
				idx++
				if !vxMine(idx) {
					continue
				}
				tr := vxTyped(sh, vxMonoTypes, code)
				rep.Configs++
				rep.Count(fmt.Sprintf("tree-shared-sweeps-n%d", n), 1)
				if f := vxMonoTreeShared(rep, tr); f != nil {
					cs := vxCase{Kind: "mono-tree", Tree: tr}
					vxViolate(rep, "C07", "function-tree shared-sensor", f, cs, vxDescribe(cs))
				}
				if n <= indepNodes {
					rep.Count(fmt.Sprintf("tree-independent-sweeps-n%d", n), int64(vxMonoTreeIndep(rep, tr)))
				}
				if n == 2 && si == len(shapes)/3 && code == 6 {
					rep.Sample(map[string]any{"case": "function tree " + tr.String() + " on one shared sensor and on independent sensors", "result": "non-decreasing"})
				}
			}
		}
	}
	rep.BoundDone["tree-function-nodes"] = 3
	rep.Note("members: m0=linear 40..80, m1=steps{40:0,41:128,80:255}, m2=linear 0..41, m3=steps{-10:1,0:1,41:254,80:255}; " +
		"evaluations = sweep points evaluated on the real curves; distinct_nontrivial = adjacent sweep pairs across which the curve value moves")
}
