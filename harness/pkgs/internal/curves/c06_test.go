package curves

// C06: curves evaluate to their documented function, always within 0..255.
//
// Exhaustive enumeration over finite alphabets derived from each configuration, on the REAL
// LinearSpeedCurve / FunctionSpeedCurve / PidSpeedCurve objects (NewSpeedCurve + registry) reading REAL
// sensor objects (sensors.NewSensor + registry), compared against independent references written here:
//
//   part "linear": every min<max pair from {-20,0,1,40,41,80,120}; every non-empty subset of step
//                  temperatures {-10,0,40,41,80} x speeds {0,1,128,254,255} (6^5-1 = 7775 step sets);
//                  inputs = every breakpoint and breakpoint +-1 m-degree, mid and quarter points of every
//                  segment, 0, -1, +-1e300, +-smallest subnormal, +-MaxFloat64.
//                  reference = exact rational clamped interpolation; accepted: floor(exact)..ceil(exact).
//   part "func":   six function types x 1..8 stub members with values from {0,1,127,128,254,255}.
//                  reference = exact integer definitions of the property statement.
//   part "tree":   every nesting tree with <= 4 function nodes (depth <= 4, arity <= 2) x every type
//                  assignment over stub / real linear leaves; reference = compositional recursion, checked at
//                  every function node.
//   part "pid":    PID curves (gain catalogue x set points x sensor kind) x reading sequences x dt in
//                  {0, 200ms, 1s} on the testing/synctest virtual clock; reference = textbook PID loop on the
//                  same clock, int(clamp(out,0,1)*255) +- 1.

import (
	"fmt"
	"math"
	"math/big"
	"os"
	"runtime/debug"
	"sort"
	"strings"
	"testing"
	"testing/synctest"
	"time"

	"github.com/markusressel/fan2go/internal/configuration"
	"github.com/markusressel/fan2go/internal/sensors"
	"github.com/markusressel/fan2go/internal/verifshim/env"
	"github.com/markusressel/fan2go/internal/verifshim/mc"
	"github.com/pterm/pterm"
)

func init() {
	pterm.DisableOutput()
	os.Unsetenv("DISPLAY")
}

// ---------------------------------------------------------------- shared fixture

const vxPoison = -7777 // written into curve.Value before every Evaluate so a stale CurrentValue() is noticed

type vxStub struct {
	id  string
	val int
}

func (s *vxStub) GetId() string          { return s.id }
func (s *vxStub) Evaluate() (int, error) { return s.val, nil }
func (s *vxStub) CurrentValue() int      { return s.val }

type vxTree struct {
	Leaf string    `json:"leaf,omitempty"` // leaf name (see vxLeafCatalogue / vxMonoMembers)
	Type string    `json:"type,omitempty"` // function type of an inner node
	Kids []*vxTree `json:"kids,omitempty"`
}

func (t *vxTree) String() string {
	if t.Leaf != "" {
		return t.Leaf
	}
	s := make([]string, len(t.Kids))
	for i, k := range t.Kids {
		s[i] = k.String()
	}
	ty := t.Type
	if ty == "" {
		ty = "?"
	}
	return ty + "(" + strings.Join(s, ",") + ")"
}

// vxCase is the replayable case of every C06 / C07a failure.
type vxCase struct {
	Kind string `json:"kind"` // minmax | steps | func | tree | pid | mono-minmax | mono-steps | mono-tree
	// linear
	Min   int     `json:"min,omitempty"`
	Max   int     `json:"max,omitempty"`
	StepT []int   `json:"stepT,omitempty"`
	StepV []int   `json:"stepV,omitempty"`
	Input float64 `json:"input"`
	// flat function
	FType   string `json:"ftype,omitempty"`
	Members []int  `json:"members,omitempty"`
	// nested function
	Tree *vxTree `json:"tree,omitempty"`
	// pid
	Gains      []float64 `json:"gains,omitempty"`
	SetPoint   float64   `json:"setPoint,omitempty"`
	SensorKind string    `json:"sensorKind,omitempty"` // virtual | hwmon
	Seq        []int     `json:"seq,omitempty"`        // indices into the reading alphabet of the sensor kind
	DtMs       []int     `json:"dtMs,omitempty"`       // virtual time between evaluation k and k+1
	// monotonicity sweeps (C07a)
	Independent bool  `json:"independent,omitempty"`
	Raise       int   `json:"raise,omitempty"` // index (into the member catalogue) of the member whose sensor is raised
	Fixed       []int `json:"fixed,omitempty"` // m-degree value of every catalogue member's own sensor (independent mode)
}

type vxFail struct{ class, detail string }

var (
	vxShardI, vxShardN = mc.Shard()
	vxFS               *env.FS
	vxSharedSensor     sensors.Sensor // hwmon sensor "vxs": input of all linear curves of C06
	vxSetupDone        bool
)

func vxMine(i int) bool { return i%vxShardN == vxShardI }

func vxNewSensor(cfg configuration.SensorConfig) sensors.Sensor {
	s, err := sensors.NewSensor(cfg)
	if err != nil {
		panic(err)
	}
	sensors.RegisterSensor(s)
	got, ok := sensors.GetSensor(cfg.ID)
	if !ok || got != s {
		panic("sensor registry did not return the registered sensor " + cfg.ID)
	}
	return s
}

func vxSetup() {
	if vxSetupDone {
		return
	}
	vxSetupDone = true
	// the option values a daemon runs with by default (a curve implementation that consults them must behave under them)
	configuration.CurrentConfig = configuration.Configuration{RunFanInitializationInParallel: true, MaxRpmDiffForSettledFan: 20, FanResponseDelay: 2,
		TempSensorPollingRate: 200 * time.Millisecond, TempRollingWindowSize: 10, RpmPollingRate: time.Second, RpmRollingWindowSize: 10,
		ControllerAdjustmentTickRate: 200 * time.Millisecond}
	vxFS = env.New()
	p := vxFS.Add("hwmon0/temp1_input", 0)
	vxSharedSensor = vxNewSensor(configuration.SensorConfig{ID: "vxs",
		HwMon: &configuration.HwMonSensorConfig{Platform: "vx", Index: 1, TempInput: p}})
}

func vxCleanup() {
	if vxFS != nil {
		vxFS.Close()
		vxFS = nil
		vxSetupDone = false
	}
}

func vxNewCurve(cfg configuration.CurveConfig) SpeedCurve {
	c, err := NewSpeedCurve(cfg)
	if err != nil {
		panic(err)
	}
	RegisterSpeedCurve(c)
	return c
}

func vxPoisonValue(c SpeedCurve) {
	switch x := c.(type) {
	case *LinearSpeedCurve:
		x.Value = vxPoison
	case *FunctionSpeedCurve:
		x.Value = vxPoison
	case *PidSpeedCurve:
		x.Value = vxPoison
	}
}

// vxNoPoison: leave the curve's stored value alone before the evaluation (passes that look for state carried from one
// evaluation to the next: a curve may legitimately reuse a value it stored itself).
var vxNoPoison bool

// vxEval runs the real Evaluate with the oracles common to all curve types:
// no panic, no error, result in 0..255, result == CurrentValue().
func vxEval(c SpeedCurve) (v int, f *vxFail) {
	defer func() {
		if r := recover(); r != nil {
			st := string(debug.Stack())
			if len(st) > 1500 {
				st = st[:1500]
			}
			f = &vxFail{"panic", fmt.Sprintf("Evaluate panicked: %v\n%s", r, st)}
		}
	}()
	if !vxNoPoison {
		vxPoisonValue(c)
	}
	v, err := c.Evaluate()
	if err != nil {
		return v, &vxFail{"error", "Evaluate returned error: " + err.Error()}
	}
	if v < 0 || v > 255 {
		return v, &vxFail{"out of range", fmt.Sprintf("Evaluate returned %d, outside 0..255", v)}
	}
	if cv := c.CurrentValue(); cv != v {
		return v, &vxFail{"CurrentValue differs", fmt.Sprintf("Evaluate returned %d but CurrentValue() is %d", v, cv)}
	}
	return v, nil
}

func vxViolate(rep *mc.Report, prop, family string, f *vxFail, c vxCase, what string) {
	rep.Violate(mc.Violation{Signature: prop + " " + family + " " + f.class, Detail: what + ": " + f.detail, Replay: c})
}

// ---------------------------------------------------------------- exact reference for linear curves

var (
	vxEps   = big.NewRat(1, 1000000000) // 1e-9: float evaluation noise allowed around an exact value
	vxR1000 = big.NewRat(1000, 1)
)

func vxRat(f float64) *big.Rat {
	r := new(big.Rat)
	if r.SetFloat64(f) == nil {
		panic("non-finite input")
	}
	return r
}

func vxFloor(r *big.Rat) int {
	q := new(big.Int).Div(r.Num(), r.Denom()) // Euclidean division, denominator > 0: floor
	return int(q.Int64())
}

func vxCeil(r *big.Rat) int {
	if r.IsInt() {
		return vxFloor(r)
	}
	return vxFloor(r) + 1
}

// vxRefMinMax: exact clamped interpolation 0 at min .. 255 at max; t in milli-degrees.
func vxRefMinMax(min, max int, t float64) *big.Rat {
	T := vxRat(t)
	lo := big.NewRat(int64(min)*1000, 1)
	hi := big.NewRat(int64(max)*1000, 1)
	if T.Cmp(hi) >= 0 {
		return big.NewRat(255, 1)
	}
	if T.Cmp(lo) <= 0 {
		return big.NewRat(0, 1)
	}
	num := new(big.Rat).Sub(T, lo)
	den := new(big.Rat).Sub(hi, lo)
	return num.Quo(num, den).Mul(num, big.NewRat(255, 1))
}

// vxRefSteps: exact piecewise-linear interpolation between the steps, constant outside; t in milli-degrees.
func vxRefSteps(xs, ys []int, t float64) *big.Rat {
	X := vxRat(t)
	X.Quo(X, vxR1000)
	n := len(xs)
	if X.Cmp(big.NewRat(int64(xs[0]), 1)) <= 0 {
		return big.NewRat(int64(ys[0]), 1)
	}
	if X.Cmp(big.NewRat(int64(xs[n-1]), 1)) >= 0 {
		return big.NewRat(int64(ys[n-1]), 1)
	}
	for i := 0; i+1 < n; i++ {
		x1 := big.NewRat(int64(xs[i+1]), 1)
		if X.Cmp(x1) >= 0 {
			continue
		}
		x0 := big.NewRat(int64(xs[i]), 1)
		r := new(big.Rat).Sub(X, x0)
		r.Quo(r, new(big.Rat).Sub(x1, x0))
		r.Mul(r, big.NewRat(int64(ys[i+1]-ys[i]), 1))
		return r.Add(r, big.NewRat(int64(ys[i]), 1))
	}
	panic("unreachable")
}

// vxAccept: value must be a rounding (down or up) of the exact value; 1e-9 float noise tolerated.
// returns ok, and whether the tolerance was needed.
func vxAccept(exact *big.Rat, v int) (ok bool, tol bool, lo, hi int) {
	lo, hi = vxFloor(exact), vxCeil(exact)
	if v >= lo && v <= hi {
		return true, false, lo, hi
	}
	lo2 := vxFloor(new(big.Rat).Sub(exact, vxEps))
	hi2 := vxCeil(new(big.Rat).Add(exact, vxEps))
	if lo2 < 0 {
		lo2 = 0
	}
	if hi2 > 255 {
		hi2 = 255
	}
	return v >= lo2 && v <= hi2, true, lo, hi
}

// vxInputs: sensor values (milli-degrees) derived from the breakpoints (degrees) of one configuration.
func vxInputs(bps []int) []float64 {
	var out []float64
	seen := map[float64]bool{}
	add := func(f float64) {
		if !seen[f] {
			seen[f] = true
			out = append(out, f)
		}
	}
	for _, b := range bps {
		add(float64(b*1000 - 1))
		add(float64(b * 1000))
		add(float64(b*1000 + 1))
	}
	for i := 0; i+1 < len(bps); i++ {
		a, b := bps[i], bps[i+1]
		add(float64((a + b) * 500))   // midpoint
		add(float64((3*a + b) * 250)) // quarter points
		add(float64((a + 3*b) * 250))
	}
	for _, f := range []float64{0, -1, 1e300, -1e300, math.SmallestNonzeroFloat64, -math.SmallestNonzeroFloat64, math.MaxFloat64, -math.MaxFloat64} {
		add(f)
	}
	return out
}

func vxLinearCurve(c vxCase) (SpeedCurve, []int, []int) {
	if c.Kind == "minmax" || c.Kind == "mono-minmax" {
		return vxNewCurve(configuration.CurveConfig{ID: "vxlin", Linear: &configuration.LinearCurveConfig{Sensor: "vxs", Min: c.Min, Max: c.Max}}), []int{c.Min, c.Max}, nil
	}
	steps := map[int]float64{}
	for i, x := range c.StepT {
		steps[x] = float64(c.StepV[i])
	}
	return vxNewCurve(configuration.CurveConfig{ID: "vxlin", Linear: &configuration.LinearCurveConfig{Sensor: "vxs", Steps: steps}}), c.StepT, c.StepV
}

// vxLinearCheck evaluates the real linear curve at one input and compares with the exact reference.
func vxLinearCheck(rep *mc.Report, curve SpeedCurve, c vxCase) (int, *vxFail) {
	vxSharedSensor.SetMovingAvg(c.Input)
	v, f := vxEval(curve)
	if f != nil {
		return v, f
	}
	var exact *big.Rat
	if c.Kind == "minmax" {
		exact = vxRefMinMax(c.Min, c.Max, c.Input)
	} else {
		exact = vxRefSteps(c.StepT, c.StepV, c.Input)
	}
	ok, tol, lo, hi := vxAccept(exact, v)
	if !ok {
		return v, &vxFail{"differs from definition", fmt.Sprintf("sensor %g m-degree -> %d, exact clamped interpolation is %s (accepted %d..%d)", c.Input, v, exact.FloatString(6), lo, hi)}
	}
	if tol {
		rep.Count("linear-float-tolerance-used", 1)
	}
	return v, nil
}

func vxLinearFamily(kind string) string {
	if kind == "minmax" {
		return "linear-minmax"
	}
	return "linear-steps"
}

func vxC06LinearConfig(rep *mc.Report, base vxCase, sample bool) {
	curve, bps, _ := vxLinearCurve(base)
	rep.Configs++
	var nontrivial int64
	for _, in := range vxInputs(bps) {
		c := base
		c.Input = in
		rep.Evaluations++
		rep.Count("linear-evaluations", 1)
		v, f := vxLinearCheck(rep, curve, c)
		if f != nil {
			vxViolate(rep, "C06", vxLinearFamily(c.Kind), f, c, vxDescribe(c))
			break
		}
		if in > float64(bps[0]*1000) && in < float64(bps[len(bps)-1]*1000) {
			nontrivial++ // strictly inside the interpolation range
		}
		if sample && in == float64((bps[0]+bps[len(bps)-1])*500) {
			rep.Sample(map[string]any{"case": vxDescribe(c), "value": v})
		}
	}
	rep.AddDistinct(nontrivial)
	// state carried between evaluations: (a) the FIRST evaluation of a fresh curve object at every input, (b) every input
	// evaluated twice in a row, (c) the sweep in descending order; the stored value is left alone in these passes
	vxNoPoison = true
	defer func() { vxNoPoison = false }()
	ins := vxInputs(bps)
	check := func(curve SpeedCurve, in float64, how string) bool {
		c := base
		c.Input = in
		rep.Evaluations++
		rep.Count("linear-evaluations ("+how+")", 1)
		if _, f := vxLinearCheck(rep, curve, c); f != nil {
			f.class = f.class + " (" + how + ")"
			vxViolate(rep, "C06", vxLinearFamily(c.Kind), f, c, vxDescribe(c)+" ["+how+"]")
			return false
		}
		return true
	}
	for _, in := range ins {
		fresh, _, _ := vxLinearCurve(base)
		if !check(fresh, in, "first evaluation of a new curve object") || !check(fresh, in, "same reading twice in a row") {
			return
		}
	}
	for i := len(ins) - 1; i >= 0; i-- {
		if !check(curve, ins[i], "readings in reverse order") {
			return
		}
	}
}

func vxDescribe(c vxCase) string {
	switch c.Kind {
	case "minmax":
		return fmt.Sprintf("linear min=%d max=%d sensor=%g", c.Min, c.Max, c.Input)
	case "mono-minmax":
		return fmt.Sprintf("linear min=%d max=%d, ascending sweep", c.Min, c.Max)
	case "steps", "mono-steps":
		s := make([]string, len(c.StepT))
		for i := range c.StepT {
			s[i] = fmt.Sprintf("%d:%d", c.StepT[i], c.StepV[i])
		}
		if c.Kind == "mono-steps" {
			return fmt.Sprintf("linear steps={%s}, ascending sweep", strings.Join(s, ","))
		}
		return fmt.Sprintf("linear steps={%s} sensor=%g", strings.Join(s, ","), c.Input)
	case "func":
		return fmt.Sprintf("function %s over stub members %v", c.FType, c.Members)
	case "tree", "mono-tree":
		return fmt.Sprintf("function tree %s", c.Tree)
	case "pid":
		return fmt.Sprintf("pid p=%g i=%g d=%g setPoint=%g sensor=%s readings=%v dt(ms)=%v", c.Gains[0], c.Gains[1], c.Gains[2], c.SetPoint, c.SensorKind, vxPidReadings(c), c.DtMs)
	}
	return c.Kind
}

var (
	vxMinMaxVals  = []int{-20, 0, 1, 40, 41, 80, 120}
	vxStepTemps   = []int{-10, 0, 40, 41, 80}
	vxStepSpeeds  = []int{0, 1, 128, 254, 255}
	vxNumStepSets = 6*6*6*6*6 - 1
)

// vxStepSet decodes step set number code (1..6^5-1): base-6 digit i = 0: temperature i absent, d>0: speed d-1.
func vxStepSet(code int) (xs, ys []int) {
	for i := range vxStepTemps {
		d := code % 6
		code /= 6
		if d != 0 {
			xs = append(xs, vxStepTemps[i])
			ys = append(ys, vxStepSpeeds[d-1])
		}
	}
	return
}

func vxC06Linear(rep *mc.Report) {
	ci := 0
	for i := 0; i < len(vxMinMaxVals); i++ {
		for j := i + 1; j < len(vxMinMaxVals); j++ {
			ci++
			if !vxMine(ci) {
				continue
			}
			vxC06LinearConfig(rep, vxCase{Kind: "minmax", Min: vxMinMaxVals[i], Max: vxMinMaxVals[j]}, ci%7 == 3)
			rep.Count("linear-minmax-configs", 1)
		}
	}
	for code := 1; code <= vxNumStepSets; code++ {
		ci++
		if !vxMine(ci) {
			continue
		}
		xs, ys := vxStepSet(code)
		vxC06LinearConfig(rep, vxCase{Kind: "steps", StepT: xs, StepV: ys}, code == 3*1296+5*216+0+2*6+1)
		rep.Count("linear-steps-configs", 1)
	}
}

// ---------------------------------------------------------------- function curves (flat)

var (
	vxFuncTypes = []string{configuration.FunctionSum, configuration.FunctionDifference, configuration.FunctionDelta,
		configuration.FunctionMinimum, configuration.FunctionMaximum, configuration.FunctionAverage}
	vxMemberAlpha      = []int{0, 1, 127, 128, 254, 255}
	vxMemberAlphaSmall = []int{0, 1, 128, 255}
	vxStubs            []*vxStub
	vxStubIds          []string
)

// vxRefFunc: exact integer definitions from the property statement.
func vxRefFunc(typ string, v []int) int {
	sum, mn, mx := 0, v[0], v[0]
	for _, x := range v {
		sum += x
		if x < mn {
			mn = x
		}
		if x > mx {
			mx = x
		}
	}
	switch typ {
	case configuration.FunctionSum: // sum capped at 255
		if sum > 255 {
			return 255
		}
		return sum
	case configuration.FunctionDifference: // first minus all others, floored at 0
		d := 2*v[0] - sum
		if d < 0 {
			return 0
		}
		return d
	case configuration.FunctionDelta: // largest minus smallest
		return mx - mn
	case configuration.FunctionMinimum:
		return mn
	case configuration.FunctionMaximum:
		return mx
	case configuration.FunctionAverage: // integer mean
		return sum / len(v)
	}
	panic("unknown function type " + typ)
}

func vxStubSetup() {
	if vxStubs != nil {
		return
	}
	for i := 0; i < 8; i++ {
		s := &vxStub{id: fmt.Sprintf("vxm%d", i)}
		vxStubs = append(vxStubs, s)
		vxStubIds = append(vxStubIds, s.id)
		RegisterSpeedCurve(s)
	}
}

func vxFuncCheck(c vxCase) (int, *vxFail) {
	vxStubSetup()
	n := len(c.Members)
	for i, m := range c.Members {
		vxStubs[i].val = m
	}
	curve := vxNewCurve(configuration.CurveConfig{ID: "vxf", Function: &configuration.FunctionCurveConfig{Type: c.FType, Curves: vxStubIds[:n]}})
	v, f := vxEval(curve)
	if f != nil {
		return v, f
	}
	if want := vxRefFunc(c.FType, c.Members); v != want {
		return v, &vxFail{"differs from definition", fmt.Sprintf("evaluates to %d, definition gives %d", v, want)}
	}
	return v, nil
}

func vxC06Func(rep *mc.Report) {
	idx := 0
	for n := 1; n <= 8; n++ {
		alpha := vxMemberAlpha
		if !mc.Thorough() && n >= 7 {
			alpha = vxMemberAlphaSmall
		}
		total := 1
		for i := 0; i < n; i++ {
			total *= len(alpha)
		}
		members := make([]int, n)
		for code := 0; code < total; code++ {
			idx++
			if !vxMine(idx) {
				continue
			}
			c := code
			allEq := true
			for i := 0; i < n; i++ {
				members[i] = alpha[c%len(alpha)]
				c /= len(alpha)
				if members[i] != members[0] {
					allEq = false
				}
			}
			for _, ty := range vxFuncTypes {
				rep.Evaluations++
				cs := vxCase{Kind: "func", FType: ty, Members: members}
				v, f := vxFuncCheck(cs)
				if f != nil {
					cs.Members = append([]int(nil), members...)
					vxViolate(rep, "C06", "function-"+ty, f, cs, vxDescribe(cs))
					continue
				}
				if n >= 2 && !allEq {
					rep.AddDistinct(1)
				}
				if n == 3 && code == 5+6*3+36*4 && ty == configuration.FunctionDifference {
					rep.Sample(map[string]any{"case": vxDescribe(cs), "value": v})
				}
			}
			rep.Count(fmt.Sprintf("func-tuples-n%d", n), 1)
		}
	}
}

// ---------------------------------------------------------------- function curves (nested)

// vxShapes returns every tree with exactly n function nodes, arity 1..maxAr (root arity up to rootAr),
// children either leaves from `leaves` or function subtrees. Types are not assigned here; subtrees are shared.
func vxShapes(n, maxAr, rootAr int, leaves []string) []*vxTree {
	leafNodes := make([]*vxTree, len(leaves))
	for i, l := range leaves {
		leafNodes[i] = &vxTree{Leaf: l}
	}
	treeMemo := map[int][]*vxTree{}
	type key struct{ k, m int }
	seqMemo := map[key][][]*vxTree{}
	var trees func(n, ar int) []*vxTree
	var seqs func(k, m int) [][]*vxTree
	// all sequences of k children holding m function nodes in total
	seqs = func(k, m int) [][]*vxTree {
		if k == 0 {
			if m == 0 {
				return [][]*vxTree{nil}
			}
			return nil
		}
		if r, ok := seqMemo[key{k, m}]; ok {
			return r
		}
		var out [][]*vxTree
		for first := 0; first <= m; first++ {
			var heads []*vxTree
			if first == 0 {
				heads = leafNodes
			} else {
				heads = trees(first, maxAr)
			}
			for _, h := range heads {
				for _, rest := range seqs(k-1, m-first) {
					out = append(out, append([]*vxTree{h}, rest...))
				}
			}
		}
		seqMemo[key{k, m}] = out
		return out
	}
	trees = func(n, ar int) []*vxTree {
		if ar == maxAr {
			if r, ok := treeMemo[n]; ok {
				return r
			}
		}
		var out []*vxTree
		for k := 1; k <= ar; k++ {
			for _, s := range seqs(k, n-1) {
				out = append(out, &vxTree{Kids: s})
			}
		}
		if ar == maxAr {
			treeMemo[n] = out
		}
		return out
	}
	return trees(n, rootAr)
}

// vxTyped returns a private deep copy of shape with function types assigned in preorder:
// type of function node k = types[digit k of code in base len(types)].
func vxTyped(shape *vxTree, types []string, code int) *vxTree {
	var rec func(t *vxTree) *vxTree
	rec = func(t *vxTree) *vxTree {
		if t.Leaf != "" {
			return &vxTree{Leaf: t.Leaf}
		}
		n := &vxTree{Type: types[code%len(types)]}
		code /= len(types)
		for _, k := range t.Kids {
			n.Kids = append(n.Kids, rec(k))
		}
		return n
	}
	return rec(shape)
}

var vxTreeIds = func() []string {
	s := make([]string, 16)
	for i := range s {
		s[i] = fmt.Sprintf("vxt%d", i)
	}
	return s
}()

type vxBuilt struct {
	node  *vxTree
	curve SpeedCurve
	kids  []string
}

// vxBuildTree creates and registers one real FunctionSpeedCurve per function node (ids vxt0.. in preorder).
// leafId maps a leaf name to the id of its registered curve.
func vxBuildTree(t *vxTree, leafId func(string) string) (root SpeedCurve, nodes []vxBuilt) {
	var rec func(t *vxTree) string
	rec = func(t *vxTree) string {
		if t.Leaf != "" {
			return leafId(t.Leaf)
		}
		k := len(nodes)
		nodes = append(nodes, vxBuilt{node: t})
		ids := make([]string, len(t.Kids))
		for i, kid := range t.Kids {
			ids[i] = rec(kid)
		}
		nodes[k].kids = ids
		nodes[k].curve = vxNewCurve(configuration.CurveConfig{ID: vxTreeIds[k], Function: &configuration.FunctionCurveConfig{Type: t.Type, Curves: ids}})
		return vxTreeIds[k]
	}
	rec(t)
	return nodes[0].curve, nodes
}

// leaf catalogue of the C06 tree part: stubs with fixed values and real linear curves on the shared sensor
// (sensor fixed at 60 degrees: min/max 40..80 -> 127, steps {40:0, 80:255} -> 128).
var (
	vxLeafVal   = map[string]int{}
	vxLeafCurve = map[string]SpeedCurve{}
)

func vxLeafSetup(rep *mc.Report) {
	if len(vxLeafCurve) > 0 {
		return
	}
	for _, v := range []int{0, 1, 128, 255} {
		s := &vxStub{id: fmt.Sprintf("vxleaf-stub%d", v), val: v}
		RegisterSpeedCurve(s)
		vxLeafCurve[fmt.Sprintf("stub%d", v)] = s
	}
	vxLeafCurve["lin4080"] = vxNewCurve(configuration.CurveConfig{ID: "vxleaf-lin4080", Linear: &configuration.LinearCurveConfig{Sensor: "vxs", Min: 40, Max: 80}})
	vxLeafCurve["steps4080"] = vxNewCurve(configuration.CurveConfig{ID: "vxleaf-steps4080", Linear: &configuration.LinearCurveConfig{Sensor: "vxs", Steps: map[int]float64{40: 0, 80: 255}}})
	vxSharedSensor.SetMovingAvg(60000)
	for name, c := range vxLeafCurve {
		v, f := vxEval(c)
		if f != nil {
			// the leaf itself misbehaves: the linear part reports that; the tree part composes whatever the leaf returns
			rep.Note(fmt.Sprintf("tree leaf %s: %s (%s)", name, f.class, f.detail))
		}
		vxLeafVal[name] = v
	}
}

func vxTreeLeafId(name string) string { return vxLeafCurve[name].GetId() }

func vxTreeRef(t *vxTree) int {
	if t.Leaf != "" {
		return vxLeafVal[t.Leaf]
	}
	vals := make([]int, len(t.Kids))
	for i, k := range t.Kids {
		vals[i] = vxTreeRef(k)
	}
	return vxRefFunc(t.Type, vals)
}

func vxTreeCheck(rep *mc.Report, t *vxTree) (int, *vxFail) {
	vxLeafSetup(rep)
	vxSharedSensor.SetMovingAvg(60000)
	root, nodes := vxBuildTree(t, vxTreeLeafId)
	for _, n := range nodes {
		vxPoisonValue(n.curve)
	}
	v, f := vxEval(root)
	if f != nil {
		return v, f
	}
	// compositional: every function node holds the reference value of its subtree
	for k, n := range nodes {
		want := vxTreeRef(n.node)
		if got := n.curve.CurrentValue(); got != want {
			return v, &vxFail{"differs from definition", fmt.Sprintf("node %d = %s evaluates to %d, compositional definition gives %d (leaf values %v)", k, n.node, got, want, vxLeafVal)}
		}
	}
	return v, nil
}

func vxDepth(t *vxTree) int {
	if t.Leaf != "" {
		return 0
	}
	d := 0
	for _, k := range t.Kids {
		if x := vxDepth(k); x > d {
			d = x
		}
	}
	return d + 1
}

func vxC06Tree(rep *mc.Report) {
	vxLeafSetup(rep)
	// leaf alphabets per number of function nodes (quick is thinner at 4 nodes)
	leafSets := map[int][]string{
		1: {"stub0", "stub1", "stub128", "stub255", "lin4080", "steps4080"},
		2: {"stub0", "stub128", "stub255", "lin4080"},
		3: {"stub0", "stub255", "lin4080"},
		4: {"stub255", "lin4080"},
	}
	if mc.Thorough() {
		leafSets[3] = []string{"stub0", "stub128", "stub255", "lin4080"}
		leafSets[4] = []string{"stub0", "stub128", "stub255", "lin4080"}
	}
	idx := 0
	maxDepth := 0
	for n := 1; n <= 4; n++ {
		rootAr := 2
		if n == 1 {
			rootAr = 3
		}
		shapes := vxShapes(n, 2, rootAr, leafSets[n])
		nt := 1
		for i := 0; i < n; i++ {
			nt *= len(vxFuncTypes)
		}
		for si, sh := range shapes {
			for code := 0; code < nt; code++ {
				idx++
				if !vxMine(idx) {
					continue
				}
				t := vxTyped(sh, vxFuncTypes, code)
				rep.Evaluations++
				v, f := vxTreeCheck(rep, t)
				if f != nil {
					cs := vxCase{Kind: "tree", Tree: t}
					vxViolate(rep, "C06", "function-nested", f, cs, vxDescribe(cs))
					continue
				}
				if n >= 2 {
					rep.AddDistinct(1)
				}
				if d := vxDepth(t); d > maxDepth {
					maxDepth = d
				}
				rep.Count(fmt.Sprintf("tree-cases-n%d", n), 1)
				if n == 3 && si == len(shapes)/2 && code == 100 {
					rep.Sample(map[string]any{"case": "function tree " + t.String(), "leafValues": vxLeafVal, "value": v})
				}
			}
		}
		if vxShardI == 0 {
			rep.Note(fmt.Sprintf("tree part: %d shapes with %d function nodes over leaves %v x %d type assignments", len(shapes), n, leafSets[n], nt))
		}
	}
	if maxDepth > rep.BoundDone["tree-depth"] {
		rep.BoundDone["tree-depth"] = maxDepth
	}
}

// ---------------------------------------------------------------- PID curves

var (
	vxPidGains = [][]float64{
		{-0.05, -0.005, -0.005}, // README example
		{0.3, 0.02, 0.005},      // default-like (control loop defaults)
		{-0.05, 0, 0},           // single-term P
		{0, -0.005, 0},          // single-term I
		{0, 0, -0.005},          // single-term D
		{0, 0, 0},               // all zero
		{-0.05, 0, -0.005},      // zero-mixed
		{-0.3, -0.02, -0.005},   // negative defaults
	}
	vxPidSetPoints = []float64{60, 0}
	vxPidDts       = []int{0, 200, 1000}
	// readings: the extremes of what the sensor kind can deliver, around 0, set point 60 +-1 m-degree, and two
	// readings (61, 65 degrees) that put the README gains into the unsaturated part of the output range
	vxPidVirtual  = []float64{60000, 59999, 60001, 61000, 65000, 0, -1, -1e300, 1e300}
	vxPidFile     = []int{60000, 59999, 60001, 61000, 65000, 0, -1, math.MinInt64, math.MaxInt64}
	vxPidVSensor  *sensors.VirtualSensor
	vxPidFilePath string
)

func vxPidReadings(c vxCase) []string {
	out := make([]string, len(c.Seq))
	for i, s := range c.Seq {
		if c.SensorKind == "virtual" {
			out[i] = fmt.Sprint(vxPidVirtual[s])
		} else {
			out[i] = fmt.Sprint(vxPidFile[s])
		}
	}
	return out
}

func vxPidSetup() {
	if vxPidVSensor != nil {
		return
	}
	vxPidVSensor = &sensors.VirtualSensor{Name: "vxpid-virtual"}
	sensors.RegisterSensor(vxPidVSensor)
	vxPidFilePath = vxFS.Add("hwmon0/temp2_input", 0)
	vxNewSensor(configuration.SensorConfig{ID: "vxpid-hwmon",
		HwMon: &configuration.HwMonSensorConfig{Platform: "vx", Index: 2, TempInput: vxPidFilePath}})
}

// vxPidRun runs one reading sequence on a fresh real PID curve; must be called inside a synctest bubble.
// Every step is checked; returns all failures (family, fail) in step order.
func vxPidRun(c vxCase) (vals []int, fails []struct {
	family string
	f      *vxFail
}) {
	vxPidSetup()
	sensorId := "vxpid-virtual"
	if c.SensorKind == "hwmon" {
		sensorId = "vxpid-hwmon"
	}
	curve := vxNewCurve(configuration.CurveConfig{ID: "vxpid", PID: &configuration.PidCurveConfig{
		Sensor: sensorId, SetPoint: c.SetPoint, P: c.Gains[0], I: c.Gains[1], D: c.Gains[2]}})
	// reference loop state
	var started bool
	var prevErr, integ float64
	var last time.Time
	for k, s := range c.Seq {
		if k > 0 && c.DtMs[k-1] > 0 {
			time.Sleep(time.Duration(c.DtMs[k-1]) * time.Millisecond)
		}
		var measured float64
		if c.SensorKind == "virtual" {
			vxPidVSensor.Value = vxPidVirtual[s]
			measured = vxPidVirtual[s]
		} else {
			vxFS.F(vxPidFilePath).Val = vxPidFile[s]
			measured = float64(vxPidFile[s])
		}
		now := time.Now() // virtual clock; does not advance during Evaluate
		v, f := vxEval(curve)
		vals = append(vals, v)
		// reference
		e := c.SetPoint - measured/1000
		out, defined := 0.0, true
		dtZero := false
		if started {
			dt := now.Sub(last).Seconds()
			if dt == 0 {
				// the derivative term is undefined: any value in 0..255 is accepted; the integral does not move
				defined, dtZero = false, true
			} else {
				integ += e * dt
				out = c.Gains[0]*e + c.Gains[1]*integ + c.Gains[2]*((e-prevErr)/dt)
			}
		}
		started, prevErr, last = true, e, now
		step := fmt.Sprintf("evaluation %d of the sequence (reading %s, dt before it %v)", k+1, vxPidReadings(c)[k], func() string {
			if k == 0 {
				return "-"
			}
			return fmt.Sprintf("%dms", c.DtMs[k-1])
		}())
		if f != nil {
			fam := "pid-curve"
			if dtZero && f.class == "out of range" {
				fam = "pid-curve dt=0"
			}
			f.detail = step + ": " + f.detail
			fails = append(fails, struct {
				family string
				f      *vxFail
			}{fam, f})
			continue
		}
		if defined {
			cl := out
			if cl > 1 {
				cl = 1
			}
			if cl < 0 {
				cl = 0
			}
			want := int(cl * 255)
			if math.IsNaN(out) || v < want-1 || v > want+1 {
				fails = append(fails, struct {
					family string
					f      *vxFail
				}{"pid-curve", &vxFail{"differs from definition", fmt.Sprintf("%s: evaluates to %d, reference loop output %g -> %d (+-1)", step, v, out, want)}})
			}
		}
	}
	return
}

func vxC06Pid(t *testing.T, rep *mc.Report) {
	depth := 3
	if mc.Thorough() {
		depth = 4
	}
	na := len(vxPidVirtual)
	nseq := 1
	ndt := 1
	for i := 0; i < depth; i++ {
		nseq *= na
		if i > 0 {
			ndt *= len(vxPidDts)
		}
	}
	synctest.Test(t, func(t *testing.T) {
		idx := 0
		for gi, g := range vxPidGains {
			for _, sp := range vxPidSetPoints {
				for _, kind := range []string{"hwmon", "virtual"} {
					rep.Configs++
					for sc := 0; sc < nseq; sc++ {
						for dc := 0; dc < ndt; dc++ {
							idx++
							if !vxMine(idx) {
								continue
							}
							c := vxCase{Kind: "pid", Gains: g, SetPoint: sp, SensorKind: kind, Seq: make([]int, depth), DtMs: make([]int, depth-1)}
							x := sc
							for i := 0; i < depth; i++ {
								c.Seq[i] = x % na
								x /= na
							}
							x = dc
							for i := 0; i < depth-1; i++ {
								c.DtMs[i] = vxPidDts[x%len(vxPidDts)]
								x /= len(vxPidDts)
							}
							rep.Evaluations++
							rep.Transitions += int64(depth)
							vals, fails := vxPidRun(c)
							for _, fl := range fails {
								vxViolate(rep, "C06", fl.family, fl.f, c, vxDescribe(c))
							}
							if len(fails) == 0 {
								rep.AddDistinct(1)
							}
							for _, v := range vals {
								if v > 0 && v < 255 {
									rep.Count("pid-evaluations-unsaturated", 1)
								}
							}
							rep.Count("pid-sequences", 1)
							if gi == 0 && sp == 60 && kind == "hwmon" && sc == 5+3*na+4*na*na && dc == 1+2*3 {
								rep.Sample(map[string]any{"case": vxDescribe(c), "values": vals})
							}
						}
					}
				}
			}
		}
	})
	rep.BoundDone["pid-depth"] = depth
}

// ---------------------------------------------------------------- replay + test

func vxReplay(t *testing.T, rep *mc.Report, c vxCase) {
	rep.Evaluations = 1
	switch c.Kind {
	case "minmax", "steps":
		if c.Kind == "steps" {
			// canonical order
			idx := make([]int, len(c.StepT))
			for i := range idx {
				idx[i] = i
			}
			sort.Slice(idx, func(a, b int) bool { return c.StepT[idx[a]] < c.StepT[idx[b]] })
			xs, ys := make([]int, len(idx)), make([]int, len(idx))
			for i, j := range idx {
				xs[i], ys[i] = c.StepT[j], c.StepV[j]
			}
			c.StepT, c.StepV = xs, ys
		}
		curve, _, _ := vxLinearCurve(c)
		if _, f := vxLinearCheck(rep, curve, c); f != nil {
			vxViolate(rep, "C06", vxLinearFamily(c.Kind), f, c, vxDescribe(c))
		}
	case "func":
		if _, f := vxFuncCheck(c); f != nil {
			vxViolate(rep, "C06", "function-"+c.FType, f, c, vxDescribe(c))
		}
	case "tree":
		if _, f := vxTreeCheck(rep, c.Tree); f != nil {
			vxViolate(rep, "C06", "function-nested", f, c, vxDescribe(c))
		}
	case "pid":
		synctest.Test(t, func(t *testing.T) {
			_, fails := vxPidRun(c)
			for _, fl := range fails {
				vxViolate(rep, "C06", fl.family, fl.f, c, vxDescribe(c))
			}
		})
	case "mono-minmax", "mono-steps", "mono-tree":
		vxMonoReplay(rep, c)
	default:
		rep.HarnessError("replay: unknown case kind " + c.Kind)
	}
}

func TestVX_C06(t *testing.T) {
	rep := mc.NewReport("C06", "curves/eval")
	defer rep.Write()
	defer vxCleanup()
	vxSetup()
	var rc vxCase
	if mc.ReplayCase(&rc) {
		vxReplay(t, rep, rc)
		return
	}
	vxC06Linear(rep)
	vxC06Func(rep)
	vxC06Tree(rep)
	vxC06Pid(t, rep)
	rep.Note("inputs per linear configuration: every breakpoint and breakpoint +-1 m-degree, mid and quarter points of every segment, 0, -1, +-1e300, +-5e-324, +-MaxFloat64; " +
		"distinct_nontrivial = linear (config,input) pairs strictly inside the interpolation range + function tuples with >=2 not-all-equal members x type " +
		"+ nested trees with >=2 function nodes + PID reading/dt sequences (all enumerated without repetition)")
}
