package internal

// C08: sensor smoothing stays within the hull of observed readings, converges geometrically,
// and ignores failed / non-finite reads. Exhaustive enumeration of reading/fault sequences through
// the real seeding code (initializeSensors) and the real monitor path (updateSensor) on real
// HwmonSensor, FileSensor and CmdSensor objects.

import (
	"fmt"
	"math"
	"os"
	"path/filepath"
	"strconv"
	"testing"
	"time"

	"github.com/markusressel/fan2go/internal/configuration"
	"github.com/markusressel/fan2go/internal/hwmon"
	"github.com/markusressel/fan2go/internal/sensors"
	"github.com/markusressel/fan2go/internal/verifshim/env"
	"github.com/markusressel/fan2go/internal/verifshim/mc"
	"github.com/prometheus/client_golang/prometheus"
	"github.com/pterm/pterm"
)

func init() {
	pterm.DisableOutput()
	os.Unsetenv("DISPLAY")
}

type vxC08Sym struct {
	Fault string  `json:"fault"` // "" | missing | empty | garbage | exit1 | nan | inf | -inf | gibberish
	Value float64 `json:"value"`
}

func (s vxC08Sym) String() string {
	if s.Fault != "" {
		return "FAULT:" + s.Fault
	}
	return fmt.Sprintf("%g", s.Value)
}

type vxC08Case struct {
	Kind   string     `json:"kind"` // hwmon | file | cmd
	Window int        `json:"window"`
	Syms   []vxC08Sym `json:"syms"` // first symbol = the read that seeds the average at start-up
}

type vxC08World struct {
	kind   string
	fs     *env.FS
	path   string // sensor file (hwmon/file)
	script string // cmd sensor
	mode   string // file read by the script
	sensor sensors.Sensor
}

func (w *vxC08World) set(s vxC08Sym) {
	switch w.kind {
	case "hwmon", "file":
		// REAL file content, parsed by fan2go's own util.ReadIntFromFile
		content := ""
		switch s.Fault {
		case "":
			content = fmt.Sprintf("%d\n", int64(s.Value))
		case "missing":
			os.Remove(w.path)
			return
		case "empty":
			content = ""
		case "blank":
			content = "\n"
		case "garbage":
			content = "n/a\n"
		case "digits-text":
			content = "3 errors occurred\n"
		case "decimal":
			content = "45.5\n"
		}
		if err := os.WriteFile(w.path, []byte(content), 0644); err != nil {
			panic(err)
		}
	case "cmd":
		out := ""
		switch s.Fault {
		case "":
			if math.Abs(s.Value) < 1e18 {
				out = fmt.Sprintf("echo %d", int64(s.Value))
			} else {
				out = "echo " + strconv.FormatFloat(s.Value, 'g', -1, 64) // a command may print any float
			}
		case "exit1":
			out = "echo 42000; exit 1"
		case "gibberish":
			out = "echo hello"
		case "empty":
			out = "true"
		case "nan":
			out = "echo nan"
		case "inf":
			out = "echo inf"
		case "-inf":
			out = "echo -inf"
		}
		if err := os.WriteFile(w.mode, []byte(out+"\n"), 0644); err != nil {
			panic(err)
		}
	}
}

func vxC08NewWorld(kind string, window int, fs *env.FS, scratch string, seed vxC08Sym) (*vxC08World, string) {
	w := &vxC08World{kind: kind, fs: fs}
	fs.Reset()
	configuration.CurrentConfig = configuration.Configuration{TempRollingWindowSize: window}
	sc := configuration.SensorConfig{ID: "vxsensor"}
	var controllers []*hwmon.HwMonController
	switch kind {
	case "hwmon":
		w.path = filepath.Join(scratch, "hwmon0", "temp1_input")
		os.MkdirAll(filepath.Dir(w.path), 0755)
		sc.HwMon = &configuration.HwMonSensorConfig{Platform: "vxchip", Index: 1}
		controllers = []*hwmon.HwMonController{{Name: "vxchip", Platform: "vxchip", Path: filepath.Dir(w.path),
			Sensors: map[int]*sensors.HwmonSensor{1: {Index: 1, Input: w.path}}}}
	case "file":
		w.path = filepath.Join(scratch, "filesensor", "temp")
		os.MkdirAll(filepath.Dir(w.path), 0755)
		sc.File = &configuration.FileSensorConfig{Path: w.path}
	case "cmd":
		w.script = filepath.Join(scratch, "sensor.sh")
		w.mode = filepath.Join(scratch, "sensor.mode")
		os.WriteFile(w.script, []byte("#!/bin/sh\n. "+w.mode+"\n"), 0755)
		sc.Cmd = &configuration.CmdSensorConfig{Exec: w.script}
	}
	configuration.CurrentConfig.Sensors = []configuration.SensorConfig{sc}
	w.set(seed)
	prometheus.DefaultRegisterer = prometheus.NewRegistry()
	p := vxGuard08(func() {
		if err := initializeSensors(controllers); err != nil {
			panic("initializeSensors: " + err.Error())
		}
	})
	if p != "" {
		return nil, p
	}
	s, ok := sensors.GetSensor("vxsensor")
	if !ok {
		return nil, "sensor not registered"
	}
	w.sensor = s
	return w, ""
}

// vxC08Slow: a single seeding read or poll took more than one second of real time. cmd sensors run real processes under
// fan2go's 2 s command timeout; on an overloaded machine a healthy command is killed by that timeout and the read fails for a
// reason that is not in the alphabet. Such an execution is repeated, and not judged if it stays slow (recorded as a cap).
var vxC08Slow bool

func vxGuard08(fn func()) (p string) {
	t0 := mc.RealNow()
	defer func() {
		if mc.RealNow().Sub(t0) > time.Second {
			vxC08Slow = true
		}
	}()
	defer func() {
		if r := recover(); r != nil {
			p = fmt.Sprintf("%v", r)
			if p == "" {
				p = "ui.Fatal"
			}
		}
	}()
	fn()
	return
}

type vxHull struct {
	lo, hi float64
	have   bool
}

func (h *vxHull) add(v float64) {
	if !h.have {
		h.lo, h.hi, h.have = v, v, true
		return
	}
	h.lo = math.Min(h.lo, v)
	h.hi = math.Max(h.hi, v)
}

func finite(v float64) bool { return !math.IsNaN(v) && !math.IsInf(v, 0) }

func vxFaultClass(kind string, s vxC08Sym) string {
	if s.Fault == "nan" || s.Fault == "inf" || s.Fault == "-inf" {
		return "non-finite output accepted"
	}
	return fmt.Sprintf("%s sensor read fault '%s'", kind, s.Fault)
}

// poll applies one symbol through updateSensor and checks the oracle
func vxC08Poll(w *vxC08World, window int, hull *vxHull, prev vxC08Sym, havePrev bool, s vxC08Sym) (sig, msg string) {
	before := w.sensor.GetMovingAvg()
	w.set(s)
	var err error
	if p := vxGuard08(func() { err = updateSensor(w.sensor) }); p != "" {
		return "C08 panic in sensor poll", p
	}
	after := w.sensor.GetMovingAvg()
	if s.Fault != "" {
		if math.Float64bits(after) != math.Float64bits(before) {
			return "C08 failed poll changed the smoothed value (" + vxFaultClass(w.kind, s) + ")", fmt.Sprintf("average %v -> %v after %s (error returned: %v)", before, after, s, err)
		}
		return "", ""
	}
	if err != nil {
		return "C08 successful read reported as error", err.Error()
	}
	hull.add(s.Value)
	eps := 1e-12 * math.Max(1, math.Max(math.Abs(hull.lo), math.Abs(hull.hi)))
	if !finite(after) || after < hull.lo-eps || after > hull.hi+eps {
		return "C08 smoothed value outside the hull of observed readings", fmt.Sprintf("average %v after reading %v; hull [%v,%v]", after, s.Value, hull.lo, hull.hi)
	}
	// geometric convergence towards the reading
	n := float64(window)
	if math.Abs(after-s.Value) > (1-1/n)*math.Abs(before-s.Value)+eps {
		return "C08 smoothed value does not approach a reading geometrically", fmt.Sprintf("average %v -> %v for reading %v, window %d", before, after, s.Value, window)
	}
	return "", ""
}

func vxC08Alphabet(kind string) []vxC08Sym {
	vals := []float64{-40000, 0, 35000, 35001, 100000, 1e12}
	var a []vxC08Sym
	for _, v := range vals {
		a = append(a, vxC08Sym{Value: v})
	}
	if kind == "cmd" {
		a = a[1:5]
		// a command prints a float: finite readings near the ends of the float64 range, of both signs
		a = append(a, vxC08Sym{Value: 1.5e308}, vxC08Sym{Value: -1.5e308})
		for _, f := range []string{"exit1", "gibberish", "empty", "nan", "inf", "-inf"} {
			a = append(a, vxC08Sym{Fault: f})
		}
		return a
	}
	for _, f := range []string{"missing", "empty", "blank", "garbage", "digits-text", "decimal"} {
		a = append(a, vxC08Sym{Fault: f})
	}
	return a
}

var vxC08SlowSkipped int64

func vxC08RunSeq(c vxC08Case, fs *env.FS, scratch string) (sig, msg string, trace []float64) {
	for attempt := 0; attempt < 4; attempt++ {
		vxC08Slow = false
		sig, msg, trace = vxC08RunSeqOnce(c, fs, scratch)
		if sig == "" || !vxC08Slow {
			return
		}
	}
	vxC08SlowSkipped++
	return "", "", trace
}

func vxC08RunSeqOnce(c vxC08Case, fs *env.FS, scratch string) (sig, msg string, trace []float64) {
	seed := c.Syms[0]
	w, p := vxC08NewWorld(c.Kind, c.Window, fs, scratch, seed)
	if p != "" {
		return "C08 panic while seeding the sensor", p, nil
	}
	hull := &vxHull{}
	init := w.sensor.GetMovingAvg()
	trace = append(trace, init)
	if !finite(init) {
		return "C08 smoothed value seeded with a non-finite number (" + vxFaultClass(c.Kind, seed) + ")", fmt.Sprintf("initial average %v after seeding read %s", init, seed), trace
	}
	hull.add(init)
	if seed.Fault == "" && init != seed.Value {
		return "C08 initial smoothed value differs from the first reading", fmt.Sprintf("%v vs %v", init, seed.Value), trace
	}
	prev, havePrev := seed, true
	for _, s := range c.Syms[1:] {
		sig, msg = vxC08Poll(w, c.Window, hull, prev, havePrev, s)
		trace = append(trace, w.sensor.GetMovingAvg())
		if sig != "" {
			return
		}
		prev = s
	}
	return "", "", trace
}

func TestVX_C08(t *testing.T) {
	rep := mc.NewReport("C08", "internal/sensor-smoothing")
	defer rep.Write()
	fs := env.New()
	defer fs.Close()
	scratch, err := os.MkdirTemp("/dev/shm", "verif-c08-")
	if err != nil {
		panic(err)
	}
	defer os.RemoveAll(scratch)
	var rc vxC08Case
	if mc.ReplayCase(&rc) {
		if sig, msg, tr := vxC08RunSeq(rc, fs, scratch); sig != "" {
			rep.Violate(mc.Violation{Signature: sig, Detail: fmt.Sprintf("%s\naverages: %v", msg, tr), Replay: rc})
		}
		rep.Evaluations = 1
		return
	}
	type job struct {
		kind   string
		window int
		first  int // index of the seeding symbol
		second int
	}
	var jobs []job
	for _, kind := range []string{"hwmon", "file", "cmd"} {
		windows := []int{1, 2, 10, 50}
		if kind == "cmd" {
			windows = []int{1, 10}
		}
		na := len(vxC08Alphabet(kind))
		for _, w := range windows {
			for f := 0; f < na; f++ {
				for s := 0; s < na; s++ {
					jobs = append(jobs, job{kind, w, f, s})
				}
			}
		}
	}
	for ji, j := range jobs {
		if !mc.Mine(ji) {
			continue
		}
		alpha := vxC08Alphabet(j.kind)
		depth := 3
		if mc.Thorough() {
			depth = 4
		}
		if j.kind == "cmd" {
			depth = 3
			if mc.Thorough() {
				depth = 4
			}
		}
		// enumerate every sequence of length depth+1 (seed + depth polls) with the given first two symbols
		idx := make([]int, depth+1)
		idx[0], idx[1] = j.first, j.second
		for {
			syms := make([]vxC08Sym, len(idx))
			nfault := 0
			for i, k := range idx {
				syms[i] = alpha[k]
				if alpha[k].Fault != "" {
					nfault++
				}
			}
			c := vxC08Case{j.kind, j.window, syms}
			sig, msg, tr := vxC08RunSeq(c, fs, scratch)
			rep.Evaluations++
			rep.Transitions += int64(len(syms))
			if sig != "" {
				rep.Violate(mc.Violation{Signature: sig, Detail: fmt.Sprintf("%s\n%s sensor, window %d, sequence (first = seeding read): %v\naverages: %v", msg, j.kind, j.window, syms, tr), Replay: c})
			} else if nfault > 0 && nfault < len(syms) {
				rep.AddDistinct(1)
				if rep.Evaluations%9973 == 1 {
					rep.Sample(map[string]any{"kind": j.kind, "window": j.window, "sequence": fmt.Sprint(syms), "averages": tr})
				}
			}
			// next sequence (positions 2..depth vary)
			p := depth
			for p >= 2 {
				idx[p]++
				if idx[p] < len(alpha) {
					break
				}
				idx[p] = 0
				p--
			}
			if p < 2 {
				break
			}
		}
	}
	if vxC08SlowSkipped > 0 {
		rep.Cap(fmt.Sprintf("%d cmd-sensor sequences not judged: a healthy sensor command needed more than 1 s of real time in 4 attempts (overloaded machine; fan2go kills commands after 2 s)", vxC08SlowSkipped))
	}
	rep.Note("every sequence of seed read + N polls over the alphabet {-40000,0,35000,35001,100000,1e12} U read faults (cmd: 4 values U {exit 1, non-numeric, empty, nan, inf, -inf}); distinct_nontrivial = passing sequences that mix successful reads and faults")
}
