// Package nosync replaces "sync" in internal/ui/logging.go for the race-instrumented C20 build only.
// fan2go serialises every log call with one global mutex; that mutex orders almost any two accesses of
// different goroutines that happen to be separated by a log line, which hides data races from a
// happens-before detector unless the accesses overlap in real time. With a no-op mutex the detector
// reports the races that exist "modulo logging" (log output is disabled in the harness, so the mutex
// protects nothing there).
package nosync

import "sync"

type (
	Cond      = sync.Cond
	Locker    = sync.Locker
	Map       = sync.Map
	Once      = sync.Once
	Pool      = sync.Pool
	RWMutex   = sync.RWMutex
	WaitGroup = sync.WaitGroup
)

func NewCond(l Locker) *Cond { return sync.NewCond(l) }

type Mutex struct{}

func (m *Mutex) Lock()         {}
func (m *Mutex) Unlock()       {}
func (m *Mutex) TryLock() bool { return true }
