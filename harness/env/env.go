// Package env is the trusted environment model of the verification harnesses: an in-memory
// sysfs-like integer file store served through the util.VerifFileOp seam (build tag verif),
// with an operation log, a fan device model and fault/choice-point interception.
// Real (empty) files are created on tmpfs for the paths so that os.Stat-based feature
// detection in the fan back-ends sees them.
package env

import (
	"fmt"
	"os"
	"path/filepath"
	"strconv"
	"strings"
	"sync"
	"syscall"

	"github.com/markusressel/fan2go/internal/util"
)

type Op struct {
	Kind  string // "read" | "write" | "write-atomic"
	Path  string
	Value int   // value written / value returned by a read
	Err   error // error returned to fan2go
	Note  string
	At    int64 // Clock() when logged
}

func (o Op) String() string {
	e := ""
	if o.Err != nil {
		e = " ERR"
	}
	return fmt.Sprintf("%s %s=%d%s%s", o.Kind, filepath.Base(o.Path), o.Value, e, o.Note)
}

type File struct {
	Val     int
	Missing bool // read/write -> ENOENT
	Garbage bool // read -> strconv error
	Empty   bool // read -> "file is empty"
	// OnWrite transforms / vetoes a write. Return (stored value, store?, error).
	OnWrite func(v int) (int, bool, error)
	// OnRead computes the value dynamically (device model), overriding Val.
	OnRead func() (int, error)
}

type FS struct {
	Dir   string
	Files map[string]*File
	Log   []Op
	// Intercept is called BEFORE every operation on a known file; it may mutate the FS
	// (third-party writes, device changes), run explorer choice points, or return a
	// non-nil *Result to replace the operation's result (fault injection).
	Intercept func(kind, path string, value int) *Result
	KeepLog   bool
	NOps      int
	// Mirror writes every stored value through to the real file as well, so that the final device
	// state survives the death of the process (process-per-execution harnesses).
	Mirror bool
	// Real keeps the values in the REAL files: reads and writes pass through to fan2go's real file code
	// (so its parsing/formatting is exercised); the FS only intercepts, logs and drives device models.
	Real bool
	// Locked serialises Handle with a mutex (several fan2go goroutines use the FS concurrently).
	Locked bool
	mu     sync.Mutex
	// Clock, when set, stamps log entries (virtual time inside a bubble).
	Clock func() int64
}

type Result struct {
	Val int
	Err error
}

var ErrIO = &os.PathError{Op: "write", Path: "verif", Err: syscall.EIO}

func ErrNoEnt(path string) error {
	return &os.PathError{Op: "open", Path: path, Err: syscall.ENOENT}
}
func ErrPerm(path string) error {
	return &os.PathError{Op: "open", Path: path, Err: syscall.EACCES}
}
func ErrInval(path string) error {
	return &os.PathError{Op: "write", Path: path, Err: syscall.EINVAL}
}

// New creates an FS rooted at a fresh tmpfs directory and installs it as the util seam.
func New() *FS {
	base := "/dev/shm"
	if _, err := os.Stat(base); err != nil {
		base = os.TempDir()
	}
	dir, err := os.MkdirTemp(base, "verif-fs-")
	if err != nil {
		panic(err)
	}
	fs := &FS{Dir: dir, Files: map[string]*File{}, KeepLog: true}
	all = append(all, fs)
	util.VerifFileOp = dispatch
	return fs
}

var all []*FS

// NewAt is New with a caller-chosen root directory (created if missing, not removed by Close).
func NewAt(dir string) *FS {
	if err := os.MkdirAll(dir, 0755); err != nil {
		panic(err)
	}
	fs := &FS{Dir: dir, Files: map[string]*File{}, KeepLog: true}
	all = append(all, fs)
	util.VerifFileOp = dispatch
	return fs
}

// dispatch routes an operation to the FS instance that owns the path (several instances may
// coexist, e.g. one for the search and one for from-scratch replays).
func dispatch(kind, path string, value int) (bool, int, error) {
	for _, fs := range all {
		if h, v, err := fs.Handle(kind, path, value); h {
			return h, v, err
		}
	}
	return false, 0, nil
}

// Reset forgets files and log but keeps the directory (fast re-use across executions).
func (fs *FS) Reset() {
	fs.Files = map[string]*File{}
	fs.Log = fs.Log[:0]
	fs.Intercept = nil
	fs.NOps = 0
	util.VerifFileOp = dispatch
}

func (fs *FS) Close() {
	out := all[:0]
	for _, x := range all {
		if x != fs {
			out = append(out, x)
		}
	}
	all = out
	_ = os.RemoveAll(fs.Dir)
}

// Add registers a virtual integer file (and creates an empty real file for os.Stat).
func (fs *FS) Add(name string, val int) string {
	p := filepath.Join(fs.Dir, name)
	if _, err := os.Stat(p); err != nil {
		_ = os.MkdirAll(filepath.Dir(p), 0755)
		if err := os.WriteFile(p, []byte{}, 0644); err != nil {
			panic(err)
		}
	}
	fs.Files[p] = &File{Val: val}
	fs.mirror(p, val)
	return p
}

// Absent returns a path in the FS dir that does not exist (neither real nor virtual).
func (fs *FS) Absent(name string) string {
	p := filepath.Join(fs.Dir, name)
	_ = os.Remove(p)
	delete(fs.Files, p)
	return p
}

func (fs *FS) F(path string) *File { return fs.Files[path] }
func (fs *FS) Val(path string) int {
	if fs.Real {
		b, err := os.ReadFile(path)
		if err != nil {
			return -1
		}
		v, err := strconv.Atoi(strings.TrimSpace(string(b)))
		if err != nil {
			return -1
		}
		return v
	}
	return fs.Files[path].Val
}

func (fs *FS) Handle(kind, path string, value int) (bool, int, error) {
	if fs.Locked {
		fs.mu.Lock()
	}
	_, ok := fs.Files[path]
	if !ok {
		if fs.Locked {
			fs.mu.Unlock()
		}
		return false, 0, nil // not ours: real file system
	}
	fs.NOps++
	ic := fs.Intercept
	if fs.Locked {
		fs.mu.Unlock() // the interceptor may yield to other goroutines (signal delivery); never call it with the lock held
	}
	if ic != nil {
		if r := ic(kind, path, value); r != nil {
			if fs.Locked {
				fs.mu.Lock()
				defer fs.mu.Unlock()
			}
			fs.log(Op{Kind: kind, Path: path, Value: pick(kind, value, r.Val), Err: r.Err, Note: " [injected]"})
			return true, r.Val, r.Err
		}
	}
	if fs.Locked {
		fs.mu.Lock()
		defer fs.mu.Unlock()
	}
	f := fs.Files[path]
	if fs.Real {
		if kind == "read" && f.OnRead != nil {
			if v, err := f.OnRead(); err == nil {
				_ = os.WriteFile(path, []byte(strconv.Itoa(v)), 0644)
			}
		}
		fs.log(Op{Kind: kind, Path: path, Value: value, Note: " [real]"})
		return false, 0, nil
	}
	if kind == "read" {
		switch {
		case f.Missing:
			err := ErrNoEnt(path)
			fs.log(Op{Kind: kind, Path: path, Value: -1, Err: err})
			return true, -1, err
		case f.Empty:
			err := fmt.Errorf("file is empty: %s", path)
			fs.log(Op{Kind: kind, Path: path, Value: -1, Err: err})
			return true, -1, err
		case f.Garbage:
			_, err := strconv.Atoi("garbage")
			fs.log(Op{Kind: kind, Path: path, Value: 0, Err: err})
			return true, 0, err
		}
		v := f.Val
		if f.OnRead != nil {
			var err error
			v, err = f.OnRead()
			if err != nil {
				fs.log(Op{Kind: kind, Path: path, Value: v, Err: err})
				return true, v, err
			}
		}
		fs.log(Op{Kind: kind, Path: path, Value: v})
		return true, v, nil
	}
	// write
	if f.Missing {
		err := ErrNoEnt(path)
		fs.log(Op{Kind: kind, Path: path, Value: value, Err: err})
		return true, 0, err
	}
	if f.OnWrite != nil {
		nv, store, err := f.OnWrite(value)
		if store {
			f.Val = nv
			fs.mirror(path, nv)
		}
		note := ""
		if !store && err == nil {
			note = " [ignored]"
		}
		fs.log(Op{Kind: kind, Path: path, Value: value, Err: err, Note: note})
		return true, 0, err
	}
	f.Val = value
	fs.mirror(path, value)
	fs.log(Op{Kind: kind, Path: path, Value: value})
	return true, 0, nil
}

func (fs *FS) mirror(path string, v int) {
	if fs.Mirror || fs.Real {
		_ = os.WriteFile(path, []byte(strconv.Itoa(v)), 0644)
	}
}

// Set stores a value from the environment side (third party / device), mirrored when enabled.
func (fs *FS) Set(path string, v int) {
	fs.Files[path].Val = v
	fs.mirror(path, v)
}

func pick(kind string, written, read int) int {
	if kind == "read" {
		return read
	}
	return written
}

func (fs *FS) log(o Op) {
	if fs.Clock != nil {
		o.At = fs.Clock()
	}
	if fs.KeepLog {
		fs.Log = append(fs.Log, o)
	}
}

// ---------------------------------------------------------------- hwmon-like fan device

type Dev struct {
	FS               *FS
	Pwm, Enable, Rpm string // paths ("" = absent)
	// RpmOf models the tachometer: rpm as a function of the device's current pwm value.
	RpmOf func(pwm int) int
}

// NewDev adds pwmN / pwmN_enable / fanN_input for channel n under sub-directory chip.
func (fs *FS) NewDev(chip string, n int, pwm int, enable int, hasEnable, hasRpm bool) *Dev {
	d := &Dev{FS: fs}
	d.Pwm = fs.Add(filepath.Join(chip, fmt.Sprintf("pwm%d", n)), pwm)
	if hasEnable {
		d.Enable = fs.Add(filepath.Join(chip, fmt.Sprintf("pwm%d_enable", n)), enable)
	} else {
		d.Enable = fs.Absent(filepath.Join(chip, fmt.Sprintf("pwm%d_enable", n)))
	}
	if hasRpm {
		d.Rpm = fs.Add(filepath.Join(chip, fmt.Sprintf("fan%d_input", n)), 0)
		fs.Files[d.Rpm].OnRead = func() (int, error) {
			if d.RpmOf != nil {
				return d.RpmOf(fs.Files[d.Pwm].Val), nil
			}
			return fs.Files[d.Rpm].Val, nil
		}
	} else {
		d.Rpm = fs.Absent(filepath.Join(chip, fmt.Sprintf("fan%d_input", n)))
	}
	return d
}

func (d *Dev) PwmVal() int    { return d.FS.Files[d.Pwm].Val }
func (d *Dev) EnableVal() int { return d.FS.Files[d.Enable].Val }
func (d *Dev) SetRpm(v int)   { d.FS.Files[d.Rpm].Val = v }
