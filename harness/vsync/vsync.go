// Package vsync replaces "sync" in internal/controller for verification builds (import rewrite at
// check time). It forwards the whole exported API of sync, except Mutex, which is implemented
// with a sync.Cond so that a goroutine waiting for the lock is *durably blocked* in the sense of
// testing/synctest (a goroutine blocked on a real sync.Mutex freezes the bubble's virtual clock,
// and the controller holds InitializationSequenceMutex across time.Sleep).
// Semantics are those of sync.Mutex: mutual exclusion, no ownership, no reentrancy, no fairness promise.
package vsync

import "sync"

type (
	Cond      = sync.Cond
	Locker    = sync.Locker
	Map       = sync.Map
	Once      = sync.Once
	Pool      = sync.Pool
	WaitGroup = sync.WaitGroup
)

func NewCond(l Locker) *Cond                                   { return sync.NewCond(l) }
func OnceFunc(f func()) func()                                 { return sync.OnceFunc(f) }
func OnceValue[T any](f func() T) func() T                     { return sync.OnceValue(f) }
func OnceValues[T1, T2 any](f func() (T1, T2)) func() (T1, T2) { return sync.OnceValues(f) }

type Mutex struct {
	mu     sync.Mutex
	c      *sync.Cond
	locked bool
}

// VerifOnLock, when set, observes lock transitions (harness instrumentation only).
var VerifOnLock func(m *Mutex, acquired bool)

func (m *Mutex) Lock() {
	m.mu.Lock()
	if m.c == nil {
		m.c = sync.NewCond(&m.mu)
	}
	for m.locked {
		m.c.Wait()
	}
	m.locked = true
	m.mu.Unlock()
	if VerifOnLock != nil {
		VerifOnLock(m, true)
	}
}

func (m *Mutex) TryLock() bool {
	m.mu.Lock()
	defer m.mu.Unlock()
	if m.locked {
		return false
	}
	m.locked = true
	return true
}

func (m *Mutex) Unlock() {
	m.mu.Lock()
	if !m.locked {
		m.mu.Unlock()
		panic("sync: unlock of unlocked mutex")
	}
	m.locked = false
	if m.c != nil {
		m.c.Signal()
	}
	m.mu.Unlock()
	if VerifOnLock != nil {
		VerifOnLock(m, false)
	}
}

// RWMutex: reader/writer lock built on a sync.Cond for the same reason as Mutex (waiters are durably blocked).
// Semantics of sync.RWMutex: any number of readers or one writer; a waiting writer blocks new readers.
type RWMutex struct {
	mu             sync.Mutex
	c              *sync.Cond
	readers        int
	writer         bool
	writersWaiting int
}

func (rw *RWMutex) init() {
	if rw.c == nil {
		rw.c = sync.NewCond(&rw.mu)
	}
}

func (rw *RWMutex) Lock() {
	rw.mu.Lock()
	rw.init()
	rw.writersWaiting++
	for rw.writer || rw.readers > 0 {
		rw.c.Wait()
	}
	rw.writersWaiting--
	rw.writer = true
	rw.mu.Unlock()
}

func (rw *RWMutex) Unlock() {
	rw.mu.Lock()
	rw.init()
	if !rw.writer {
		rw.mu.Unlock()
		panic("sync: Unlock of unlocked RWMutex")
	}
	rw.writer = false
	rw.c.Broadcast()
	rw.mu.Unlock()
}

func (rw *RWMutex) RLock() {
	rw.mu.Lock()
	rw.init()
	for rw.writer || rw.writersWaiting > 0 {
		rw.c.Wait()
	}
	rw.readers++
	rw.mu.Unlock()
}

func (rw *RWMutex) RUnlock() {
	rw.mu.Lock()
	rw.init()
	if rw.readers <= 0 {
		rw.mu.Unlock()
		panic("sync: RUnlock of unlocked RWMutex")
	}
	rw.readers--
	rw.c.Broadcast()
	rw.mu.Unlock()
}

func (rw *RWMutex) TryLock() bool {
	rw.mu.Lock()
	defer rw.mu.Unlock()
	if rw.writer || rw.readers > 0 {
		return false
	}
	rw.writer = true
	return true
}

func (rw *RWMutex) TryRLock() bool {
	rw.mu.Lock()
	defer rw.mu.Unlock()
	if rw.writer || rw.writersWaiting > 0 {
		return false
	}
	rw.readers++
	return true
}

func (rw *RWMutex) RLocker() Locker { return (*rlocker)(rw) }

type rlocker RWMutex

func (r *rlocker) Lock()   { (*RWMutex)(r).RLock() }
func (r *rlocker) Unlock() { (*RWMutex)(r).RUnlock() }
