// Package vsync replaces "sync" in internal/controller for verification builds (import rewrite at
// check time). It forwards the whole exported API of sync, except Mutex, which is implemented
// with a sync.Cond so that a goroutine waiting for the lock is *durably blocked* in the sense of
// testing/synctest (a goroutine blocked on a real sync.Mutex freezes the bubble's virtual clock,
// and the controller holds InitializationSequenceMutex across time.Sleep).
// Semantics are those of sync.Mutex: mutual exclusion, no ownership, no reentrancy, no fairness promise.
package vsync

import "sync"

type (
	Cond      = sync.Cond
	Locker    = sync.Locker
	Map       = sync.Map
	Once      = sync.Once
	Pool      = sync.Pool
	RWMutex   = sync.RWMutex
	WaitGroup = sync.WaitGroup
)

func NewCond(l Locker) *Cond                                   { return sync.NewCond(l) }
func OnceFunc(f func()) func()                                 { return sync.OnceFunc(f) }
func OnceValue[T any](f func() T) func() T                     { return sync.OnceValue(f) }
func OnceValues[T1, T2 any](f func() (T1, T2)) func() (T1, T2) { return sync.OnceValues(f) }

type Mutex struct {
	mu     sync.Mutex
	c      *sync.Cond
	locked bool
}

// VerifOnLock, when set, observes lock transitions (harness instrumentation only).
var VerifOnLock func(m *Mutex, acquired bool)

func (m *Mutex) Lock() {
	m.mu.Lock()
	if m.c == nil {
		m.c = sync.NewCond(&m.mu)
	}
	for m.locked {
		m.c.Wait()
	}
	m.locked = true
	m.mu.Unlock()
	if VerifOnLock != nil {
		VerifOnLock(m, true)
	}
}

func (m *Mutex) TryLock() bool {
	m.mu.Lock()
	defer m.mu.Unlock()
	if m.locked {
		return false
	}
	m.locked = true
	return true
}

func (m *Mutex) Unlock() {
	m.mu.Lock()
	if !m.locked {
		m.mu.Unlock()
		panic("sync: unlock of unlocked mutex")
	}
	m.locked = false
	if m.c != nil {
		m.c.Signal()
	}
	m.mu.Unlock()
	if VerifOnLock != nil {
		VerifOnLock(m, false)
	}
}
