// Package vcmd holds what the external-command harnesses (C18, C19) of the packages util, fans,
// sensors and configuration share: a scratch directory on /dev/shm with stray-process cleanup,
// the owner/group/mode reference rule of C18, the failure-mode catalogue of C19 and a wall-clock
// guarded call runner. It imports nothing of fan2go (package util's harness must be able to use it).
package vcmd

import (
	"bytes"
	"fmt"
	"os"
	"path/filepath"
	"runtime/debug"
	"strconv"
	"strings"
	"sync"
	"syscall"
	"time"

	"github.com/markusressel/fan2go/internal/verifshim/mc"
)

// TokenEnv is inherited by every process the code under test starts (exec.Cmd.Env == nil copies
// the environment), so strays can be found in /proc/<pid>/environ whatever they exec'ed into.
const TokenEnv = "VX_VERIF_TOKEN"

type Scratch struct {
	Dir   string
	Token string
}

// NewScratch creates /dev/shm/verif-<tag>-<pid>/ (root:root 0755) and exports the token.
func NewScratch(tag string) *Scratch {
	token := fmt.Sprintf("verif-%s-%d", tag, os.Getpid())
	dir := filepath.Join("/dev/shm", token)
	_ = os.RemoveAll(dir)
	if err := os.MkdirAll(dir, 0o755); err != nil {
		panic(err)
	}
	_ = os.Chmod(dir, 0o755)
	_ = os.Setenv(TokenEnv, token)
	return &Scratch{Dir: dir, Token: token}
}

// Close kills every process that still carries the token and removes the directory.
func (s *Scratch) Close() int {
	n := KillStrays(s.Token)
	_ = os.RemoveAll(s.Dir)
	return n
}

// KillStrays sends SIGKILL to every process (other than the caller) whose environment carries the token.
func KillStrays(token string) int {
	needle := []byte(TokenEnv + "=" + token)
	killed := 0
	for round := 0; round < 3; round++ {
		found := 0
		ents, _ := os.ReadDir("/proc")
		for _, e := range ents {
			pid, err := strconv.Atoi(e.Name())
			if err != nil || pid == os.Getpid() || pid <= 1 {
				continue
			}
			b, err := os.ReadFile("/proc/" + e.Name() + "/environ")
			if err != nil || !bytes.Contains(b, needle) {
				continue
			}
			if syscall.Kill(pid, syscall.SIGKILL) == nil {
				found++
			}
		}
		killed += found
		if found == 0 {
			break
		}
		time.Sleep(20 * time.Millisecond)
	}
	return killed
}

// ---------------------------------------------------------------- C18: who may be executed

// Allowed is the reference rule of C18: owned by root, not writable by a non-root group, not writable by others.
func Allowed(uid, gid int, mode os.FileMode) bool {
	return uid == 0 && !(gid != 0 && mode&0o020 != 0) && mode&0o002 == 0
}

// WhyNot names the clause(s) of the rule a file breaks ("" when allowed); used in violation signatures.
func WhyNot(uid, gid int, mode os.FileMode) string {
	var r []string
	if uid != 0 {
		r = append(r, "owner-not-root")
	}
	if gid != 0 && mode&0o020 != 0 {
		r = append(r, "nonroot-group-writable")
	}
	if mode&0o002 != 0 {
		r = append(r, "other-writable")
	}
	return strings.Join(r, "+")
}

type PermState struct {
	Uid  int         `json:"uid"`
	Gid  int         `json:"gid"`
	Mode os.FileMode `json:"mode"`
}

func (p PermState) String() string { return fmt.Sprintf("%d:%d %04o", p.Uid, p.Gid, uint32(p.Mode)) }

// Apply sets owner, group and mode of path (chown first: chown clears set-id bits, we only use 0777 bits).
func (p PermState) Apply(path string) error {
	if err := os.Chown(path, p.Uid, p.Gid); err != nil {
		return err
	}
	return os.Chmod(path, p.Mode)
}

var Owners = []int{0, 1234}

// CoreModes is the 8-mode core of the "change between two executions" pairs.
var CoreModes = []os.FileMode{0o700, 0o755, 0o775, 0o757, 0o777, 0o770, 0o707, 0o555}

// CoreStates = CoreModes x owner x group (32 states).
func CoreStates() []PermState {
	var r []PermState
	for _, u := range Owners {
		for _, g := range Owners {
			for _, m := range CoreModes {
				r = append(r, PermState{u, g, m})
			}
		}
	}
	return r
}

// ---------------------------------------------------------------- C19: catalogue of failure modes

type Case struct {
	Name string `json:"name"`
	Path string `json:"path"`
	// Stdout is what the command prints on stdout before it ends (already trimmed of newlines);
	// a call that reports success must have returned exactly this.
	Stdout string `json:"-"`
	// HoldsPipe: a process started by the command outlives it (or outlives the kill at the deadline)
	// and keeps the stdout/stderr pipe open.
	HoldsPipe bool `json:"holdsPipe"`
	// StartFailure: the permission check passes but the process cannot be started.
	StartFailure bool   `json:"startFailure"`
	Script       string `json:"script"`
}

const sleepS = "60"

// Catalogue writes the scripts below dir and returns the cases (DESIGN.md §3 C19).
func Catalogue(dir string) []Case {
	type spec struct {
		name, body string
		mode       os.FileMode
		stdout     string
		holds      bool
		startFail  bool
		raw        bool
	}
	big := strings.Repeat("x", 1<<20)
	line := "temp1: +45.0 C  (crit = +100.0 C)\n"
	multi := strings.TrimRight((strings.Repeat(line, 4194304/len(line)+1))[:4194304], "\n")
	specs := []spec{
		{name: "ok", body: "echo 42", stdout: "42"},
		{name: "ok-trailing-newlines", body: `printf '42\n\n\n'`, stdout: "42"},
		{name: "exit1-no-output", body: "exit 1"},
		{name: "exit3-with-output", body: "echo 17\necho oops >&2\nexit 3", stdout: "17"},
		{name: "exit126", body: "exit 126"},
		{name: "killed-sigkill", body: "kill -KILL $$"},
		{name: "killed-sigterm", body: "echo 5\nkill -TERM $$", stdout: "5"},
		{name: "killed-sigsegv", body: "kill -SEGV $$"},
		{name: "no-x-bit", body: "echo 42", mode: 0o644, startFail: true},
		{name: "bad-exec-format", body: "this is not a program\n\x00\x01\x02", raw: true, startFail: true},
		{name: "missing-interpreter", body: "#!/nonexistent/verif-no-such-interpreter\necho 42\n", raw: true, startFail: true},
		{name: "is-directory", body: "", raw: true, startFail: true},
		{name: "is-fifo-without-writer", body: "", raw: true, startFail: true},
		{name: "is-symlink-to-fifo", body: "", raw: true, startFail: true},
		{name: "is-dangling-symlink", body: "", raw: true, startFail: true},
		{name: "sleep-exec-beyond-deadline", body: "exec sleep " + sleepS},
		{name: "sleep-child-beyond-deadline", body: "sleep " + sleepS + "\necho 42", holds: true},
		{name: "grandchild-holds-stdout", body: "sleep " + sleepS + " &\necho 42", stdout: "42", holds: true},
		{name: "grandchild-holds-stderr-only", body: "sleep " + sleepS + " >/dev/null &\necho 42", stdout: "42", holds: true},
		{name: "grandchild-holds-stdout-exit1", body: "sleep " + sleepS + " &\nexit 1", holds: true},
		{name: "grandchild-and-sleeping-parent", body: "sleep " + sleepS + " &\nexec sleep " + sleepS, holds: true},
		{name: "grandchild-detached", body: "sleep " + sleepS + " </dev/null >/dev/null 2>&1 &\necho 42", stdout: "42"},
		// the command itself exits 0 at once; a child keeps stdout open until shortly AFTER the 0.2 s (2 s) deadline and lets go
		// within the pipe grace period: the call then has the complete output of a successful command (or may report an error)
		{name: "grandchild-holds-stdout-until-0.45s", body: "sleep 0.45 &\necho 42", stdout: "42"},
		{name: "exits-at-1.8s-grandchild-holds-stdout-until-2.25s", body: "sleep 2.25 &\nsleep 1.8\necho 42", stdout: "42"},
		{name: "output-empty", body: "exit 0", stdout: ""},
		{name: "output-non-numeric", body: "echo 'hello world'", stdout: "hello world"},
		{name: "output-nonsense-number", body: "echo '12abc'", stdout: "12abc"},
		{name: "output-1MiB", body: "head -c 1048576 /dev/zero | tr '\\0' x", stdout: big},
		{name: "stderr-1MiB-exit1", body: "head -c 1048576 /dev/zero | tr '\\0' x >&2\nexit 1"},
		// many lines of plausible but non-numeric output (what `sensors` prints), 4 MiB
		{name: "output-4MiB-multiline-non-numeric", body: "yes 'temp1: +45.0 C  (crit = +100.0 C)' | head -c 4194304", stdout: multi},
		// executable text files without a #! line: the kernel refuses them (ENOEXEC); fan2go does not start a shell for them
		{name: "no-shebang-script", body: "echo 42\n", raw: true, startFail: true},
		{name: "no-shebang-script-grandchild-holds-stdout", body: "sleep " + sleepS + " &\necho 42\n", raw: true, startFail: true},
	}
	var cases []Case
	for _, s := range specs {
		p := filepath.Join(dir, s.name)
		if s.name == "is-directory" {
			if err := os.MkdirAll(p, 0o755); err != nil {
				panic(err)
			}
			cases = append(cases, Case{Name: s.name, Path: p, StartFailure: true, Script: "<directory>"})
			continue
		}
		if s.name == "is-fifo-without-writer" || s.name == "is-symlink-to-fifo" {
			// a root-owned named pipe nobody writes to: opening it for reading would block forever
			fifo := p
			if s.name == "is-symlink-to-fifo" {
				fifo = p + ".pipe"
			}
			_ = os.Remove(fifo)
			if err := syscall.Mkfifo(fifo, 0o755); err != nil {
				panic(err)
			}
			_ = os.Chown(fifo, 0, 0)
			if fifo != p {
				_ = os.Remove(p)
				if err := os.Symlink(fifo, p); err != nil {
					panic(err)
				}
			}
			cases = append(cases, Case{Name: s.name, Path: p, StartFailure: true, Script: "<named pipe>"})
			continue
		}
		if s.name == "is-dangling-symlink" {
			_ = os.Remove(p)
			if err := os.Symlink(p+".gone", p); err != nil {
				panic(err)
			}
			cases = append(cases, Case{Name: s.name, Path: p, StartFailure: true, Script: "<dangling symlink>"})
			continue
		}
		content := s.body
		if !s.raw {
			content = "#!/bin/sh\n" + s.body + "\n"
		}
		mode := s.mode
		if mode == 0 {
			mode = 0o755
		}
		if err := os.WriteFile(p, []byte(content), mode); err != nil {
			panic(err)
		}
		_ = os.Chown(p, 0, 0)
		_ = os.Chmod(p, mode)
		cases = append(cases, Case{Name: s.name, Path: p, Stdout: s.stdout, HoldsPipe: s.holds, StartFailure: s.startFail, Script: content})
	}
	return cases
}

func FindCase(cases []Case, name string) (Case, bool) {
	for _, c := range cases {
		if c.Name == name {
			return c, true
		}
	}
	return Case{}, false
}

// ---------------------------------------------------------------- guarded call

type Timing struct {
	Elapsed  time.Duration
	Returned bool   // false: still blocked when the guard fired
	Panic    string // panic value ("" = none)
	Stack    string
}

// Guarded runs f in its own goroutine and waits for it on the real clock for at most guard.
func Guarded(guard time.Duration, f func()) Timing {
	type res struct {
		p     string
		stack string
	}
	ch := make(chan res, 1)
	t0 := time.Now()
	go func() {
		var r res
		defer func() { ch <- r }()
		defer func() {
			if x := recover(); x != nil {
				r.p = fmt.Sprint(x)
				if r.p == "" {
					r.p = "<panic>"
				}
				r.stack = string(debug.Stack())
			}
		}()
		f()
	}()
	tm := time.NewTimer(guard)
	defer tm.Stop()
	select {
	case r := <-ch:
		return Timing{Elapsed: time.Since(t0), Returned: true, Panic: r.p, Stack: r.stack}
	case <-tm.C:
		return Timing{Elapsed: time.Since(t0), Returned: false}
	}
}

const (
	SigTypeAssertion = "C19 panic on start failure (type assertion)"
	SigHoldsPipe     = "C19 call blocks while grandchild holds stdout"
	SigSlow          = "C19 call exceeds its timeout by more than 3s"
	SigWrongOutput   = "C19 success reported with something other than the command's output"
)

// Margin is the slack of the wall-clock oracle: a call must be back within timeout + Margin.
const Margin = 3 * time.Second

type Call struct {
	Site      string `json:"site"`
	Case      string `json:"case"`
	TimeoutMs int    `json:"timeoutMs"`
	Test      string `json:"test"`
}

// Outcome of the real call as seen by the harness: Ok = no error was reported; Problem = site specific
// complaint about the value returned with Ok (e.g. "returned 0 for output 'hello world'").
type Outcome struct {
	Ok      bool
	Err     string
	Problem string
}

// firstFrame returns the first fan2go (non-harness) function on a panic stack.
func firstFrame(stack string) string {
	for _, l := range strings.Split(stack, "\n") {
		l = strings.TrimSpace(l)
		if strings.HasPrefix(l, "github.com/markusressel/fan2go/") && !strings.Contains(l, "verifshim") && !strings.Contains(l, ".vx") && !strings.Contains(l, "TestVX") {
			if i := strings.LastIndex(l, "("); i > 0 {
				l = l[:i]
			}
			return strings.TrimPrefix(l, "github.com/markusressel/fan2go/")
		}
	}
	return "?"
}

// Judge applies the C19 oracle to one finished (or abandoned) call and records it in rep.
func Judge(rep *mc.Report, call Call, c Case, timeout time.Duration, tm Timing, out Outcome) {
	rep.Count("calls", 1)
	bound := timeout + Margin
	desc := fmt.Sprintf("site=%s case=%s timeout=%v script=%q", call.Site, c.Name, timeout, clip(c.Script, 200))
	switch {
	case tm.Panic != "":
		sig := "C19 panic in " + firstFrame(tm.Stack)
		if strings.Contains(tm.Panic, "interface conversion") && strings.Contains(tm.Panic, "exec.ExitError") {
			sig = SigTypeAssertion
		}
		rep.Count("panic:"+c.Name, 1)
		rep.Violate(mc.Violation{Signature: sig, Detail: fmt.Sprintf("%s: PANIC after %v: %s\n%s", desc, tm.Elapsed.Round(time.Millisecond), tm.Panic, clip(tm.Stack, 1200)), Replay: call})
		return
	case !tm.Returned || tm.Elapsed > bound:
		sig := SigSlow
		if c.HoldsPipe {
			sig = SigHoldsPipe
		}
		what := fmt.Sprintf("returned only after %v", tm.Elapsed.Round(10*time.Millisecond))
		if !tm.Returned {
			what = fmt.Sprintf("HANG: still blocked after the %v guard", tm.Elapsed.Round(time.Second))
		}
		rep.Count("late-or-hang:"+c.Name, 1)
		rep.Violate(mc.Violation{Signature: sig, Detail: fmt.Sprintf("%s: %s (bound: timeout + %v = %v)", desc, what, Margin, bound), Replay: call})
		return
	}
	if out.Ok && out.Problem != "" {
		rep.Count("wrong-output:"+c.Name, 1)
		rep.Violate(mc.Violation{Signature: SigWrongOutput, Detail: fmt.Sprintf("%s: %s", desc, out.Problem), Replay: call})
		return
	}
	if out.Ok {
		rep.Count("returned-output", 1)
	} else {
		rep.Count("returned-error", 1)
	}
}

func clip(s string, n int) string {
	if len(s) > n {
		return s[:n] + "..."
	}
	return s
}

// RunAll runs every job concurrently (started stagger apart) and waits for all of them.
func RunAll(jobs []func(), stagger time.Duration) {
	var wg sync.WaitGroup
	for _, j := range jobs {
		wg.Add(1)
		go func(j func()) {
			defer wg.Done()
			j()
		}(j)
		time.Sleep(stagger)
	}
	wg.Wait()
}

// Guard is the per-case hang guard: 30 s (DESIGN) in the thorough tier, quick in the quick tier
// (the three C19 runs execute one after the other), unless VERIF_C19_GUARD_S overrides it.
func Guard(quick time.Duration) time.Duration {
	if s := os.Getenv("VERIF_C19_GUARD_S"); s != "" {
		if n, err := strconv.Atoi(s); err == nil && n > 0 {
			return time.Duration(n) * time.Second
		}
	}
	if mc.Thorough() {
		return 30 * time.Second
	}
	return quick
}
