// Package vsignal replaces "os/signal" in internal/backend.go for verification builds (import
// rewrite at check time), so that signal delivery happens from a goroutine INSIDE the
// testing/synctest bubble at a point chosen by the explorer. Delivery reproduces
// os/signal.process literally: a non-blocking send to every channel registered for the signal.
// A terminating signal for which no channel is registered has its default disposition:
// the DefaultAction callback runs (process-level harnesses exit like the kernel would kill them).
package vsignal

import (
	"context"
	"os"
	"sync"
)

type handler struct {
	c    chan<- os.Signal
	sigs map[string]bool // empty = all
}

var (
	mu       sync.Mutex
	handlers []*handler
	ignored  = map[string]bool{}
	// DefaultAction is invoked by Deliver when no channel is registered for sig.
	DefaultAction func(sig os.Signal)
	// Delivered counts non-dropped sends (harness statistics).
	Delivered int
)

// VerifReset clears all registrations (between executions in one process).
func VerifReset() {
	mu.Lock()
	handlers = nil
	ignored = map[string]bool{}
	Delivered = 0
	mu.Unlock()
}

func (h *handler) want(sig os.Signal) bool { return len(h.sigs) == 0 || h.sigs[sig.String()] }

func Notify(c chan<- os.Signal, sig ...os.Signal) {
	if c == nil {
		panic("os/signal: Notify using nil channel")
	}
	mu.Lock()
	defer mu.Unlock()
	var h *handler
	for _, x := range handlers {
		if x.c == c {
			h = x
		}
	}
	if h == nil {
		h = &handler{c: c, sigs: map[string]bool{}}
		handlers = append(handlers, h)
		if len(sig) == 0 {
			return
		}
	} else if len(h.sigs) == 0 {
		return // already all
	}
	if len(sig) == 0 {
		h.sigs = map[string]bool{}
		return
	}
	for _, s := range sig {
		h.sigs[s.String()] = true
		delete(ignored, s.String())
	}
}

func Stop(c chan<- os.Signal) {
	mu.Lock()
	defer mu.Unlock()
	out := handlers[:0]
	for _, h := range handlers {
		if h.c != c {
			out = append(out, h)
		}
	}
	handlers = out
}

func Ignore(sig ...os.Signal) {
	mu.Lock()
	defer mu.Unlock()
	for _, s := range sig {
		ignored[s.String()] = true
		for _, h := range handlers {
			delete(h.sigs, s.String())
		}
	}
}

func Ignored(sig os.Signal) bool { mu.Lock(); defer mu.Unlock(); return ignored[sig.String()] }

func Reset(sig ...os.Signal) {
	mu.Lock()
	defer mu.Unlock()
	if len(sig) == 0 {
		handlers = nil
		ignored = map[string]bool{}
		return
	}
	for _, s := range sig {
		delete(ignored, s.String())
		for _, h := range handlers {
			delete(h.sigs, s.String())
		}
	}
}

// Registered reports whether some channel would receive sig.
func Registered(sig os.Signal) bool {
	mu.Lock()
	defer mu.Unlock()
	for _, h := range handlers {
		if h.want(sig) {
			return true
		}
	}
	return false
}

// Deliver is the harness entry point: the process "receives" sig now.
func Deliver(sig os.Signal) {
	mu.Lock()
	if ignored[sig.String()] {
		mu.Unlock()
		return
	}
	var targets []chan<- os.Signal
	for _, h := range handlers {
		if h.want(sig) {
			targets = append(targets, h.c)
		}
	}
	mu.Unlock()
	if len(targets) == 0 {
		if DefaultAction != nil {
			DefaultAction(sig)
		}
		return
	}
	for _, c := range targets {
		// os/signal.process: send but do not block for it
		select {
		case c <- sig:
			Delivered++
		default:
		}
	}
}

type signalCtx struct {
	context.Context
	cancel context.CancelFunc
	ch     chan os.Signal
}

func NotifyContext(parent context.Context, sigs ...os.Signal) (context.Context, context.CancelFunc) {
	ctx, cancel := context.WithCancel(parent)
	c := &signalCtx{Context: ctx, cancel: cancel, ch: make(chan os.Signal, 1)}
	Notify(c.ch, sigs...)
	if ctx.Err() == nil {
		go func() {
			select {
			case <-c.ch:
				c.cancel()
			case <-c.Done():
			}
		}()
	}
	return c, func() { c.cancel(); Stop(c.ch) }
}
