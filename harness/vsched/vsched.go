// Package vsched is a small controlled scheduler for goroutines inside a testing/synctest bubble.
// It replaces "sync" in internal/sensors for verification builds (import rewrite at check time):
// every Mutex.Lock is a scheduling POINT. While no scheduler is active a point is a no-op, so all
// other harnesses are unaffected. With a scheduler (Start), a goroutine reaching a point parks and
// the scheduler — after the bubble has become quiescent (synctest.Wait), i.e. every goroutine that
// can run at this virtual instant has reached a point or blocked — releases ONE parked goroutine,
// chosen by the explorer's choice tape. This enumerates the interleavings of concurrently runnable
// goroutines at lock granularity (the classic "scheduling points at synchronisation operations").
package vsched

import (
	"bytes"
	"runtime"
	"sort"
	"sync"
	"testing/synctest"
)

type (
	Cond      = sync.Cond
	Locker    = sync.Locker
	Map       = sync.Map
	Once      = sync.Once
	Pool      = sync.Pool
	RWMutex   = sync.RWMutex
	WaitGroup = sync.WaitGroup
)

func NewCond(l Locker) *Cond                                   { return sync.NewCond(l) }
func OnceFunc(f func()) func()                                 { return sync.OnceFunc(f) }
func OnceValue[T any](f func() T) func() T                     { return sync.OnceValue(f) }
func OnceValues[T1, T2 any](f func() (T1, T2)) func() (T1, T2) { return sync.OnceValues(f) }

// Mutex is sync.Mutex with a scheduling point before Lock.
type Mutex struct{ mu sync.Mutex }

func (m *Mutex) Lock() {
	Point("lock")
	m.mu.Lock()
}
func (m *Mutex) Unlock()       { m.mu.Unlock() }
func (m *Mutex) TryLock() bool { return m.mu.TryLock() }

type waiter struct {
	label string
	seq   int
	goCh  chan struct{}
}

// Sched is one controlled-scheduling session (one execution).
type Sched struct {
	arrivals chan *waiter
	stop     chan struct{}
	done     chan struct{}
	// Choose picks which of n parked goroutines (in canonical order) runs next.
	Choose func(n int, labels []string) int
	// MaxParked is the largest number of goroutines seen parked at once (1 = no concurrency at points).
	MaxParked int
	Points    int
	seq       int
}

var active *Sched

var names sync.Map // goroutine id -> name given by SetName

func goid() string {
	b := make([]byte, 64)
	b = b[:runtime.Stack(b, false)]
	b = bytes.TrimPrefix(b, []byte("goroutine "))
	if i := bytes.IndexByte(b, ' '); i > 0 {
		b = b[:i]
	}
	return string(b)
}

// SetName names the calling goroutine: its points are labelled "<name>:<label>", which makes the canonical order of
// goroutines parked at the same kind of point independent of their arrival order. ClearName removes the name again.
func SetName(n string) { names.Store(goid(), n) }
func ClearName()       { names.Delete(goid()) }

// Point parks the calling goroutine until the scheduler releases it (no-op without a scheduler).
func Point(label string) {
	s := active
	if s == nil {
		return
	}
	if n, ok := names.Load(goid()); ok {
		label = n.(string) + ":" + label
	}
	w := &waiter{label: label, goCh: make(chan struct{})}
	select {
	case s.arrivals <- w:
		<-w.goCh
	case <-s.stop:
	}
}

// Start activates a scheduler; must be called from inside the bubble. The returned stop function
// releases everything and ends the session.
func Start(choose func(n int, labels []string) int) (*Sched, func()) {
	s := &Sched{arrivals: make(chan *waiter), stop: make(chan struct{}), done: make(chan struct{}), Choose: choose}
	active = s
	go s.loop()
	return s, func() {
		active = nil
		close(s.stop)
		<-s.done
	}
}

func (s *Sched) loop() {
	defer close(s.done)
	var parked []*waiter
	releaseAll := func() {
		for _, w := range parked {
			close(w.goCh)
		}
		parked = nil
	}
	for {
		if len(parked) == 0 {
			select {
			case <-s.stop:
				return
			case w := <-s.arrivals:
				s.seq++
				w.seq = s.seq
				parked = append(parked, w)
			}
		}
		// let every goroutine that can run at this instant reach a point or block
		for {
			synctest.Wait()
			drained := false
			for more := true; more; {
				select {
				case w := <-s.arrivals:
					s.seq++
					w.seq = s.seq
					parked = append(parked, w)
					drained = true
				default:
					more = false
				}
			}
			if !drained {
				break
			}
		}
		select {
		case <-s.stop:
			releaseAll()
			return
		default:
		}
		sort.SliceStable(parked, func(i, j int) bool {
			if parked[i].label != parked[j].label {
				return parked[i].label < parked[j].label
			}
			return parked[i].seq < parked[j].seq
		})
		if len(parked) > s.MaxParked {
			s.MaxParked = len(parked)
		}
		s.Points++
		idx := 0
		if len(parked) > 1 && s.Choose != nil {
			labels := make([]string, len(parked))
			for i, w := range parked {
				labels[i] = w.label
			}
			idx = s.Choose(len(parked), labels)
		}
		w := parked[idx]
		parked = append(parked[:idx], parked[idx+1:]...)
		close(w.goCh)
	}
}
