COMMON_ASSUME = [
    "Go 1.26 toolchain (testing/synctest virtual clock) is faithful to real timer semantics",
    "harness environment model (in-memory integer files behind the util.VerifFileOp seam, fan device model) is faithful to sysfs",
]
