// Package gosensors is a pure-Go stand-in for github.com/md14454/gosensors (cgo libsensors
// binding) used ONLY by the verification harness builds (-modfile replace). It serves chips
// from a spec: either set in-process with VerifSetSpec, or loaded by Init() from the JSON
// file named by $VERIF_HWMON_SPEC. Feature order reproduces libsensors' dynamic chip
// enumeration: features grouped by type (in, fan, temp, ...), ascending number within type.
package gosensors

import (
	"encoding/json"
	"fmt"
	"os"
	"path/filepath"
	"sort"
	"strconv"
	"strings"
)

type ChipSpec struct {
	Prefix  string `json:"prefix"`
	BusType int16  `json:"busType"`
	BusNr   int16  `json:"busNr"`
	Addr    int32  `json:"addr"`
	Path    string `json:"path"`
	// Fans: channel numbers N for which fanN_input exists
	Fans []int `json:"fans"`
	// FanMin / FanMax: channels that also expose fanN_min / fanN_max (value read from file)
	FanMin []int `json:"fanMin"`
	FanMax []int `json:"fanMax"`
	// Temps: indices N for which tempN_input exists
	Temps []int `json:"temps"`
	// TempNoInput: indices N that exist as a temp feature WITHOUT an input subfeature (e.g. only tempN_max)
	TempNoInput []int `json:"tempNoInput"`
}

var spec []ChipSpec

// VerifSetSpec installs the chips that GetDetectedChips will report, in this order.
func VerifSetSpec(s []ChipSpec) { spec = append([]ChipSpec{}, s...) }

type SubFeature struct {
	Name    string
	Number  int32
	Type    SubFeatureType
	Mapping int32
	Flags   uint32
	path    string
	scale   float64
}

func (s SubFeature) GetValue() float64 {
	b, err := os.ReadFile(s.path)
	if err != nil {
		return 0
	}
	v, err := strconv.ParseFloat(strings.TrimSpace(string(b)), 64)
	if err != nil {
		return 0
	}
	return v / s.scale
}

type SubFeatureType int32

const (
	SubFeatureTypeInInput SubFeatureType = iota + 0
	SubFeatureTypeInMin
	SubFeatureTypeInMax
	SubFeatureTypeInLcrit
	SubFeatureTypeInCrit
	SubFeatureTypeInAverage
	SubFeatureTypeInLowest
	SubFeatureTypeInHighest
)
const (
	SubFeatureTypeFanInput SubFeatureType = iota + 256
	SubFeatureTypeFanMin
	SubFeatureTypeFanMax
)
const (
	SubFeatureTypeFanAlarm SubFeatureType = iota + 256 + 128
	SubFeatureTypeFanFault
	SubFeatureTypeFanDiv
	SubFeatureTypeFanBeep
	SubFeatureTypeFanPulses
	SubFeatureTypeFanMinAlarm
	SubFeatureTypeFanMaxAlarm
)
const (
	SubFeatureTypeTempInput SubFeatureType = iota + 512
	SubFeatureTypeTempMax
	SubFeatureTypeTempMaxHyst
	SubFeatureTypeTempMin
	SubFeatureTypeTempCrit
	SubFeatureTypeTempCritHyst
	SubFeatureTypeTempLcrit
	SubFeatureTypeTempEmergency
	SubFeatureTypeTempEmergencyHyst
	SubFeatureTypeTempLowest
	SubFeatureTypeTempHighest
)
const SubFeatureTypeUnknown SubFeatureType = 0x7fffffff

type Feature struct {
	Name   string
	Number int32
	Type   FeatureType
	subs   []SubFeature
}

func (f Feature) GetSubFeatures() []SubFeature { return append([]SubFeature{}, f.subs...) }

type FeatureType int32

const (
	FeatureTypeIn         FeatureType = 0x00
	FeatureTypeFan        FeatureType = 0x01
	FeatureTypeTemp       FeatureType = 0x02
	FeatureTypePower      FeatureType = 0x03
	FeatureTypeEnergy     FeatureType = 0x04
	FeatureTypeCurr       FeatureType = 0x05
	FeatureTypeHumidity   FeatureType = 0x06
	FeatureTypeMaxMain    FeatureType = 0x07
	FeatureTypeVid        FeatureType = 0x10
	FeatureTypeIntrusion  FeatureType = 0x11
	FeatureTypeMaxOther   FeatureType = 0x12
	FeatureTypeBeepEnable FeatureType = 0x18
	FeatureTypeMax        FeatureType = 0x19
	FeatureTypeUnknown    FeatureType = 0x7fffffff
)

func (f Feature) GetLabel() string { return f.Name }

func (f Feature) GetValue() float64 { return f.GetSubFeatures()[0].GetValue() }

type Bus struct {
	Type int16
	Nr   int16
}

func (b Bus) String() string {
	if b.Type == -1 {
		return "*"
	}
	return fmt.Sprintf("verif adapter %d/%d", b.Type, b.Nr)
}

type Chip struct {
	Prefix string
	Bus    Bus
	Addr   int32
	Path   string
	spec   *ChipSpec
}

func (c Chip) String() string { return fmt.Sprintf("%s-%d-%x", c.Prefix, c.Bus.Nr, c.Addr) }

func (c Chip) AdapterName() string { return c.Bus.String() }

func has(l []int, n int) bool {
	for _, x := range l {
		if x == n {
			return true
		}
	}
	return false
}

func (c Chip) GetFeatures() []Feature {
	if c.spec == nil {
		return nil
	}
	var features []Feature
	number := int32(0)
	sub := int32(0)
	fans := append([]int{}, c.spec.Fans...)
	sort.Ints(fans)
	for _, n := range fans {
		f := Feature{Name: fmt.Sprintf("fan%d", n), Number: number, Type: FeatureTypeFan}
		number++
		f.subs = append(f.subs, SubFeature{Name: fmt.Sprintf("fan%d_input", n), Number: sub, Type: SubFeatureTypeFanInput,
			path: filepath.Join(c.Path, fmt.Sprintf("fan%d_input", n)), scale: 1})
		sub++
		if has(c.spec.FanMin, n) {
			f.subs = append(f.subs, SubFeature{Name: fmt.Sprintf("fan%d_min", n), Number: sub, Type: SubFeatureTypeFanMin,
				path: filepath.Join(c.Path, fmt.Sprintf("fan%d_min", n)), scale: 1})
			sub++
		}
		if has(c.spec.FanMax, n) {
			f.subs = append(f.subs, SubFeature{Name: fmt.Sprintf("fan%d_max", n), Number: sub, Type: SubFeatureTypeFanMax,
				path: filepath.Join(c.Path, fmt.Sprintf("fan%d_max", n)), scale: 1})
			sub++
		}
		features = append(features, f)
	}
	temps := append(append([]int{}, c.spec.Temps...), c.spec.TempNoInput...)
	sort.Ints(temps)
	for _, n := range temps {
		f := Feature{Name: fmt.Sprintf("temp%d", n), Number: number, Type: FeatureTypeTemp}
		number++
		if has(c.spec.Temps, n) {
			f.subs = append(f.subs, SubFeature{Name: fmt.Sprintf("temp%d_input", n), Number: sub, Type: SubFeatureTypeTempInput,
				path: filepath.Join(c.Path, fmt.Sprintf("temp%d_input", n)), scale: 1000})
			sub++
		} else {
			f.subs = append(f.subs, SubFeature{Name: fmt.Sprintf("temp%d_max", n), Number: sub, Type: SubFeatureTypeTempMax,
				path: filepath.Join(c.Path, fmt.Sprintf("temp%d_max", n)), scale: 1000})
			sub++
		}
		features = append(features, f)
	}
	return features
}

func Init() {
	if p := os.Getenv("VERIF_HWMON_SPEC"); p != "" && spec == nil {
		b, err := os.ReadFile(p)
		if err != nil {
			panic("gosensors stand-in: cannot read VERIF_HWMON_SPEC: " + err.Error())
		}
		var s []ChipSpec
		if err := json.Unmarshal(b, &s); err != nil {
			panic("gosensors stand-in: bad VERIF_HWMON_SPEC: " + err.Error())
		}
		spec = s
	}
}

func Cleanup() {}

func GetDetectedChips() []Chip {
	var chips []Chip
	for i := range spec {
		s := &spec[i]
		chips = append(chips, Chip{Prefix: s.Prefix, Bus: Bus{Type: s.BusType, Nr: s.BusNr}, Addr: s.Addr, Path: s.Path, spec: s})
	}
	return chips
}
